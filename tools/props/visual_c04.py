"""C04 (scene isolation) for the VISUAL trackers: VisualSort and BatchVisualSort driven through the `visual` harness with
2-4 scenes that occupy the SAME image region with look-alike features, with and without spatio-temporal constraints.
Oracles applied directly to the implementation:
  (1) cross-scene-attach: no record of a scene-s call carries the id of a track that was created by a call of another scene;
  (2) run-pair: for every scene, the interleaved run and the run projected onto that scene alone give the same grouping
      of detections into tracks, lengths, epochs, voting types and echoed boxes, up to the first-occurrence id bijection.
      A scene is compared only up to its first call with an exact / near tie in appearance vote weights or in the positional
      optimum (tie-breaking may depend on the store's iteration order); such stops are counted.

    c04_visual_stage(chk)          called from tools/props/c04.py
    c04_visual_replay(chk, path)   returns None when the replay file is not one of this stage, else 0 / 1
"""
import json
import time
from collections import Counter
from fractions import Fraction

import vlib
from vlib import f32_bits_to_fraction
from props import c13 as base
from props import c12
from props.visual_c01 import _shrink_dets
from props import visual_c15

MARGIN = Fraction(1, 100000)


def scene_calls(spec_line, scene):
    d = base._kv(spec_line.split())
    calls = [c for c in d.get("calls", "").split(";") if c]
    return [c for c in calls if c.split("@")[0] == str(scene)]


def project(spec_line, scene):
    """the calls of one scene only, each as its own request (a batch grouping of the interleaved history is dropped)"""
    toks = [t for t in spec_line.split() if not t.startswith("grp=")]
    return base.spec_with_calls(" ".join(toks) + " grp=-", ";".join(scene_calls(spec_line, scene)))


def grouped(line):
    return base._kv(line.split()).get("grp", "-") != "-"


def scenes_of(spec_line):
    d = base._kv(spec_line.split())
    seen = []
    for c in [c for c in d.get("calls", "").split(";") if c]:
        s = int(c.split("@")[0])
        if s not in seen:
            seen.append(s)
    return seen


# ---- (1) -------------------------------------------------------------------------------------------------------
def cross_scene(case):
    fails = []
    born = {}
    for ci, call in enumerate(case["calls"]):
        if call["status"] == "PANIC":
            fails.append(("panic", ci, "the tracker panicked"))
            break
        if call["status"] != "ok":
            break
        for d, r in zip(call["dets"], call["recs"]):
            if r["id"] not in born:
                born[r["id"]] = call["scene"]
            elif born[r["id"]] != call["scene"]:
                fails.append(("cross-scene-attach", ci, "detection %d of scene %d was attached to track %d, which was created in scene %d (record length %d, voting %s)" % (
                    d["uid"], call["scene"], r["id"], born[r["id"]], r["len"], r["vt"])))
            if r["scene"] != call["scene"]:
                fails.append(("cross-scene-attach", ci, "record of detection %d (scene %d) reports scene %d" % (d["uid"], call["scene"], r["scene"])))
    return fails


# ---- ties (from the oracle tables of the interleaved run, same-scene tracks only) -----------------------------------
def tie_calls(case):
    """indices of calls with an exact / near tie among competing appearance claims or several optimal positional
    associations (what the property allows to depend on iteration order)"""
    spec = case["spec"]
    tz = c12.thr_z(spec)
    tracks = {}
    ties = set()
    for ci, call in enumerate(case["calls"]):
        if call["status"] != "ok":
            break
        pre = dict(tracks)
        e = call["epoch"]
        compat = {tid for tid, t in pre.items() if t["scene"] == call["scene"] and abs(e - t["epoch"]) <= spec["idle"]}
        votes = {}
        for d in call["dets"]:
            usable = d["feat"] and d["area"] >= spec["minarea"] and d["q"] >= spec["quse"] and (d["own"] is None or d["own"] >= spec["ownuse"])
            if not usable:
                continue
            for tid in compat:
                t = pre[tid]
                if sum(1 for x in t["gal"] if x["feat"]) < spec["minlen"]:
                    continue
                tab = call["fd"].get((d["uid"], tid), {})
                ws = []
                for x in t["gal"]:
                    if not x["feat"]:
                        continue
                    b = tab.get(x["uid"])
                    if b is None:
                        continue
                    dist = f32_bits_to_fraction(b[0])
                    if spec["vis_cos"]:
                        if dist >= spec["vis_thr"]:
                            ws.append(1 - dist)
                    else:
                        if dist <= spec["vis_thr"]:
                            ws.append(dist)
                if ws:
                    votes[(d["uid"], tid)] = ws
        allw = [w for ws in votes.values() for w in ws]
        maxd = max(allw + [Fraction(-1)])
        claim = {k: sum(maxd - w for w in ws) for k, ws in votes.items() if len(ws) >= spec["votes"]}
        items = list(claim.items())
        for a in range(len(items)):
            for b in range(a + 1, len(items)):
                (c1, t1), w1 = items[a]
                (c2, t2), w2 = items[b]
                if (c1 == c2 or t1 == t2) and abs(w1 - w2) <= MARGIN:
                    ties.add(ci)
        claimants = {c for c, _ in claim}
        # the appearance stage, re-derived (not read from the implementation's records): best-fit over the claims sorted by
        # weight, a detection's heaviest element decides; forced whenever no two competing claims are within the margin
        taken = set()
        won, first = set(), {}
        for (c1, t1), w1 in sorted(items, key=lambda x: -x[1]):
            if t1 in won:
                first.setdefault(c1, None)
            else:
                won.add(t1)
                first.setdefault(c1, t1)
        taken = {t for t in first.values() if t is not None}
        pairs = {}
        for d in call["dets"]:
            if d["uid"] in claimants:
                continue
            for tid in compat:
                if tid in taken:
                    continue
                lst = call["pos"].get((d["uid"], tid))
                if not lst:
                    continue
                wb, z = lst[0]
                if spec["pos_iou"] is not None and f32_bits_to_fraction(wb) < spec["pos_iou"]:
                    continue
                pairs[(d["uid"], tid)] = z
        rows = sorted({c for c, _ in pairs})
        if rows and len(rows) <= 6:
            by_row = {c: [(t, z) for (cc, t), z in pairs.items() if cc == c] for c in rows}
            vals = Counter()

            def go(i, used, acc):
                if i == len(rows):
                    vals[acc] += 1
                    return
                go(i + 1, used, acc + tz)
                for t, z in by_row[rows[i]]:
                    if t not in used:
                        go(i + 1, used | {t}, acc + z)
            go(0, frozenset(), 0)
            if vals[max(vals)] > 1:
                ties.add(ci)
        elif rows:
            ties.add(ci)        # too large to enumerate: treated as a possible tie (counted)
        for tid, t in call["trk"].items():
            tracks[tid] = t
    return ties


# ---- (2) -------------------------------------------------------------------------------------------------------
def canon_records(calls):
    """records of a list of calls with ids renamed by first occurrence; one entry per call"""
    ren = {}
    out = []
    for call in calls:
        row = []
        for d, r in zip(call["dets"], call["recs"]):
            if r["id"] not in ren:
                ren[r["id"]] = len(ren) + 1
            row.append((d["uid"], ren[r["id"]], r["len"], r["epoch"], r["vt"], r["obs"], r["pred"]))
        out.append(row)
    return out


def run_pair(inter, projections):
    """inter: parsed interleaved case; projections: {scene: parsed projected case}. Returns (fails, stats)."""
    fails = []
    stats = Counter()
    ties = tie_calls(inter)
    batch = inter["spec"]["trk"] == "bvs"
    for scene, proj in projections.items():
        idx = [ci for ci, c in enumerate(inter["calls"]) if c["scene"] == scene]
        a_calls = [inter["calls"][ci] for ci in idx]
        b_calls = proj["calls"]
        if batch:       # empty calls are no-ops for the batch tracker in both runs
            keep = [k for k, c in enumerate(a_calls) if c["dets"]]
            idx = [idx[k] for k in keep]
            a_calls = [a_calls[k] for k in keep]
            b_calls = [c for c in b_calls if c["dets"]]
        n = min(len(a_calls), len(b_calls))
        stop = n
        for k in range(n):
            if a_calls[k]["status"] != "ok" or b_calls[k]["status"] != "ok":
                stop = k
                break
            if idx[k] in ties:
                stop = k
                stats["tie_stops"] += 1
                stats["calls_skipped_after_tie"] += n - k
                break
        ra = canon_records(a_calls[:stop])
        rb = canon_records(b_calls[:stop])
        stats["calls_compared"] += stop
        for k in range(stop):
            if ra[k] != rb[k]:
                fails.append(("run-pair", idx[k], "scene %d, its call %d: interleaved %s, alone %s  (detection uid, track#, length, epoch, voting, observed, predicted)" % (scene, k, ra[k], rb[k])))
                break
    return fails, stats


def check_line(line, need_pair=True):
    """runs the interleaved history and its projections; returns (fails, stats, interleaved case)"""
    cs = base.run_spec_lines([line], tables=True)
    if not cs:
        return [("no-output", 0, "harness printed nothing")], Counter(), None
    inter = cs[0]
    fails = cross_scene(inter)
    stats = Counter()
    if need_pair:
        scenes = scenes_of(line)
        plines = [project(line, s) for s in scenes]
        pcs = base.run_spec_lines(plines, tables=False)
        if len(pcs) == len(scenes):
            f2, stats = run_pair(inter, dict(zip(scenes, pcs)))
            fails += f2
    return fails, stats, inter


def c04_visual_stage(chk):
    ok, out = vlib.harness_build(["visual"])
    if not ok:
        chk.broken.append("visual harness build failed:\n" + out[-2000:])
        chk.violation("C04:visual:harness-build", "the `visual` harness does not build against /repo", {"log": out[-4000:]}, found_input=False)
        chk.coverage["visual"] = {"evaluations": 0}
        return
    n = 150 if chk.tier == "quick" else 1500
    t0 = time.time()
    rc, out, err = vlib.harness_run("visual", ["c04", "--seed", chk.seed, "--n", n, "--tier", chk.tier], timeout=1500)
    inters = base.parse_output(out)
    # all projections in one harness run
    plines, owner = [], []
    for i, c in enumerate(inters):
        for s in scenes_of(c["spec"]["line"]):
            plines.append(project(c["spec"]["line"], s))
            owner.append((i, s))
    pcs = base.run_spec_lines(plines, tables=False) if plines else []
    projs = {}
    if len(pcs) == len(plines):
        for (i, s), pc in zip(owner, pcs):
            projs.setdefault(i, {})[s] = pc
    else:
        chk.broken.append("projected runs: %d specifications, %d outputs" % (len(plines), len(pcs)))
    hist = Counter()
    stats = Counter()
    failing = []
    nontriv = 0
    for i, c in enumerate(inters):
        s = c["spec"]
        d = base._kv(s["line"].split())
        hist["tracker=%s" % s["trk"]] += 1
        hist["scenes=%d" % len(scenes_of(s["line"]))] += 1
        hist["constraints=%s" % ("none" if d.get("stc", "-") == "-" else "set")] += 1
        hist["positional=%s" % ("maha" if s["pos_iou"] is None else "iou")] += 1
        hist["own_area=%s" % ("on" if s["ownuse"] + s["owncol"] > 0 else "off")] += 1
        if grouped(s["line"]):
            hist["multi_scene_batches"] += 1
        f = cross_scene(c)
        if i in projs:
            f2, st = run_pair(c, projs[i])
            f += f2
            stats.update(st)
        # non-trivial: some call continues a track while a compatible-looking track of ANOTHER scene exists (positional or feature table entry)
        born = {}
        nt = False
        for call in c["calls"]:
            if call["status"] != "ok":
                break
            for (cu, tid) in list(call["pos"].keys()) + list(call["fd"].keys()):
                if tid in born and born[tid] != call["scene"]:
                    nt = True
            for r in call["recs"]:
                born.setdefault(r["id"], call["scene"])
            stats["calls"] += 1
            stats["records"] += len(call["recs"])
        nontriv += 1 if nt else 0
        if f:
            failing.append((i, f))
    chk.log("visual trackers: %d interleaved histories + %d projected runs, %d calls (%.1fs)" % (len(inters), len(plines), stats["calls"], time.time() - t0))
    chk.coverage["visual"] = {
        "evaluations": len(inters), "projected_runs": len(plines), "calls": stats["calls"], "records": stats["records"],
        "calls_compared_run_pair": stats["calls_compared"], "tie_stops": stats["tie_stops"], "calls_skipped_after_tie": stats["calls_skipped_after_tie"],
        "distinct_nontrivial": nontriv,
        "rule": "VisualSort / BatchVisualSort histories over 2-4 scenes whose objects share positions, motion and (nearly) the appearance features, calls "
                "interleaved at random; spatio-temporal constraints none / never binding / binding; max_idle 1-3; IoU / Mahalanobis; features present "
                "50-100%. non-trivial = some call had a positional or feature-distance table entry against a track created in ANOTHER scene (i.e. only the "
                "scene check keeps them apart)",
        "samples": [c["spec"]["line"][:300] for c in inters[:3]],
        "input_distribution": dict(hist),
        "oracle_failures": len(failing),
        "wall_s": round(time.time() - t0, 1),
    }
    seen = set()
    for i, f in failing:
        clause, ci0, what0 = f[0]
        if clause in seen:
            continue
        seen.add(clause)
        try:
            c = inters[i]
            pair = clause == "run-pair"

            def fails(line, clause=clause, pair=pair):
                # the order of the scenes inside a multi-scene batch (a HashMap) may differ between runs: look a few times
                for _ in range(3 if grouped(line) else 1):
                    ff, _, _ = check_line(line, need_pair=pair)
                    if any(k == clause for k, _, _ in ff):
                        return True
                return False
            if grouped(c["spec"]["line"]):
                # batches / scenes of a batch / boxes (keeps the batch structure consistent)
                small = visual_c15.shrink(c["spec"]["line"], fails, budget=60)
            else:
                calls = [x for x in c["spec"]["calls_txt"].split(";") if x]
                line = base.spec_with_calls(c["spec"]["line"], ";".join(calls[:ci0 + 1]))
                if not fails(line):
                    line = c["spec"]["line"]
                small = base.shrink_spec(line, fails, budget=30)
                small = _shrink_dets(small, fails, budget=30)
            for _ in range(6 if grouped(small) else 1):
                ff, _, inter = check_line(small, need_pair=pair)
                if any(k == clause for k, _, _ in ff):
                    break
            recs = [(call["scene"], [(d["uid"], r["id"], r["len"], r["vt"]) for d, r in zip(call["dets"], call["recs"])]) for call in (inter["calls"] if inter else [])]
            chk.violation("C04:visual:" + clause, what0,
                          {"stage": "visual_c04", "input": small, "tracker": c["spec"]["trk"], "clause": clause,
                           "oracle_failures": [list(x) for x in (ff or f)[:6]],
                           "records_per_call (scene, [(detection uid, track id, length, voting)])": recs,
                           "other_failing_histories": len(failing) - 1,
                           "replay_cmd": "./check C04 --replay <this file>   (runs the interleaved history and its single-scene projections through: visual replay --file <spec>)"})
        except Exception as ex:      # the shrinker / re-run must never take the check down: report the unshrunk history
            import traceback
            line0 = inters[i]["spec"]["line"] if "spec" in inters[i] else inters[i].get("line")
            chk.violation("C04:visual:" + clause, what0,
                          {"stage": "visual_c04", "input": line0, "clause": clause, "oracle_failures": [list(x) for x in f[:6]],
                           "note": "not shrunk: " + traceback.format_exc()[-800:]})
        if len(seen) >= 2:
            break


def c04_visual_replay(chk, path):
    rep = json.load(open(path))
    if rep.get("stage") != "visual_c04":
        return None
    vlib.harness_build(["visual"])
    for _ in range(8 if grouped(rep["input"]) else 1):     # batch order may differ between runs
        f, st, inter = check_line(rep["input"], need_pair=True)
        if f:
            break
    for call in (inter["calls"] if inter else []):
        print("call %d scene %d:" % (call["j"], call["scene"]), [(d["uid"], r["id"], r["len"], r["vt"]) for d, r in zip(call["dets"], call["recs"])])
    for x in f[:10]:
        print("oracle failure:", x)
    print("REPRODUCED" if f else "not reproduced")
    return 1 if f else 0
