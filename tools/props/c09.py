"""C09 - the track store is a faithful id -> track map; merge failures are reported.

Proof: Props/C09.v (all operation sequences, all shard counts n >= 1, all callbacks).
Correspondence: operation sequences on the REAL TrackStore with the scripted callback algebra (harness bin
`trackstore`), exact diff after EVERY operation of the returned value, the notification count and the content of all
shards (get_store(k) for every k) against the model (vm_compute).  Exhaustive for all sequences of length 3 over a
small alphabet (thorough; a seeded sample in quick), random sequences up to 400 operations, 1-5 shards.
Property oracle: a shadow map id -> track maintained from the property text alone.

The script / model / diff machinery is shared with C11 (tools/props/c11.py).
"""
import itertools
import json
import os
import random
from collections import Counter

import vlib
from props import c11 as ts
from props.c11 import Script

BIN = ts.BIN

# --------------------------------------------------------------------------------------------------
# the scripted algebra's read-only callbacks, on normal-form tracks (id, (u,m,o), obs, ms, hist)


def status(t):
    u, m, o = t[1]
    total = sum(len(v) for _, v in t[2])
    if u % 5 == 3:
        return 3
    if total == 0:
        return 1
    if m % 3 == 2:
        return 2
    return 0 if total >= 2 else 1


def lookup(q, t):
    min_u, cls, hh = q
    return min_u <= t[1][0] and (cls is None or cls in {c for c, _ in t[2]}) and (hh is None or hh in t[4])


# --------------------------------------------------------------------------------------------------
# property oracle: shadow map

def c09_oracle(script, result):
    """-> None or (key, message, step index)"""
    if result.get("panic"):
        return ("C09:panic", "an operation panicked", len(script.ops) - 1)
    steps = ts.norm_steps_impl("S", result)
    raw = result["steps"]
    n = script.shards
    shadow = {}
    for i, (op, st) in enumerate(zip(script.ops, steps)):
        k = op[0]
        # the store as a map; placement in the shard determined by the id; no id stored twice
        cur = {}
        for si, sh in enumerate(st["shards"]):
            for key, t in sh:
                if key % n != si:
                    return ("C09:placement", "track %d is stored in shard %d of %d (expected %d)" % (key, si, n, key % n), i)
                if t[0] != key:
                    return ("C09:key-id", "track with id %d is stored under key %d" % (t[0], key), i)
                if key in cur:
                    return ("C09:duplicate-key", "id %d is stored twice" % key, i)
                cur[key] = t
        code = st["r"][1:]
        ok = code[0] == 0

        def unchanged():
            return cur == shadow

        if k == "BA":
            if st["r"][0] != 8:
                tid = op[1]
                if tid in shadow:
                    if code != (4, tid) or not unchanged():
                        return ("C09:add_track:duplicate", "add_track of the stored id %d: result %r, store changed: %s (a duplicate must be rejected and change nothing)"
                                % (tid, code, not unchanged()), i)
                else:
                    if not ok or st["ids"] != [tid]:
                        return ("C09:add_track:result", "add_track of the new id %d returned %r" % (tid, code), i)
                    rest = {a: b for a, b in cur.items() if a != tid}
                    if tid not in cur or rest != shadow:
                        return ("C09:add_track:not-found", "after add_track(%d) the track is not found or another track changed" % tid, i)
                    if all(sp[1] is None and sp[2] is None for sp in op[2]) and (cur[tid][2] != () or cur[tid][5] != ()):
                        return ("C09:add:attr-only-creates-class",
                                "a track built from attribute-only observations has observations %r / classes %r" % (cur[tid][2], cur[tid][5]), i)
            elif not unchanged():
                return ("C09:build:store-changed", "a failing external build changed the store", i)
        elif k == "AD":
            tid = op[1]
            if ok and op[2][1] is None and op[2][2] is None and tid in cur:
                # neither attributes nor feature: attribute-only update. The observations of every class and the set of
                # classes (get_observations(c) for all c, get_feature_classes()) are as before (none for a new track)
                b_obs, b_fc = (shadow[tid][2], shadow[tid][5]) if tid in shadow else ((), ())
                if cur[tid][2] != b_obs or cur[tid][5] != b_fc:
                    return ("C09:add:attr-only-creates-class",
                            "add(%d, class %d, None, None, ..) on a %s track changed the observations / classes: observations %r -> %r, "
                            "get_feature_classes %r -> %r" % (tid, op[2][0], "stored" if tid in shadow else "freshly created",
                                                              b_obs, cur[tid][2], b_fc, cur[tid][5]), i)
            if tid in shadow:
                rest = {a: b for a, b in cur.items() if a != tid}
                if tid not in cur or rest != {a: b for a, b in shadow.items() if a != tid}:
                    return ("C09:add:frame", "add(%d) removed the track or changed another track" % tid, i)
                if not ok and not unchanged():
                    return ("C09:add:failed-but-changed", "failed add(%d) changed the stored track" % tid, i)
            else:
                ext = raw[i].get("ext")
                if ext is None:
                    return ("C09:harness", "no external-build record for add on a missing id", i)
                if ext["r"][0] != 0:
                    if code != tuple(ext["r"]) or not unchanged():
                        return ("C09:add:inline-build", "add(%d) on a missing id: building the same track externally fails with %r, add returned %r and %s the store"
                                % (tid, tuple(ext["r"]), code, "left" if unchanged() else "CHANGED"), i)
                else:
                    want = dict(shadow)
                    want[tid] = ts.norm_track_impl(ext["track"])
                    if not ok or cur != want:
                        return ("C09:add:inline-build", "add(%d) on a missing id does not create the track that building it externally and inserting it would: got %r, builder gives %r (result %r)"
                                % (tid, cur.get(tid), want[tid], code), i)
        elif k == "FE":
            want_ids = []
            for x in op[1]:
                if x in shadow and x not in want_ids:
                    want_ids.append(x)
            want = sorted(shadow[x] for x in want_ids)
            if sorted(st["tracks"]) != want:
                return ("C09:fetch:returned", "fetch_tracks(%r) returned ids %r, the stored requested tracks are %r" % (op[1], [t[0] for t in st["tracks"]], want_ids), i)
            if cur != {a: b for a, b in shadow.items() if a not in op[1]}:
                return ("C09:fetch:not-removed", "after fetch_tracks(%r) the store holds ids %r (before: %r)" % (op[1], sorted(cur), sorted(shadow)), i)
        elif k in ("MO", "ME", "MN"):
            if st["r"][0] == 8:
                if not unchanged():
                    return ("C09:build:store-changed", "a failing external build changed the store", i)
            else:
                dst = op[1]
                src = op[2]
                owned = k == "MO"
                must_fail = None
                if owned and src not in shadow:
                    must_fail = "source %d missing" % src
                elif dst not in shadow or (owned and dst == src):
                    must_fail = "destination %d missing" % dst if dst not in shadow or not owned else "same track %d" % dst
                elif not owned and dst == src:
                    must_fail = "same track %d" % dst
                d = raw[i].get("direct")
                if must_fail is None and d is None:
                    return ("C09:harness", "no direct-merge record", i)
                if must_fail is None:
                    # the verdict the property dictates, from the fail plan and the classes to visit alone
                    exp, _ = ts.expected_merge(shadow[dst], ts.norm_track_impl(d["src"]), op[3] or [], True, result["plan"], raw[i]["w0"])
                    if exp != (0, 0):
                        must_fail = ("the merge itself must fail: %s (every requested class present in either track is optimised once, in list "
                                     "order; fail plan %r, invocation counters at the start %r)"
                                     % ("attribute merge" if exp[0] == 2 else "optimisation of a requested class", result["plan"], raw[i]["w0"]))
                if must_fail is None and d["r"][0] != 0:
                    must_fail = "Track::merge fails with %r" % (tuple(d["r"]),)
                if must_fail is not None:
                    if ok:
                        return ("C09:merge:failure-reported-as-success", "%s returned Ok although %s" % (k, must_fail), i)
                    if not unchanged():
                        return ("C09:merge:failed-but-changed", "%s failed (%s) but the store changed: before ids %r after ids %r"
                                % (k, must_fail, sorted(shadow), sorted(cur)), i)
                else:
                    if not ok:
                        return ("C09:merge:success-reported-as-failure", "%s returned %r although Track::merge on the same tracks succeeds" % (k, code), i)
                    want = dict(shadow)
                    want[dst] = ts.norm_track_impl(d["track"])
                    if owned and op[4]:
                        del want[src]
                        if st["tracks"] != [shadow[src]]:
                            return ("C09:merge_owned:returned-source", "merge_owned(remove) did not return the source track", i)
                    elif owned and st["tracks"]:
                        return ("C09:merge_owned:returned-source", "merge_owned(keep) returned a track", i)
                    if cur != want:
                        if sorted(cur) == sorted(want) and all(cur[a] == want[a] for a in cur if a != dst):
                            return ("C09:merge:destination", "%s reported Ok but the destination is not what Track::merge of the two tracks over the requested classes "
                                    "(all classes of the source when none are given) yields: got %r, expected %r" % (k, cur[dst], want[dst]), i)
                        return ("C09:merge:frame", "%s changed something other than the destination (or removed the source without being asked): ids before %r after %r"
                                % (k, sorted(shadow), sorted(cur)), i)
        elif k == "LK":
            want = sorted((a, status(b)) for a, b in shadow.items() if lookup((op[1], op[2], op[3]), b))
            if st["status"] != want or not unchanged():
                return ("C09:lookup", "lookup returned %r, the tracks satisfying the predicate are %r" % (st["status"], want), i)
        elif k == "FU":
            want = sorted((a, status(b)) for a, b in shadow.items() if status(b) != 1)
            if st["status"] != want or not unchanged():
                return ("C09:find_usable", "find_usable returned %r, the usable tracks are %r" % (st["status"], want), i)
        elif k == "CL":
            if cur:
                return ("C09:clear", "after clear the store holds %r" % sorted(cur), i)
        elif k == "ST":
            want = [sum(1 for a in shadow if a % n == si) for si in range(n)]
            if st["ids"] != want or sum(st["ids"]) != len(shadow) or not unchanged():
                return ("C09:shard_stats", "shard_stats %r, stored tracks per shard %r" % (st["ids"], want), i)
        elif k == "NT":
            if not unchanged():
                return ("C09:new_track", "new_track changed the store", i)
            if not st["tracks"] or st["tracks"][0][0] != op[1] or st["tracks"][0][2] != () or st["tracks"][0][4] != (op[1],):
                return ("C09:new_track", "new_track(%d) built %r" % (op[1], st["tracks"]), i)
        shadow = cur
    return None


# --------------------------------------------------------------------------------------------------
# generation

ALPHABET = [
    ("BA", 1, [(1, 3, None, (1, False))]),
    ("BA", 2, [(1, 5, 1, None), (2, 2, None, None)]),
    ("BA", 1, []),
    ("BA", 2, [(1, 7, None, None)]),                 # poisoned observation: the build fails
    ("AD", 1, (1, 4, None, None)),
    ("AD", 2, (2, 6, 2, (2, False))),
    ("AD", 1, (1, None, None, None)),                # attribute-only add (no update): class 1 may be absent
    ("AD", 2, (3, None, None, (1, False))),          # attribute-only add with an update, on a class track 2 may lack
    ("AD", 1, (2, 4, None, (1, True))),              # failing attribute update
    ("AD", 2, (1, 7, None, None)),                   # optimise fails (poison)
    ("FE", [1]),
    ("FE", [2, 1, 2]),
    ("MO", 1, 2, None, False, True),
    ("MO", 1, 2, None, True, True),
    ("MO", 2, 1, [1], True, False),
    ("MO", 1, 1, None, True, True),
    ("ME", 1, 3, None, True, [(1, 4, None, None)]),
    ("MN", 2, 3, [2], True, [(2, 1, None, None)]),
    ("ME", 1, 1, None, True, [(1, 4, None, None)]),
    ("MN", 1, 3, [1], False, [(1, 2, None, (4, False))]),   # attribute merge fails naturally when u sums to 4 mod 5
    ("BA", 2, [(3, 4, None, None), (3, 9, None, None)]),    # class 3 drained to zero observations by optimize
    ("AD", 1, (1, 9, None, None)),                           # drains class 1 of track 1
    ("LK", 0, None, None),
    ("LK", 1, 1, None),
    ("FU",),
    ("CL",),
    ("ST",),
    ("NT", 1),
]


def gen_exhaustive(shard_counts, length=3):
    out = []
    k = 0
    for n in shard_counts:
        for seq in itertools.product(range(len(ALPHABET)), repeat=length):
            out.append(Script("S", "x%d" % k, [ALPHABET[i] for i in seq], shards=n, meta={"family": "exhaustive", "seq": seq}))
            k += 1
    return out


# the same alphabet over LARGE ids: values that differ from themselves mod 2^8, 2^16, 2^32 (a routing that truncates the
# id anywhere between the caller and the shard shows up), used with shard counts that do not divide those powers
ID_MAPS = [
    {1: 256, 2: 511, 3: 65535},
    {1: 2 ** 32 + 1, 2: 2 ** 64 - 2, 3: 65536},
    {1: 257, 2: 255, 3: 2 ** 32 + 1},
]


def remap_op(op, m):
    f = lambda x: m.get(x, x)
    k = op[0]
    if k in ("BA", "AD", "NT"):
        return (k, f(op[1])) + tuple(op[2:])
    if k == "FE":
        return (k, [f(x) for x in op[1]])
    if k == "MO":
        return (k, f(op[1]), f(op[2])) + tuple(op[3:])
    if k in ("ME", "MN"):
        return (k, f(op[1]), f(op[2])) + tuple(op[3:])
    if k == "LK":
        return (k, op[1], op[2], None if op[3] is None else f(op[3]))
    return op


def gen_big_pairs(shard_counts, maps, prefix="b"):
    """all sequences of length 2 (+ shard_stats) over the alphabet with remapped (large) ids"""
    out = []
    k = 0
    for mi in maps:
        m = ID_MAPS[mi]
        for n in shard_counts:
            for a, b in itertools.product(range(len(ALPHABET)), repeat=2):
                out.append(Script("S", "%s%d" % (prefix, k), [remap_op(ALPHABET[a], m), remap_op(ALPHABET[b], m), ("ST",)], shards=n,
                                  meta={"family": "exhaustive-2-large-ids"}))
                k += 1
    return out


def gen_dest_only_faults(shard_counts):
    """merges over explicit class lists naming classes that only the DESTINATION holds, with an optimize failure planned
    at exactly that class; remove flag on/off; all three store merge entry points"""
    out = []
    k = 0
    dspec = [(1, 3, None, None), (2, 5, 1, None)]         # destination: classes 1 and 2
    sspec = [(1, 4, None, None)]                            # source: class 1 only
    for n in shard_counts:
        for (L, at) in (([2], 0), ([1, 2], 1), ([2, 1], 0), ([2, 1], 1), ([4, 2], 0)):
            for mh in (True, False):
                for variant in ("MO0", "MO1", "ME", "MN"):
                    n_setup = len(dspec) + (len(sspec) if variant.startswith("MO") else len(sspec))
                    plan = ((), (), (n_setup + at,))
                    ops = [("BA", 1, dspec)]
                    if variant.startswith("MO"):
                        ops += [("BA", 2, sspec), ("MO", 1, 2, L, variant == "MO1", mh)]
                    else:
                        ops.append((variant, 1, 2, L, mh, sspec))
                    out.append(Script("S", "df%d" % k, ops + [("ST",)], shards=n, plan=plan, meta={"family": "dest-only-class faults"}))
                    k += 1
    return out


def rand_spec(rng, poison_p=0.06):
    cls = rng.randint(1, 3)
    r = rng.random()
    oa = None if r < 0.2 else (7 if r < 0.2 + poison_p else (9 if r < 0.26 + poison_p else rng.randint(0, 6)))
    f = None if rng.random() < 0.5 else rng.randint(0, 9)
    upd = None if rng.random() < 0.5 else (rng.randint(0, 3), rng.random() < 0.08)
    return (cls, oa, f, upd)


def rand_cls(rng):
    r = rng.random()
    if r < 0.35:
        return None
    if r < 0.45:
        return []
    return [rng.randint(1, 4) for _ in range(rng.randint(1, 3))]


def rand_op(rng, ids):
    r = rng.random()
    i = lambda: rng.choice(ids)
    if r < 0.16:
        return ("BA", i(), [rand_spec(rng) for _ in range(rng.randint(0, 3))])
    if r < 0.40:
        return ("AD", i(), rand_spec(rng))
    if r < 0.48:
        return ("FE", [i() for _ in range(rng.randint(0, 3))])
    if r < 0.62:
        return ("MO", i(), i(), rand_cls(rng), rng.random() < 0.5, rng.random() < 0.6)
    if r < 0.72:
        return (rng.choice(["ME", "MN"]), i(), rng.choice(ids + [50, 51]), rand_cls(rng), rng.random() < 0.6,
                [rand_spec(rng) for _ in range(rng.randint(0, 3))])
    if r < 0.80:
        return ("LK", rng.randint(0, 4), rng.choice([None, 1, 2, 3]), rng.choice([None] + ids))
    if r < 0.87:
        return ("FU",)
    if r < 0.89:
        return ("CL",)
    if r < 0.96:
        return ("ST",)
    return ("NT", i())


def gen_random(seed, count, max_len):
    rng = random.Random(seed * 7919 + 13)
    out = []
    for k in range(count):
        n = 1 + k % 8
        ids = list(range(0, rng.choice([4, 6, 9])))
        if k % 2 == 1:
            # mix in large ids
            big = [255, 256, 257, 511, 65535, 65536, 2 ** 32 + 1, 2 ** 64 - 2]
            ids = ids[:3] + rng.sample(big, rng.choice([3, 5]))
        length = max_len if k == 0 else rng.randint(max_len // 4, max_len)
        ops = [rand_op(rng, ids) for _ in range(length)]
        # a sparse fail plan over the global invocation indices
        plan = tuple(tuple(sorted(rng.sample(range(0, 2 * length), rng.randint(0, length // 12)))) for _ in range(3))
        out.append(Script("S", "r%d" % k, ops, shards=n, plan=plan, meta={"family": "random"}))
    return out


def is_nontrivial(result):
    """the sequence contains a failing merge/add or a duplicate/missing id operation"""
    for st in result.get("steps", []):
        if st["r"][1] != 0:
            return True
    return False


def minimise(script, result, key):
    cur = Script(script.kind, script.case, script.ops, script.shards, result["plan"], False, script.meta)

    def fails(cand):
        try:
            res = ts.run_scripts([cand], tag="min09")
        except RuntimeError:
            return None
        for s, r in res:
            f = c09_oracle(s, r)
            if f is not None and f[0] == key:
                return (r, f)
        return None
    # 1. cut everything after the failing step  2. drop the fail plan if not needed  3. drop single operations
    got = fails(cur)
    if got is None:
        return cur, None
    cur = Script(cur.kind, cur.case, cur.ops[:got[1][2] + 1], cur.shards, cur.plan, False, cur.meta)
    np = Script(cur.kind, cur.case, cur.ops, cur.shards, ((), (), ()), False, cur.meta)
    if fails(np):
        cur = np
    changed = True
    while changed and len(cur.ops) > 1:
        changed = False
        for i in range(len(cur.ops) - 1, -1, -1):
            cand = Script(cur.kind, cur.case, cur.ops[:i] + cur.ops[i + 1:], cur.shards, cur.plan, False, cur.meta)
            if cand.ops and fails(cand):
                cur = cand
                changed = True
                break
    for n in range(1, cur.shards):
        cand = Script(cur.kind, cur.case, cur.ops, n, cur.plan, False, cur.meta)
        if fails(cand):
            cur = cand
            break
    return cur, fails(cur)


def run(chk):
    props = os.path.join(vlib.COQ, "theories", "Props", "C09.v")
    vlib.proof_stage(chk, props)
    if chk.tier == "thorough":
        vlib.coqchk_stage(chk, "Similari.Props.C09")

    ok, out = vlib.harness_build([BIN])
    if not ok:
        chk.broken.append("harness build failed:\n" + out[-2000:])
        chk.violation("harness-build", "the correspondence harness does not build against /repo", {"log": out[-4000:]}, found_input=False)
        chk.coverage.update({"evaluations": 0})
        return
    exhaustive = chk.tier == "thorough"
    if exhaustive:
        small = gen_exhaustive((1, 2, 3)) + gen_big_pairs((2, 3, 4, 5, 6, 7, 8), (0, 1, 2)) + gen_dest_only_faults((1, 2, 3, 5))
        rnd = gen_random(chk.seed, 40, 400)
    else:
        allx = gen_exhaustive((1, 2, 3))
        rng = random.Random(chk.seed)
        small = rng.sample(allx, 2500)
        # all sequences of length 2, as length-3 scripts ending in shard_stats, are always run
        pairs2 = [Script("S", "p%d_%d" % (n, i), [ALPHABET[a], ALPHABET[b], ("ST",)], shards=n, meta={"family": "exhaustive-2"})
                  for n in (1, 2, 3) for i, (a, b) in enumerate(itertools.product(range(len(ALPHABET)), repeat=2))]
        small = small + pairs2 + gen_big_pairs((3, 5, 6, 7), (0, 1)) + gen_big_pairs((8,), (2,), prefix="c") + gen_dest_only_faults((1, 2, 3))
        rnd = gen_random(chk.seed, 8, 400)
    scripts = small + rnd
    pairs = ts.run_scripts(scripts, tag="c09")
    chk.log("implementation: %d scripts (%d short, %d random up to 400 ops)" % (len(scripts), len(small), len(rnd)))

    findings = []
    hist = Counter()
    nontrivial = set()
    ops_total = 0
    for s, r in pairs:
        hist["family=" + s.meta.get("family", "?")] += 1
        hist["shards=%d" % s.shards] += 1
        if r.get("panic"):
            hist["panic"] += 1
        for op, st in zip(s.ops, r.get("steps", [])):
            ops_total += 1
            hist["op=" + op[0]] += 1
            if st["r"][1] != 0:
                hist["err=%d" % st["r"][1]] += 1
        if is_nontrivial(r):
            nontrivial.add(s.line())
        f = c09_oracle(s, r)
        if f is not None:
            findings.append((s, r, f))

    model = None
    if os.path.exists(os.path.join(vlib.COQ, "theories", "Model", "Store.vo")):
        try:
            n_small = sum(1 for s, _ in pairs if s.meta.get("family") != "random")
            m1 = ts.eval_model(pairs[:n_small], tag="c09s", shard_size=150) if n_small else []
            m2 = ts.eval_model(pairs[n_small:], tag="c09r", shard_size=1) if len(pairs) > n_small else []
            model = m1 + m2
        except RuntimeError as e:
            chk.broken.append("model evaluation failed: %s" % str(e)[-1500:])
    else:
        chk.broken.append("model Model/Store.vo not built")
    disagreements = []
    if model is not None:
        for i, (s, r) in enumerate(pairs):
            if r.get("panic"):
                disagreements.append((i, "implementation panicked"))
                continue
            d = ts.diff_steps(ts.norm_steps_impl("S", r), model[i])
            if d is not None:
                disagreements.append((i, d))
    chk.log("operations compared %d; oracle findings %d; model/implementation disagreements %d" % (ops_total, len(findings), len(disagreements)))

    chk.coverage.update({
        "evaluations": len(pairs),
        "operations_compared": ops_total,
        "distinct_nontrivial": len(nontrivial),
        "rule": "operation sequences over add_track (through the builder), add, fetch_tracks, merge_owned, merge_external, "
                "merge_external_noblock+get, lookup, find_usable, clear, shard_stats, new_track; after EVERY operation the returned value, the "
                "notification count and all shards are compared. thorough: all 28^3 sequences of length 3 over the alphabet x shards 1..3, all length-2 sequences over three LARGE-id renamings (255..2^64-2) x shards 2..8, and 40 "
                "random sequences of 100-400 operations (ids 0..8 mixed with large ids, classes 1..4, shards 1..8, sparse fail plans, draining and poisoned observations); quick: all sequences of length 2 over small ids x shards 1..3 and over two large-id renamings x shards 3,5,6,7 (+8) "
                "(+shard_stats), a seeded sample of 2500 length-3 sequences, 8 random sequences up to 400 operations. "
                "non-trivial = the sequence contains a failing operation (duplicate id, missing id, same track, callback failure); distinct by script",
        "samples": [s.line()[:300] for s in (scripts[0], scripts[len(small) // 2], scripts[-1])],
        "input_distribution": dict(hist),
        "model_vs_impl_disagreements": len(disagreements),
        "property_oracle_failures": len(findings),
        "exhaustive": exhaustive,
    })

    if findings:
        seen = set()
        for s, r, f in sorted(findings, key=lambda x: (len(x[0].ops), x[0].line())):
            key = f[0]
            if key in seen:
                continue
            seen.add(key)
            small_s, got = minimise(s, r, key)
            rr, ff = got if got else (r, f)
            chk.violation(key, ff[1], {
                "script": small_s.line(), "failing_step": ff[2], "operation": ts.fmt_op(small_s.ops[ff[2]]),
                "implementation_steps": rr.get("steps"),
                "replay_cmd": ts.replay_cmd(small_s, small_s.plan),
                "model_vs_impl_disagreements": len(disagreements),
                "broken": chk.broken})
    elif disagreements or chk.broken:
        what = "proof or correspondence no longer checks: " + "; ".join(b.split("\n")[0][:200] for b in chk.broken)
        rep = {"broken": chk.broken}
        if disagreements:
            i, d = min(disagreements, key=lambda x: len(pairs[x[0]][0].ops))
            s, r = pairs[i]
            rep["correspondence_case"] = s.with_plan(r["plan"]).line()
            rep["difference"] = d
            rep["replay_cmd"] = ts.replay_cmd(s, r["plan"])
            what += " model/implementation differ on %d scripts" % len(disagreements)
        chk.violation("C09:tie-broken", what, rep, found_input=False)


def replay(chk, path):
    rep = json.load(open(path))
    vlib.harness_build([BIN])
    line = rep.get("script") or rep.get("correspondence_case")
    if not line:
        print("nothing to replay in", path)
        return 0
    s = ts.parse_line(line)
    res = ts.run_scripts([s], tag="replay09")
    bad = 0
    for sc, r in res:
        print(json.dumps(r)[:3000])
        f = c09_oracle(sc, r)
        if f is not None:
            print("oracle:", f)
            bad = 1
    print("REPRODUCED" if bad else "not reproduced by the property oracle (correspondence-only difference?)")
    return bad
