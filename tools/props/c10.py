"""C10 - distance queries are exact and schedule independent.

proof:          Props/C10.v (model Model/DistProto.v, lemmas Proofs/DistProtoProofs.v)
correspondence: harness bin `sched c10` drives the REAL TrackStore (scripted attribute/metric algebra = DistInst)
                through prescribed interleavings of caller enqueues / worker commands / return point, forced
                with the verif hooks; every run is
                  (a) validated as a run of DistProto (each label enabled, final) and compared chunk by chunk
                      with the model's result in arrival order,
                  (b) checked against an independent reading of the property text (python, below),
                  (c) its recorded hook trace is checked to be exactly the prescribed interleaving.
"""
import json
import os
from collections import Counter

import vlib

PREAMBLE = """From Coq Require Import List NArith ZArith Bool.
From Similari Require Import Model.DistProto Model.DistProtoFine.
Import ListNotations.
"""

FIELDS = ["kind", "mv", "S", "cls", "ob", "store", "cands", "sched", "recv", "mode"]


def ensure_cargo_cfg():
    """alternative workspaces: make sure the copied harness is built with the hook guard (--cfg similari_verif)"""
    if vlib.ALT:
        src = open(os.path.join(vlib.ROOT, "harness", ".cargo", "config.toml")).read()
        want = src.replace(os.path.join(vlib.CACHE, "target"), vlib.TARGET_DIR)
        cc = os.path.join(vlib.HARNESS, ".cargo", "config.toml")
        if not os.path.exists(cc) or open(cc).read() != want:
            with open(cc, "w") as fh:
                fh.write(want)


# ---------------------------------------------------------------------------------------------------------
# parsing

def dec_track(s):
    p = s.split(":")
    obs = []
    if len(p) > 3 and p[3]:
        for c in p[3].split("/"):
            k, v = c.split("=")
            obs.append((int(k), [int(x) for x in v.split(".") if x != ""]))
    return {"id": int(p[0]), "grp": int(p[1]), "status": int(p[2]), "obs": obs}


def dec_tracks(s):
    return [dec_track(x) for x in s.split(",") if x]


def enc_track(t):
    return "%d:%d:%d:%s" % (t["id"], t["grp"], t["status"],
                            "/".join("%d=%s" % (c, ".".join(str(v) for v in vs)) for c, vs in t["obs"]))


def parse_run(line):
    d = {}
    for tok in line.split()[1:]:
        k, v = tok.split("=", 1)
        d[k] = v
    r = {"raw": line, "kind": d["kind"], "mv": int(d.get("mv", "1")), "S": int(d["S"]), "cls": int(d["cls"]), "ob": d["ob"] == "1",
         "store": dec_tracks(d["store"]), "sched": [t for t in d["sched"].split(".") if t], "recv": int(d["recv"]),
         "mode": d["mode"], "status": d["status"], "other_err": int(d["other_err"]), "after": d["after"],
         "before": d.get("before", ""),
         "log": [t for t in d["log"].split(".") if t]}
    if r["kind"] == "foreign":
        r["cands"] = dec_tracks(d["cands"])
        r["ids"] = []
    else:
        r["ids"] = [int(x) for x in d["cands"].split(",") if x]
        r["cands"] = []
    ok = []
    for e in d["ok"].split(","):
        if e:
            a, b, am, fd = e.split(":")
            ok.append((int(a), int(b), None if am == "n" else int(am), None if fd == "n" else int(fd)))
    err = []
    for e in d["err"].split(","):
        if e:
            a, b, c = e.split(":")
            err.append((int(a), int(b), int(c)))
    r["ok"], r["err"] = ok, err
    return r


def case_text(r):
    """the replayable identity of a run (input of `sched c10replay`)"""
    cands = ",".join(enc_track(t) for t in r["cands"]) if r["kind"] == "foreign" else ",".join(str(i) for i in r["ids"])
    return "kind=%s mv=%d S=%d cls=%d ob=%d store=%s cands=%s sched=%s recv=%d mode=%s" % (
        r["kind"], r["mv"], r["S"], r["cls"], 1 if r["ob"] else 0, ",".join(enc_track(t) for t in r["store"]), cands,
        ".".join(r["sched"]), r["recv"], r["mode"])


# ---------------------------------------------------------------------------------------------------------
# the property oracle: an independent reading of the property text on the scripted algebra

def compatible(c, o):
    return o["grp"] != (c["grp"] + 1) % 3


def metric(cls, a, b):
    fd = a if (a * b) % 2 == 0 else None
    m = (a + b) % 4
    if m == 0:
        return None
    if m == 1:
        return (None, fd)
    return (16 * a + b + cls, fd)


def metric2(cls, a, b):
    """second scripted metric (no postprocess_distances of its own): (None, None) is a value too"""
    m = (a + b) % 4
    if m == 0:
        return None
    if m == 1:
        return (None, None if a % 2 == 0 else a)
    return (16 * a + b + cls, a if (a * b) % 2 == 0 else None)


def obs_of(t, cls):
    """a track HAS class c iff some observation was ever added to it for c; a class listed without values only
    received an attributes-only update (no observation, no feature) and is still missing"""
    for c, vs in t["obs"]:
        if c == cls and vs:
            return vs
    return None


def effective_cands(r):
    if r["kind"] == "foreign":
        return r["cands"]
    out = []
    for i in r["ids"]:
        for t in r["store"]:
            if t["id"] == i:
                out.append(t)
                break
    return out


def spec(r):
    """(ok multiset, err multiset): one result per observation pair for which the metric yields a value, over all
    stored tracks compatible with the candidate (ready ones only if requested), never a track with itself;
    missing feature classes on the error stream."""
    ok, err = [], []
    for c in effective_cands(r):
        for o in r["store"]:
            if o["id"] == c["id"]:
                continue
            if not compatible(c, o):
                continue
            if r["ob"] and o["status"] != 1:
                continue
            l, rr = obs_of(c, r["cls"]), obs_of(o, r["cls"])
            if l is None or rr is None:
                err.append((c["id"], o["id"], r["cls"]))
                continue
            for a in l:
                for b in rr:
                    m = metric(r["cls"], a, b) if r["mv"] == 1 else metric2(r["cls"], a, b)
                    if m is None:
                        continue
                    if r["mv"] == 1 and c["grp"] == 2 and m[0] is None:     # this candidate's own postprocess_distances drops them
                        continue
                    ok.append((c["id"], o["id"], m[0], m[1]))
    return ok, err


def key_sort(xs):
    return sorted(xs, key=lambda t: tuple((-1 if v is None else v) for v in t))


def expected_after(r):
    return r["before"]


def placement_ok(r):
    for e in r["before"].split(","):
        if e:
            spec, k = e.rsplit("@", 1)
            if int(spec.split(":")[0]) % r["S"] != int(k):
                return False
    return True


def oracle(r):
    """list of (key, what) - empty when the run satisfies the property text"""
    bad = []
    if r["status"] != "ok":
        kind = r["status"].split(":")[0]
        bad.append(("C10:%s" % kind, "the query did not complete: %s" % r["status"]))
        return bad
    ok, err = spec(r)
    if any(a == b for a, b, _, _ in r["ok"]):
        bad.append(("C10:self-pair", "a result pairs a track with itself"))
    if key_sort(r["ok"]) != key_sort(ok):
        missing = Counter(ok) - Counter(r["ok"])
        extra = Counter(r["ok"]) - Counter(ok)
        what = "ok results differ from the specified multiset: missing %s extra %s" % (
            sorted(missing.elements(), key=str)[:6], sorted(extra.elements(), key=str)[:6])
        if r["kind"] == "owned":
            ids = set(t["id"] for t in effective_cands(r))
            if any(a in ids and b in ids for a, b, _, _ in missing.elements()):
                bad.append(("C10:owned-query-misses-pairs", "queried tracks are not compared with one another: " + what))
            else:
                bad.append(("C10:owned-query-wrong-multiset", what))
        else:
            bad.append(("C10:foreign-query-wrong-multiset", what))
    if key_sort(r["err"]) != key_sort(err) or r["other_err"]:
        what = "error stream differs: got %s (+%d other) expected %s" % (key_sort(r["err"]), r["other_err"], key_sort(err))
        missing = Counter(err) - Counter(r["err"])
        ids = set(t["id"] for t in effective_cands(r)) if r["kind"] == "owned" else set()
        if any(a in ids and b in ids for a, b, _ in missing.elements()):
            bad.append(("C10:owned-query-misses-pairs", "queried tracks are not compared with one another: " + what))
        else:
            bad.append(("C10:error-stream", what))
    if r["after"] != r["before"] or len([e for e in r["before"].split(",") if e]) != len(r["store"]) or not placement_ok(r):
        bad.append(("C10:store-changed", "the store is not unchanged after the query: %s, before the query %s" % (r["after"], r["before"])))
    return bad


# ---------------------------------------------------------------------------------------------------------
# sequences of queries on one store

def parse_items_ok(x):
    out = []
    for e in x.split(","):
        if e:
            a, b, am, fd = e.split(":")
            out.append((int(a), int(b), None if am == "n" else int(am), None if fd == "n" else int(fd)))
    return out


def parse_items_err(x):
    out = []
    for e in x.split(","):
        if e:
            a, b, c = e.split(":")
            out.append((int(a), int(b), int(c)))
    return out


def parse_seq(line):
    d = {}
    for tok in line.split()[1:]:
        k, v = tok.split("=", 1)
        d[k] = v
    store = dec_tracks(d["store"])
    queries = []
    for q in d["q"].split(";"):
        if not q:
            continue
        f = q.split("~")
        queries.append({"kind": "owned" if f[0] == "o" else "foreign",
                        "cands": dec_tracks(f[1]) if f[0] == "f" else [],
                        "ids": [int(x) for x in f[1].split(",") if x] if f[0] == "o" else [],
                        "cls": int(f[2]), "ob": f[3] == "1", "policy": f[4],
                        "store": store, "mv": int(d["mv"]), "S": int(d["S"])})
    results = []
    for r in d.get("res", "").split(";"):
        if r == "-" or not r:
            results.append(None)
        else:
            f = dict(x.split("=", 1) for x in r.split("~"))
            results.append({"ok": parse_items_ok(f["ok"]), "err": parse_items_err(f["err"]), "other": int(f["other"])})
    return {"raw": line, "mv": int(d["mv"]), "S": int(d["S"]), "store": store, "queries": queries, "results": results,
            "status": d["status"], "text": "mv=%s S=%s store=%s q=%s" % (d["mv"], d["S"], d["store"], d["q"])}


def seq_oracle(sq):
    """every handle that was read yields exactly what THIS query specifies (a partially read error stream: a
    sub-multiset of the right size) - nothing from another query, nothing missing"""
    if sq["status"] != "ok":
        return [("C10:" + sq["status"], "a sequence of queries on one store did not complete: " + sq["status"])]
    if len(sq["results"]) != len(sq["queries"]):
        return [("C10:query-sequence", "%d queries, %d results" % (len(sq["queries"]), len(sq["results"])))]
    bad = []
    for i, (q, res) in enumerate(zip(sq["queries"], sq["results"])):
        if q["policy"] == "drop":
            continue
        if res is None:
            bad.append(("C10:query-sequence", "query %d (%s) has no result" % (i, q["policy"])))
            continue
        ok, err = spec(q)
        if key_sort(res["ok"]) != key_sort(ok):
            bad.append(("C10:query-sequence", "query %d of the sequence (%s, class %d, %s): ok results differ from what this query specifies: missing %s extra %s"
                        % (i, q["kind"], q["cls"], q["policy"], sorted((Counter(ok) - Counter(res["ok"])).elements(), key=str)[:5],
                           sorted((Counter(res["ok"]) - Counter(ok)).elements(), key=str)[:5])))
        if q["policy"].startswith("part"):
            k = int(q["policy"][4:] or 1)
            extra = Counter(res["err"]) - Counter(err)
            if extra or len(res["err"]) != min(k, len(err)) or res["other"]:
                bad.append(("C10:query-sequence-error-stream", "query %d (%s): the %d error items read are %s, this query's errors are %s"
                            % (i, q["policy"], k, key_sort(res["err"]), key_sort(err))))
        elif key_sort(res["err"]) != key_sort(err) or res["other"]:
            bad.append(("C10:query-sequence-error-stream",
                        "query %d of the sequence (%s, class %d, handles %s): the error stream is %s (+%d other), this query's errors are %s; "
                        "the other queries of the sequence: %s"
                        % (i, q["kind"], q["cls"], q["policy"], key_sort(res["err"]), res["other"], key_sort(err),
                           ["q%d %s class %d" % (j, x["policy"], x["cls"]) for j, x in enumerate(sq["queries"]) if j != i])))
    return bad


# ---------------------------------------------------------------------------------------------------------
# model side

def coq_track(t):
    obs = vlib.coq_list(["(%d%%N, %s)" % (c, vlib.coq_list(["%d%%N" % v for v in vs])) for c, vs in t["obs"] if vs])
    return "DistInst.mkT %d%%N %d%%N %d%%N %s" % (t["id"], t["grp"], t["status"], obs)


def model_labels(r):
    """the forced schedule as a DistProtoFine label sequence (plus the caller's reads). X<k> (a whole command) is the
    ok half immediately followed by the err half; O<k> / F<k> are the halves on their own."""
    ncmd = r["S"] * len(effective_cands(r))
    labels = ["FCopy"] if r["kind"] == "owned" else []
    sent = {"ok": 0, "err": 0}
    got = {"ok": 0, "err": 0}
    returned = False

    def eager():
        out = ["FRecvOk"] * (sent["ok"] - got["ok"]) + ["FRecvErr"] * (sent["err"] - got["err"])
        got["ok"], got["err"] = sent["ok"], sent["err"]
        return out

    for tok in r["sched"]:
        if tok == "R":
            returned = True
            if r["recv"] == 1:
                labels += eager()
        elif tok[0] == "E":
            labels.append("FEnq %s%%nat" % tok[1:])
        else:
            if tok[0] in "XO":
                labels.append("FExecOk %s%%nat" % tok[1:])
                sent["ok"] += 1
            if tok[0] in "XF":
                labels.append("FExecErr %s%%nat" % tok[1:])
                sent["err"] += 1
            if returned and r["recv"] == 1:
                labels += eager()
    labels += ["FRecvOk"] * (ncmd - got["ok"]) + ["FRecvErr"] * (ncmd - got["err"])
    return labels


def coq_case(r):
    shards = [[] for _ in range(r["S"])]
    for t in r["store"]:
        shards[t["id"] % r["S"]].append(t)
    sh = vlib.coq_list([vlib.coq_list(["(%s)" % coq_track(t) for t in s]) for s in shards])
    lab = vlib.coq_list(model_labels(r))
    ob = vlib.coq_bool(r["ob"])
    if r["kind"] == "foreign":
        cands = vlib.coq_list(["(%s)" % coq_track(t) for t in r["cands"]])
        return "%s.run_foreign_fine %s %s %d%%N %s %s" % ("DistInstFine" if r["mv"] == 1 else "DistInstFine2", sh, cands, r["cls"], ob, lab)
    ids = vlib.coq_list(["%d%%N" % i for i in r["ids"]])
    return "%s.run_owned_fine %s %s %d%%N %s %s" % ("DistInstFine" if r["mv"] == 1 else "DistInstFine2", sh, ids, r["cls"], ob, lab)


def opt(v):
    return None if v is None else v[1]


def model_value(s):
    """-> None (a label was not enabled) or (final, ok chunks, err chunks) in python form"""
    v = vlib.parse_coq_value(s)
    if v is None:
        return None
    _, (final, okc, errc) = v
    ok = [[(a, b, opt(am), opt(fd)) for (a, b, (am, fd)) in ch] for ch in okc]
    err = [[(a, b, c) for (a, b, c) in ch] for ch in errc]
    return final, ok, err


def compare_with_model(r, mv):
    """chunk by chunk, in arrival order; returns None or a description of the difference"""
    if mv is None:
        return "the forced schedule is not a run of DistProtoFine (some label not enabled)"
    final, okc, errc = mv
    if not final:
        return "DistProtoFine is not in a final state after the recorded trace"
    for name, impl, chunks in (("ok", r["ok"], okc), ("err", r["err"], errc)):
        pos = 0
        for i, ch in enumerate(chunks):
            part = impl[pos:pos + len(ch)]
            pos += len(ch)
            if key_sort(part) != key_sort(ch):
                return "%s chunk %d (arrival order) differs: implementation %s model %s" % (name, i, part, ch)
        if pos != len(impl):
            return "%s stream has %d results, model %d" % (name, len(impl), pos)
    return None


def check_trace(r):
    """the recorded hook events must be exactly the prescribed interleaving"""
    if r["mode"] != "gated" or r["status"] != "ok":
        return None
    ev = [(e[0], int(e[1:].split("@")[0]), int(e.split("@")[1])) for e in r["log"]]
    S = r["S"]
    ncand = len(effective_cands(r))
    qs = [e for e in ev if e[0] == "q"]
    if len(qs) != S * ncand:
        return "expected %d enqueue events, saw %d" % (S * ncand, len(qs))
    caller = set(e[2] for e in ev if e[0] in "qc")
    if len(caller) > 1:
        return "enqueue/copy events on several threads"
    if r["kind"] == "owned":
        cs = [i for i, e in enumerate(ev) if e[0] == "c"]
        firstq = min([i for i, e in enumerate(ev) if e[0] == "q"], default=len(ev))
        if len(cs) != 1 or cs[0] > firstq:
            return "owned query: expected exactly one copy event before the first enqueue"
    threads = {}
    for kind, k, th in ev:
        if kind in "bgmne":
            if threads.setdefault(k, th) != th:
                return "commands of shard %d ran on two threads" % k
    if len(set(threads.values())) != len(threads) or (caller & set(threads.values())):
        return "worker threads are not distinct"
    for k in range(S):
        seq = "".join(e[0] for e in ev if e[0] in "bgmne" and e[1] == k)
        if seq != "bgmne" * ncand:
            return "shard %d: event sequence %s is not (begin gate ok-sent gate end) x %d" % (k, seq, ncand)
    # global order: the halves of the commands were executed in the prescribed order, each after exactly the prescribed
    # number of enqueues (g = ok half released, n = err half released)
    want = []
    nq = 0
    for tok in r["sched"]:
        if tok[0] == "E":
            nq += 1
        elif tok[0] == "X":
            want += [("g", int(tok[1:]), nq), ("n", int(tok[1:]), nq)]
        elif tok[0] == "O":
            want.append(("g", int(tok[1:]), nq))
        elif tok[0] == "F":
            want.append(("n", int(tok[1:]), nq))
    got = []
    nq = 0
    for kind, k, th in ev:
        if kind == "q":
            nq += 1
        elif kind in "gn":
            got.append((kind, k, nq))
    if got != want:
        return "executed (half, shard, enqueues so far) %s, prescribed %s" % (got, want)
    return None


# ---------------------------------------------------------------------------------------------------------
# shrinking / replay

def run_text(text):
    path = os.path.join(vlib.ALT or vlib.CACHE, "c10_replay_%d.txt" % os.getpid())
    with open(path, "w") as fh:
        fh.write(text + "\n")
    rc, out, err = vlib.harness_run("sched", ["c10replay", "--file", path], timeout=120)
    os.remove(path)
    lines = [l for l in out.split("\n") if l.startswith("run ")]
    return parse_run(lines[0]) if lines else None


def shrink(r, keys):
    """drop stored tracks / observations while the same kind of failure persists (schedule unchanged)"""
    def fails(rr):
        x = run_text(case_text(rr))
        return x is not None and any(k in keys for k, _ in oracle(x))
    cur = r
    changed = True
    budget = 40
    while changed and budget > 0:
        changed = False
        for i in range(len(cur["store"])):
            if cur["kind"] == "owned" and cur["store"][i]["id"] in cur["ids"]:
                continue
            cand = dict(cur)
            cand["store"] = cur["store"][:i] + cur["store"][i + 1:]
            budget -= 1
            if fails(cand):
                cur = cand
                changed = True
                break
            if budget <= 0:
                break
    return cur


# ---------------------------------------------------------------------------------------------------------

def run(chk):
    props = os.path.join(vlib.COQ, "theories", "Props", "C10.v")
    vlib.proof_stage(chk, props)
    if chk.tier == "thorough":
        vlib.coqchk_stage(chk, "Similari.Props.C10")

    ensure_cargo_cfg()
    ok, out = vlib.harness_build(["sched"])
    if not ok:
        chk.broken.append("harness build failed:\n" + out[-2000:])
        chk.violation("harness-build", "the correspondence harness does not build against the repository", {"log": out[-4000:]}, found_input=False)
        chk.coverage.update({"evaluations": 0})
        return
    n = 12 if chk.tier == "quick" else 16
    rc, out, err = vlib.harness_run("sched", ["c10", "--seed", chk.seed, "--n", n, "--tier", chk.tier], timeout=900)
    runs = [parse_run(l) for l in out.split("\n") if l.startswith("run ")]
    seqs = [parse_seq(l) for l in out.split("\n") if l.startswith("seq ")]
    chk.log("implementation: %d forced/free runs (harness rc=%d)" % (len(runs), rc))
    if rc not in (0, 3) or not runs:
        chk.broken.append("harness sched c10 failed rc=%d: %s" % (rc, err[-1500:]))

    # model
    gated = [i for i, r in enumerate(runs) if r["mode"] == "gated"]
    model = {}
    model_vo = os.path.join(vlib.COQ, "theories", "Model", "DistProto.vo")
    if os.path.exists(model_vo) and gated:
        try:
            vals = vlib.coq_eval(PREAMBLE, [coq_case(runs[i]) for i in gated], shard_size=100, tag="c10")
            for i, v in zip(gated, vals):
                model[i] = model_value(v)
        except (RuntimeError, AssertionError, ValueError) as e:
            chk.broken.append("model evaluation failed: %s" % str(e)[-1500:])
            model = None
    else:
        model = None
        chk.broken.append("model not built; correspondence not evaluated")

    hist = Counter()
    nontrivial = set()
    oracle_fail = []
    model_diff = []
    trace_diff = []
    for i, r in enumerate(runs):
        hist["%s/%s" % (r["kind"], r["mode"])] += 1
        hist["metric_variant=%d" % r["mv"]] += 1
        if any(am is None and fd is None for _, _, am, fd in r["ok"]):
            hist["with_(None,None)_results"] += 1
        hist["shards=%d" % r["S"]] += 1
        hist["cands=%d" % len(effective_cands(r))] += 1
        hist["only_baked=%d" % r["ob"]] += 1
        hist["recv_mode=%d" % r["recv"]] += 1
        if r["err"]:
            hist["with_class_errors"] += 1
        if any(not vs for t in r["store"] + r["cands"] for _, vs in t["obs"]):
            hist["with_attribute_only_updates"] += 1
        nonempty = len(set(t["id"] % r["S"] for t in r["store"]))
        default = [t for t in r["sched"] if t[0] == "E"] + ["R"] + ["X%d" % k for _ in range(len(effective_cands(r))) for k in range(r["S"])]
        if any(t[0] in "OF" for t in r["sched"]):
            hist["fine_grained_schedule"] += 1
        if nonempty >= 2 and r["mode"] == "gated" and r["sched"] != default:
            nontrivial.add(case_text(r))
        bad = oracle(r)
        if bad:
            oracle_fail.append((i, bad))
        if model is not None and i in model and r["status"] == "ok":
            d = compare_with_model(r, model[i])
            if d:
                model_diff.append((i, d))
        t = check_trace(r)
        if t:
            trace_diff.append((i, t))
    chk.coverage.update({
        "evaluations": len(runs),
        "distinct_nontrivial": len(nontrivial),
        "rule": "a run = (store content, candidate batch or owned ids, class, only_baked, shard count, forced interleaving of caller "
                "enqueues E<k> / worker commands X<k> (or their halves: ok send O<k>, err send F<k>, the worker parked in between) / "
                "return point R, receive mode). Exhaustive part: every command-level interleaving for <= 2 shards and <= 2 candidates "
                "(2/5/8/169 schedules) and every send-level interleaving for shards x candidates <= 2 (3/12/45), 60 (thorough 400) "
                "random send-level ones for 2x2 (of 9564); randomised part: 1-4 shards, <= 4 candidates; free part: "
                "ungated owned queries over 12 of 16-24 mutually comparable tracks. non-trivial = >= 2 non-empty shards and the "
                "forced schedule is not the default (all enqueues, return, then workers in program order); distinct by (case, schedule)",
        "samples": [case_text(r)[:400] for r in runs[:2] + runs[-1:]],
        "input_distribution": dict(hist),
        "model_vs_impl_disagreements": len(model_diff),
        "trace_validation_failures": len(trace_diff),
        "spec_oracle_failures": len(oracle_fail),
        "model_runs_validated": 0 if model is None else len(model),
    })

    seq_fail = [(sq, b) for sq in seqs for b in [seq_oracle(sq)] if b]
    pol = Counter(q["policy"].rstrip("0123456789") for sq in seqs for q in sq["queries"])
    chk.coverage.update({"query_sequences": len(seqs), "query_sequence_failures": len(seq_fail),
                         "query_sequence_policies": dict(pol),
                         "query_sequences_with_errors_in_2_queries": sum(1 for sq in seqs if sum(1 for r in sq["results"] if r and r["err"]) >= 2)})
    chk.coverage["evaluations"] = len(runs) + len(seqs)
    if seq_fail:
        sq, b = min(seq_fail, key=lambda x: len(x[0]["queries"]))
        key, what = b[0]
        chk.violation(key, what, {
            "input": sq["text"],
            "results": [None if r is None else {"ok": key_sort(r["ok"]), "err": key_sort(r["err"])} for r in sq["results"]],
            "expected": [{"ok": key_sort(spec(q)[0]), "err": key_sort(spec(q)[1])} for q in sq["queries"]],
            "replay_cmd": "printf '%s\\n' '" + sq["text"] + "' > /tmp/c10.txt && " + vlib.harness_bin("sched") + " c10replay --file /tmp/c10.txt",
            "failing_sequences": len(seq_fail), "broken": chk.broken})
    if oracle_fail:
        seen = set()
        for i, bad in oracle_fail:
            key, what = bad[0]
            if key in seen:
                continue
            seen.add(key)
            r = runs[i]
            small = r
            if not key.startswith("C10:h") and not key.startswith("C10:stuck") and not key.startswith("C10:panic"):
                try:
                    small = shrink(r, {key})
                except Exception:                                   # shrinking is best effort
                    small = r
            again = run_text(case_text(small)) or small
            okx, errx = spec(small)
            chk.violation(key, what, {
                "input": case_text(small),
                "implementation": {"ok": key_sort(again["ok"]), "err": key_sort(again["err"]), "status": again["status"], "after": again["after"]},
                "expected": {"ok": key_sort(okx), "err": key_sort(errx), "after": expected_after(small)},
                "schedule": small["sched"],
                "replay_cmd": "printf '%s\\n' '" + case_text(small) + "' > /tmp/c10.txt && " + vlib.harness_bin("sched") + " c10replay --file /tmp/c10.txt",
                "failing_runs": len(oracle_fail),
                "broken": chk.broken})
    elif model_diff or trace_diff or chk.broken:
        what = "proof or correspondence no longer checks: " + "; ".join(b.split("\n")[0][:200] for b in chk.broken)
        rep = {"broken": chk.broken}
        if model_diff:
            i, d = model_diff[0]
            rep["correspondence_case"] = case_text(runs[i])
            rep["difference"] = d
            what += " model/implementation differ on %d runs" % len(model_diff)
        if trace_diff:
            i, d = trace_diff[0]
            rep["trace_case"] = case_text(runs[i])
            rep["trace_difference"] = d
            rep["trace_log"] = runs[i]["log"]
            what += " recorded trace is not the prescribed interleaving on %d runs" % len(trace_diff)
        chk.violation("C10:tie-broken", what, rep, found_input=False)


def replay(chk, path):
    rep = json.load(open(path))
    ensure_cargo_cfg()
    ok, out = vlib.harness_build(["sched"])
    text = rep.get("input") or rep.get("correspondence_case") or rep.get("trace_case")
    if " q=" in " " + text:
        path2 = os.path.join(vlib.ALT or vlib.CACHE, "c10_replay_%d.txt" % os.getpid())
        with open(path2, "w") as fh:
            fh.write(text + "\n")
        rc, out, err = vlib.harness_run("sched", ["c10replay", "--file", path2], timeout=300)
        os.remove(path2)
        lines = [l for l in out.split("\n") if l.startswith("seq ")]
        bad = seq_oracle(parse_seq(lines[0])) if lines else [("C10:no-output", "the harness produced no result")]
        for k, w in bad:
            print("ORACLE:", k, w)
        print("REPRODUCED" if bad else "not reproduced")
        return 1 if bad else 0
    r = run_text(text)
    if r is None:
        print("harness produced no run")
        return 1
    print(r["raw"])
    bad = oracle(r)
    for k, w in bad:
        print("ORACLE:", k, w)
    print("REPRODUCED" if bad else "not reproduced")
    return 1 if bad else 0
