"""C16 - feature packing and feature distances: proof (Props/C16.v) + correspondence with the real
`Feature::from_vec` / `Vec::<f32>::from_vec` / `distance::{euclidean, cosine}` (harness bin `feature`).

What is compared
* ALL public conversion entry points of src/track/utils.rs (the three `FromVec` impls: &Vec<f32> -> Feature, owned Vec<f32> ->
  Feature, &Feature -> Vec<f32>) go through the packing correspondence and the round-trip oracle, by-value and by-reference
  packing are cross-checked bit for bit, and the distances are evaluated on features built through each of them;
* packing: the lanes of every f32x8 block and the unpacked vector, EXACTLY (bit patterns) against Model/Feature.v
  instantiated at bit patterns (A := N, zero := 0 = +0.0); every length 0..=130, values incl. NaN/inf/-0.0/subnormals;
* distances: the model over exact rationals (Qops) gives sqdist, dot and the two squared norms of the packed forms;
  they must EQUAL (exactly) the textbook sums computed here independently from the original vectors (zero-extended
  to the common packed prefix), and the implementation's f32 results must agree with them within TOL:
      euclidean:  |e^2 - sqdist| <= TOL * sqdist                     (squares compared; no sqrt on the exact side)
      cosine:     |c - dot / sqrt(n1*n2)| <= TOL  for non-zero vectors (decided sqrt-free with exact rationals)
* metric-law oracles on the implementation's values, each with the same tolerance: symmetry, zero on identical vectors,
  triangle inequality (generic, collinear = equality case, near-identical triples), cosine in [-1,1], 1 / -1 on
  parallel / opposite vectors, invariance under positive scaling.
TOL = 1e-4 (f32 SIMD sums of <= 136 terms against exact arithmetic; f32 has 2^-24 ~ 6e-8 relative precision).
An "extreme" stream uses magnitudes 2^+-(31..45): every square and both squared norms are normal f32 numbers but the
product of the two squared norms is not.  `cosine` used to form that product before its sqrt and returned 0 / inf there
(found by this check, repaired by /repo commit 1c96f65, recorded `fixed` under the key KEY_RANGE); the stream stays so that
the defect is caught if it returns, and failures of exactly that input class carry that key.
A zero vector has no cosine (0/0): such cases are counted and skipped, the property speaks of non-zero vectors only.
For the empty vector `from_vec` yields one all-zero block: the oracle accepts 0 or 8 zeros there (DESIGN.md section 6:
not a defect; the theorem states the exact length function), for every other length exactly the next multiple of 8.
"""
import json
import os
import re
from collections import Counter
from fractions import Fraction

import vlib
from vlib import q_lit, n_lit, coq_list, f32_bits_to_fraction

TOL = Fraction(1, 10000)

PREAMBLE = """From Coq Require Import List NArith QArith.
From Similari Require Import Model.Feature.
Import ListNotations.
Open Scope Q_scope.
(* results are shown as (negative?, |numerator|, denominator) in N: Coq would print dyadic rationals in hexadecimal *)
Definition qshow (q : Q) := (Z.ltb (Qnum q) 0, Z.abs_N (Qnum q), Npos (Qden q)).
Definition show_dist (u v : list Q) := let '(a, b, c, d) := run_dist u v in [qshow a; qshow b; qshow c; qshow d].
"""


def finite(b):
    return (b >> 23) & 0xFF != 0xFF


def pv(s):
    return [int(x) for x in s.split(",") if x]


def parse_line(line):
    toks = line.split()
    rec = {"what": toks[0], "k": int(toks[1]), "raw": line}
    for t in toks[2:]:
        k, v = t.split("=", 1)
        rec[k] = v
    for key in ("in", "out", "outv", "u", "v", "a", "b", "c"):
        if key in rec and rec[key] != "P":
            rec[key] = pv(rec[key])
    for key in ("blocks", "blocksv"):
        if key in rec and rec[key] != "P":
            rec[key] = [pv(b) for b in rec[key].split("|") if b]
    for key in ("eu", "eur", "cos", "cosr", "euu", "cosuu", "euv", "cosv", "eum", "cosm", "dab", "dbc", "dac", "coss", "cosp", "ka", "kb", "kf"):
        if key in rec:
            rec[key] = "P" if rec[key] == "P" else int(rec[key])
    return rec


def replay_text(r):
    def j(v):
        return ",".join(str(x) for x in v)
    w = r["what"]
    if w == "pack":
        return "pack in=%s" % j(r["in"])
    if w == "dist":
        return "dist u=%s v=%s" % (j(r["u"]), j(r["v"]))
    if w == "tri":
        return "tri a=%s b=%s c=%s" % (j(r["a"]), j(r["b"]), j(r["c"]))
    if w == "scale":
        return "scale ka=%d kb=%d u=%s v=%s" % (r["ka"], r["kb"], j(r["u"]), j(r["v"]))
    return "par kf=%d u=%s" % (r["kf"], j(r["u"]))


def fl(v):
    return [vlib.f32_bits_to_float(x) for x in v]


# ------------------------------------------------------------------------------------------------------------
# independent textbook reading

def nblocks(n):
    return 1 if n == 0 else (n + 7) // 8


def textbook(u_bits, v_bits):
    """(sqdist, dot, norm2 u, norm2 v) on the common packed prefix of the zero-extended vectors"""
    u = [f32_bits_to_fraction(x) for x in u_bits]
    v = [f32_bits_to_fraction(x) for x in v_bits]
    m = 8 * min(nblocks(len(u)), nblocks(len(v)))
    ue = (u + [Fraction(0)] * m)[:m]
    ve = (v + [Fraction(0)] * m)[:m]
    s = sum(((x - y) * (x - y) for x, y in zip(ue, ve)), Fraction(0))
    d = sum((x * y for x, y in zip(ue, ve)), Fraction(0))
    n1 = sum((x * x for x in ue), Fraction(0))
    n2 = sum((y * y for y in ve), Fraction(0))
    return s, d, n1, n2


def le_mul_sqrt(a, b, n):
    """a <= b * sqrt(n), exactly (n >= 0)"""
    if b >= 0:
        return a <= 0 or a * a <= b * b * n
    return a <= 0 and a * a >= b * b * n


def cos_close(c, d, n, tol):
    """|c - d / sqrt(n)| <= tol, exactly (n > 0)"""
    return le_mul_sqrt(d, c + tol, n) and le_mul_sqrt(-d, -(c - tol), n)


F32_MIN_NORMAL = Fraction(1, 2 ** 126)
F32_LIMIT = Fraction(2 ** 128)
KEY_RANGE = "C16:cosine:norm-product-out-of-f32-range"


def norm_product_out_of_range(u_bits, v_bits, ku=Fraction(1), kv=Fraction(1)):
    """both squared norms (of ku*u and kv*v on the common packed prefix) are normal f32 numbers but their product is not:
    the class of inputs on which `cosine` loses the result because it multiplies the two squared norms before the sqrt"""
    _, _, n1, n2 = textbook(u_bits, v_bits)
    n1, n2 = n1 * ku * ku, n2 * kv * kv
    def ok(x):
        return F32_MIN_NORMAL <= x < F32_LIMIT
    return n1 > 0 and n2 > 0 and ok(n1) and ok(n2) and not ok(n1 * n2)


def rekey(res, out_of_range):
    """cosine findings on inputs of the range class get the class key (so that it can be told apart from any other failure)"""
    if not out_of_range:
        return res
    return [((KEY_RANGE, m + " [the product of the two squared norms leaves the f32 range]") if k.startswith("C16:cosine") else (k, m)) for k, m in res]


def show(b):
    return "panic" if b == "P" else repr(vlib.f32_bits_to_float(b))


def val(b):
    """exact value of an implementation result; None for panic / NaN / inf"""
    if b == "P" or not finite(b):
        return None
    return f32_bits_to_fraction(b)


# ------------------------------------------------------------------------------------------------------------
# property oracles (implementation output only)

ENTRY = {"out": "Feature::from_vec(&vec) then Vec::from_vec(&feature)", "outv": "Feature::from_vec(vec) [owned Vec] then Vec::from_vec(&feature)"}


def oracle_pack(r):
    """round trip through EVERY conversion entry point; by-value and by-reference packing must agree bit for bit"""
    n = len(r["in"])
    res = []
    for key in ("out", "outv"):
        if key not in r:
            continue
        out = r[key]
        if out == "P":
            res.append(("C16:panic", "%s panicked on a vector of length %d" % (ENTRY[key], n)))
            continue
        exp_pad = [(8 - n % 8) % 8] if n > 0 else [0, 8]
        if out[:n] != r["in"]:
            res.append(("C16:roundtrip", "length %d, %s: the first %d unpacked values differ from the input" % (n, ENTRY[key], n)))
        elif len(out) - n not in exp_pad or len(out) % 8 != 0:
            res.append(("C16:roundtrip", "length %d, %s: unpacked length %d is not the input padded to the next multiple of eight" % (n, ENTRY[key], len(out))))
        elif any(b not in (0, 0x80000000) for b in out[n:]):
            res.append(("C16:roundtrip", "length %d, %s: the padding is not zero" % (n, ENTRY[key])))
    if not res and "blocksv" in r and r["blocksv"] != r["blocks"]:
        res.append(("C16:entry-points-differ", "length %d: Feature::from_vec(vec) packs %d blocks, Feature::from_vec(&vec) packs %d: the two differ" % (
            n, len(r["blocksv"]), len(r["blocks"]))))
    return res


def oracle_dist(r):
    res = []
    for key in ("eu", "eur", "cos", "cosr", "euu", "cosuu", "euv", "cosv", "eum", "cosm"):
        if r.get(key) == "P":
            return [("C16:panic", "%s panicked on lengths (%d, %d)" % ("euclidean" if key.startswith("eu") else "cosine", len(r["u"]), len(r["v"])))]
    s, d, n1, n2 = textbook(r["u"], r["v"])
    _, _, nu, _ = textbook(r["u"], r["u"])
    lens = "lengths (%d, %d)" % (len(r["u"]), len(r["v"]))
    for key in ("eu", "eur", "euv", "eum"):
        if key not in r:
            continue
        e = val(r[key])
        if e is None or e < 0 or abs(e * e - s) > TOL * s:
            res.append(("C16:euclid-value", "%s: euclidean = %s but the textbook sqrt(sum (u_i - v_i)^2) = sqrt(%s)" % (
                lens, None if e is None else float(e), float(s))))
            break
    e1, e2 = val(r["eu"]), val(r["eur"])
    if e1 is not None and e2 is not None and abs(e1 - e2) > TOL * max(e1, e2):
        res.append(("C16:euclid-sym", "%s: euclidean(u,v) = %s but euclidean(v,u) = %s" % (lens, float(e1), float(e2))))
    euu = val(r["euu"])
    if euu is None or euu * euu > TOL * TOL * nu:
        res.append(("C16:euclid-refl", "length %d: euclidean(u,u) = %s, not zero" % (len(r["u"]), None if euu is None else float(euu))))
    if n1 * n2 > 0:
        for key in ("cos", "cosr", "cosv", "cosm"):
            if key not in r:
                continue
            c = val(r[key])
            if c is None or not cos_close(c, d, n1 * n2, TOL):
                res.append(("C16:cosine-value", "%s: cosine = %s but the textbook dot/(|u||v|) = %s" % (
                    lens, show(r[key]), float(d) / (float(n1) ** 0.5 * float(n2) ** 0.5))))
                break
        c1, c2 = val(r["cos"]), val(r["cosr"])
        if c1 is not None and c2 is not None:
            if abs(c1 - c2) > TOL:
                res.append(("C16:cosine-sym", "%s: cosine(u,v) = %s but cosine(v,u) = %s" % (lens, float(c1), float(c2))))
            if c1 > 1 + TOL or c1 < -1 - TOL:
                res.append(("C16:cosine-range", "%s: cosine = %s outside [-1,1]" % (lens, float(c1))))
    res = rekey(res, norm_product_out_of_range(r["u"], r["v"]))
    if nu > 0:
        c = val(r["cosuu"])
        if c is None or abs(c - 1) > TOL:
            res += rekey([("C16:cosine-parallel", "length %d: cosine(u,u) = %s, not 1" % (len(r["u"]), show(r["cosuu"])))],
                         norm_product_out_of_range(r["u"], r["u"]))
    return res


def oracle_tri(r):
    ds = [val(r[k]) for k in ("dab", "dbc", "dac")]
    if any(r[k] == "P" for k in ("dab", "dbc", "dac")):
        return [("C16:panic", "euclidean panicked")]
    if any(x is None for x in ds):
        return [("C16:triangle", "a distance is not a finite number: %s" % [r[k] for k in ("dab", "dbc", "dac")])]
    dab, dbc, dac = ds
    if dac > (dab + dbc) * (1 + TOL):
        return [("C16:triangle", "d(a,c) = %s > d(a,b) + d(b,c) = %s + %s (length %d, %s)" % (
            float(dac), float(dab), float(dbc), len(r["a"]), r.get("kind")))]
    return []


def nonzero(bits):
    return any(f32_bits_to_fraction(b) != 0 for b in bits)


def oracle_scale(r):
    if r["cos"] == "P" or r["coss"] == "P":
        return [("C16:panic", "cosine panicked")]
    if not (nonzero(r["u"]) and nonzero(r["v"])):
        return []
    c, cs = val(r["cos"]), val(r["coss"])
    if c is None or cs is None or abs(c - cs) > TOL:
        oor = norm_product_out_of_range(r["u"], r["v"]) or norm_product_out_of_range(
            r["u"], r["v"], f32_bits_to_fraction(r["ka"]), f32_bits_to_fraction(r["kb"]))
        return rekey([("C16:cosine-scale", "cosine(u,v) = %s but cosine(%s*u, %s*v) = %s" % (
            show(r["cos"]), vlib.f32_bits_to_float(r["ka"]), vlib.f32_bits_to_float(r["kb"]), show(r["coss"])))], oor)
    return []


def oracle_par(r):
    if r["cosp"] == "P":
        return [("C16:panic", "cosine panicked")]
    if not nonzero(r["u"]):
        return []
    kf = f32_bits_to_fraction(r["kf"])
    c = val(r["cosp"])
    want = 1 if kf > 0 else -1
    if c is None or abs(c - want) > TOL:
        return rekey([("C16:cosine-parallel" if want == 1 else "C16:cosine-opposite",
                       "cosine(u, %s*u) = %s, expected %d (length %d)" % (float(kf), show(r["cosp"]), want, len(r["u"])))],
                     norm_product_out_of_range(r["u"], r["u"], Fraction(1), kf))
    return []


ORACLES = {"pack": oracle_pack, "dist": oracle_dist, "tri": oracle_tri, "scale": oracle_scale, "par": oracle_par}


def oracle(r):
    return ORACLES[r["what"]](r)


# ------------------------------------------------------------------------------------------------------------

def run_impl_on(text):
    path = os.path.join(vlib.ALT or vlib.CACHE, "c16_replay_%d.txt" % os.getpid())
    with open(path, "w") as fh:
        fh.write(text + "\n")
    rc, out, err = vlib.harness_run("feature", ["replay", "--file", path])
    os.remove(path)
    lines = [l for l in out.split("\n") if l.split(" ")[0] in ORACLES]
    return parse_line(lines[0]) if lines else None


def shrink(r, key):
    """drop trailing / leading elements of all vectors of the record while the failure class persists"""
    def fails(rr):
        x = run_impl_on(replay_text(rr))
        return x is not None and any(k == key for k, _ in oracle(x))
    vkeys = [k for k in ("in", "u", "v", "a", "b", "c") if k in r]
    cur = dict(r)
    for cut in (64, 32, 16, 8, 4, 2, 1):
        progressed = True
        while progressed:
            progressed = False
            for side in ("tail", "head"):
                cand = dict(cur)
                for k in vkeys:
                    cand[k] = cur[k][:-cut] if side == "tail" else cur[k][cut:]
                if any(len(cur[k]) >= cut for k in vkeys) and fails(cand):
                    cur = cand
                    progressed = True
    return run_impl_on(replay_text(cur)) or r


def size(r):
    return sum(len(r[k]) for k in ("in", "u", "v", "a", "b", "c") if k in r)


def fix_audit_header(chk):
    """vlib.print_assumptions reads the header line `Axioms:` of Coq's output as an axiom called 'Axioms' (reported to the
    coordinator).  Strip exactly that spurious name; real non-allow-listed axioms stay reported.  No-op once vlib is fixed."""
    allow = {x.split(".")[-1] for x in vlib.AXIOM_ALLOW}
    fixed = 0
    for t in chk.coverage.get("theorems", []):
        ax = t.get("axioms")
        if ax and "Axioms" in ax:
            t["axioms"] = [a for a in ax if a != "Axioms"]
            msg = "audit: theorem %s depends on non-allow-listed axioms %s" % (t["name"], [a for a in ax if a.split(".")[-1] not in allow])
            if msg in chk.broken and all(a.split(".")[-1] in allow for a in t["axioms"]):
                chk.broken.remove(msg)
                fixed += 1
    if fixed and not any(b.startswith("audit: forbidden") for b in chk.broken):
        chk.coverage["discharged"] = chk.coverage.get("discharged", 0) + fixed


def run(chk):
    props = os.path.join(vlib.COQ, "theories", "Props", "C16.v")
    vlib.proof_stage(chk, props)
    fix_audit_header(chk)
    if chk.tier == "thorough":
        vlib.coqchk_stage(chk, "Similari.Props.C16")

    # (the lane count is tied by the translator: Model/Feature.v takes LANES from gen/Consts.v FEATURE_LANES_SIZE and
    #  Props/C16.v `lanes_is_eight` stops compiling if the constant in src/track.rs is no longer 8)
    ok, out = vlib.harness_build(["feature"])
    if not ok:
        chk.broken.append("harness build failed:\n" + out[-2000:])
        chk.violation("harness-build", "the correspondence harness does not build against the repository", {"log": out[-4000:]}, found_input=False)
        chk.coverage.update({"evaluations": 0})
        return
    reps = 1 if chk.tier == "quick" else 12
    rc, out, err = vlib.harness_run("feature", ["gen", "--seed", chk.seed, "--n", reps])
    recs = [parse_line(l) for l in out.split("\n") if l.split(" ")[0] in ORACLES]
    chk.log("implementation produced %d records" % len(recs))
    if rc != 0 or not recs:
        chk.broken.append("harness run failed rc=%s: %s" % (rc, err[-1500:]))

    packs = [r for r in recs if r["what"] == "pack"]
    dists = [r for r in recs if r["what"] == "dist"]

    # ---- model --------------------------------------------------------------------------------------------
    pack_model = dist_model = None
    if os.path.exists(os.path.join(vlib.COQ, "theories", "Model", "Feature.vo")):
        try:
            exprs = ["run_pack %s" % coq_list([n_lit(b) for b in r["in"]]) for r in packs]
            exprs += ["show_dist %s %s" % (coq_list([q_lit(f32_bits_to_fraction(b)) for b in r["u"]]),
                                          coq_list([q_lit(f32_bits_to_fraction(b)) for b in r["v"]])) for r in dists]
            vals = vlib.coq_eval(PREAMBLE, exprs, shard_size=max(10, len(exprs) // 32 + 1), tag="c16")
            pack_model = [vlib.parse_coq_value(v) for v in vals[:len(packs)]]
            dist_model = [[(-1 if neg else 1) * Fraction(num, den) for (neg, num, den) in vlib.parse_coq_value(v)] for v in vals[len(packs):]]
        except RuntimeError as e:
            chk.broken.append("model evaluation failed: %s" % str(e)[-1500:])
    chk.log("model evaluated")

    hist = Counter()
    pack_dis = []
    dist_dis = []
    model_vs_textbook = []
    failures = []
    nontrivial = set()
    lengths_seen = set()
    skipped_zero = 0
    for i, r in enumerate(packs):
        n = len(r["in"])
        lengths_seen.add(n)
        hist["pack:%s" % r.get("style")] += 1
        hist["pack:len%%8=%d" % (n % 8)] += 1
        if n % 8 != 0:
            nontrivial.add(("pack", n, r["k"]))
        if pack_model is not None:
            mb, mo = pack_model[i]
            if any(r.get(kb, mb) != mb or r.get(ko, mo) != mo for kb, ko in (("blocks", "out"), ("blocksv", "outv"))):
                pack_dis.append(i)
    for i, r in enumerate(dists):
        lu, lv = len(r["u"]), len(r["v"])
        hist["dist:%s" % r.get("kind")] += 1
        if lu % 8 != 0 or lv % 8 != 0 or lu != lv:
            nontrivial.add(("dist", lu, lv, r["k"]))
        tb = textbook(r["u"], r["v"])
        if tb[2] * tb[3] == 0:
            skipped_zero += 1
        if dist_model is not None:
            ms, md, m1, m2 = dist_model[i]
            if (Fraction(ms), Fraction(md), Fraction(m1), Fraction(m2)) != tb:
                model_vs_textbook.append(i)
            # implementation against the MODEL's exact values (tolerance), same criteria as the oracle
            e = val(r["eu"])
            c = val(r["cos"])
            bad = e is None or e < 0 or abs(e * e - Fraction(ms)) > TOL * Fraction(ms)
            if norm_product_out_of_range(r["u"], r["v"]):
                hist["dist:cosine-range-class(not compared with the model)"] += 1
            elif Fraction(m1) * Fraction(m2) > 0:
                bad = bad or c is None or not cos_close(c, Fraction(md), Fraction(m1) * Fraction(m2), TOL)
            if bad:
                dist_dis.append(i)
    for r in recs:
        if r["what"] in ("tri", "scale", "par"):
            hist["%s:%s" % (r["what"], r.get("kind", "-"))] += 1
        for key, msg in oracle(r):
            failures.append((r, key, msg))
    missing_lengths = [n for n in range(131) if n not in lengths_seen]
    if missing_lengths:
        chk.broken.append("coverage: lengths %s were not exercised" % missing_lengths[:10])
    if model_vs_textbook:
        chk.broken.append("model: Qops distances differ from the textbook sums on %d cases (contradicts sqdist/dot_packed_eq_scalar)" % len(model_vs_textbook))
    chk.coverage.update({
        "evaluations": len(recs),
        "distinct_nontrivial": len(nontrivial),
        "rule": "packing: every length 0..=130 (all residues mod 8) x value styles (all-non-zero integers, finite over magnitudes 2^-12..2^12 "
                "with per-element spread, special bit patterns incl. NaN payloads/inf/-0.0/subnormals, zeros); distances: every length 0..=130 x "
                "{equal-length, random unequal length, same block count different length, near-identical}; 60*reps triangle triples (generic, "
                "collinear, near-identical), 60*reps scaling pairs and parallel/opposite pairs, 12*reps extreme-magnitude (2^+-31..45) distance / "
                "scaling / parallel records. non-trivial = a length that is not a multiple "
                "of 8, or unequal lengths; distinct by (record kind, lengths, record number)",
        "tolerance": "relative 1e-4 on squares for euclidean, absolute 1e-4 on cosine, relative 1e-4 for the triangle inequality",
        "samples": [r["raw"][:300] for r in (packs[5:6] + dists[7:8] + [x for x in recs if x["what"] == "tri"][:1])],
        "input_distribution": dict(sorted(hist.items())),
        "lengths_covered": "%d of 131" % len(lengths_seen),
        "pack_model_vs_impl_disagreements": len(pack_dis),
        "dist_model_vs_impl_out_of_tolerance": len(dist_dis),
        "model_vs_textbook_disagreements": len(model_vs_textbook),
        "cosine_skipped_zero_vector": skipped_zero,
        "property_oracle_failures": len(failures),
    })

    # ---- verdict -------------------------------------------------------------------------------------------
    unknown_failure = False
    if failures:
        by_key = {}
        for (r, key, msg) in failures:
            if key not in by_key or size(r) < size(by_key[key][0]):
                by_key[key] = (r, msg)
        for key, (r, msg) in sorted(by_key.items()):
            small = shrink(r, key)
            msgs = [m for k, m in oracle(small) if k == key] or [msg]
            dec = {k: fl(small[k]) for k in ("in", "out", "outv", "u", "v", "a", "b", "c") if k in small and small[k] != "P"}
            for k in ("eu", "eur", "cos", "cosr", "euu", "cosuu", "euv", "cosv", "eum", "cosm", "dab", "dbc", "dac", "coss", "cosp", "ka", "kb", "kf"):
                if k in small:
                    dec[k] = "panic" if small[k] == "P" else vlib.f32_bits_to_float(small[k])
            if chk.is_known(key) is None:
                unknown_failure = True
            chk.violation(key, msgs[0], {"input": replay_text(small), "decoded": dec,
                                         "all_oracle_findings_on_this_input": oracle(small),
                                         "replay_cmd": "./check C16 --replay <this file>", "broken": chk.broken})
    if (pack_dis or dist_dis or chk.broken) and not unknown_failure:
        what = "proof or correspondence no longer checks: " + "; ".join(b.split("\n")[0][:200] for b in chk.broken)
        rep = {"broken": chk.broken}
        if pack_dis:
            r = packs[pack_dis[0]]
            rep["input"] = replay_text(r)
            rep["implementation"] = {"blocks": r.get("blocks"), "out": r.get("out"), "blocksv": r.get("blocksv"), "outv": r.get("outv")}
            rep["model"] = {"blocks": pack_model[pack_dis[0]][0], "out": pack_model[pack_dis[0]][1]}
            what += " packing: model/implementation differ on %d cases" % len(pack_dis)
        elif dist_dis:
            r = dists[dist_dis[0]]
            rep["input"] = replay_text(r)
            rep["model(sqdist,dot,norm2u,norm2v)"] = [str(x) for x in dist_model[dist_dis[0]]]
            what += " distances: implementation out of tolerance against the model on %d cases" % len(dist_dis)
        chk.violation("C16:tie-broken", what, rep, found_input=False)


def replay(chk, path):
    rep = json.load(open(path))
    vlib.harness_build(["feature"])
    r = run_impl_on(rep["input"])
    if r is None:
        print("harness produced nothing")
        return 2
    print(r["raw"][:2000])
    res = oracle(r)
    for k, m in res:
        print("%s: %s" % (k, m))
    if "model" in rep and r["what"] == "pack":
        if any(rep["model"]["out"] != r.get(ko) or rep["model"]["blocks"] != r.get(kb) for kb, ko in (("blocks", "out"), ("blocksv", "outv"))):
            res.append(("C16:tie-broken", "differs from the model"))
            print("differs from the stored model result")
    print("REPRODUCED" if res else "not reproduced")
    return 1 if res else 0
