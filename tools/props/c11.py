"""C11 - atomic track updates under callback failures; merge history.

Proof: Props/C11.v (for ALL callbacks, hence all fault positions).
Correspondence: exhaustive fault enumeration on the REAL Track / TrackStore with the scripted callback algebra
(harness bin `trackstore`; the same algebra is Module Alg of Model/Store.v), exact diff of result, every getter
and the notification count against the model evaluated by vm_compute.
Property oracle: a direct reading of the property text on the implementation's outputs.

This module also holds the script / model / diff machinery shared with C09 (tools/props/c09.py imports it).
"""
import itertools
import json
import os
from collections import Counter

import vlib

PREAMBLE = """From Coq Require Import List NArith ZArith Bool.
From Similari Require Import Model.Track Model.Store.
Import ListNotations. Import Alg.
Open Scope N_scope.
"""

BIN = "trackstore"

# --------------------------------------------------------------------------------------------------
# scripts: python representation
#   spec = (cls, oa|None, f|None, upd|None)   upd = (add, fail)
#   ops: ("BA", id, [spec]) ("AD", id, spec) ("FE", [ids]) ("MO", dst, src, cls, rm, mh) ("ME"|"MN", dst, id, cls, mh, [spec])
#        ("LK", min_u, cls|None, hh|None) ("FU",) ("CL",) ("ST",) ("NT", id)
#        ("TN", r, id) ("TA", r, spec) ("TM", rd, rs, [cls], mh)
#   cls for MO/ME: None (caller passes None) or a list (Some(list), possibly empty)


def fmt_list(xs):
    return ",".join(str(x) for x in xs) if xs else "-"


def fmt_opt(x):
    return "n" if x is None else str(x)


def fmt_spec(s):
    cls, oa, f, upd = s
    u = "n" if upd is None else "%d%s" % (upd[0], "!" if upd[1] else "+")
    return "%d:%s:%s:%s" % (cls, fmt_opt(oa), fmt_opt(f), u)


def fmt_cls(c):
    return "N" if c is None else fmt_list(c)


def fmt_op(op):
    k = op[0]
    if k == "BA":
        return " ".join(["BA", str(op[1])] + [fmt_spec(s) for s in op[2]])
    if k == "AD":
        return "AD %d %s" % (op[1], fmt_spec(op[2]))
    if k == "FE":
        return "FE %s" % fmt_list(op[1])
    if k == "MO":
        return "MO %d %d %s %d %d" % (op[1], op[2], fmt_cls(op[3]), int(op[4]), int(op[5]))
    if k in ("ME", "MN"):
        return " ".join([k, str(op[1]), str(op[2]), fmt_cls(op[3]), str(int(op[4]))] + [fmt_spec(s) for s in op[5]])
    if k == "LK":
        return "LK %d %s %s" % (op[1], fmt_opt(op[2]), fmt_opt(op[3]))
    if k in ("FU", "CL", "ST"):
        return k
    if k == "NT":
        return "NT %d" % op[1]
    if k == "TN":
        return "TN %d %d" % (op[1], op[2])
    if k == "TA":
        return "TA %d %s" % (op[1], fmt_spec(op[2]))
    if k == "TM":
        return "TM %d %d %s %d" % (op[1], op[2], fmt_list(op[3]), int(op[4]))
    raise ValueError(op)


class Script:
    def __init__(self, kind, case, ops, shards=1, plan=((), (), ()), enum=False, meta=None):
        self.kind, self.case, self.ops, self.shards = kind, case, list(ops), shards
        self.plan = tuple(tuple(p) for p in plan)
        self.enum = enum
        self.meta = meta or {}

    def line(self):
        head = "%s %s" % (self.kind, self.case)
        if self.kind == "S":
            head += " shards=%d" % self.shards
        head += " plan=%s/%s/%s enum=%d" % (fmt_list(self.plan[0]), fmt_list(self.plan[1]), fmt_list(self.plan[2]), int(self.enum))
        return head + " :: " + " ; ".join(fmt_op(o) for o in self.ops)

    def with_plan(self, plan):
        return Script(self.kind, self.case, self.ops, self.shards, plan, False, self.meta)


# --------------------------------------------------------------------------------------------------
# running the implementation

def run_scripts(scripts, tag="ts", timeout=1200):
    """-> list of (script, result dict) ; fault-enumeration runs come back as extra results of their script"""
    os.makedirs(vlib.ALT or vlib.CACHE, exist_ok=True)
    path = os.path.join(vlib.ALT or vlib.CACHE, "%s_scripts_%d.txt" % (tag, os.getpid()))
    with open(path, "w") as fh:
        for s in scripts:
            fh.write(s.line() + "\n")
    rc, out, err = vlib.harness_run(BIN, ["run", "--file", path], timeout=timeout)
    try:
        os.remove(path)
    except OSError:
        pass
    by_case = {s.case: s for s in scripts}
    assert len(by_case) == len(scripts), "duplicate case ids"
    res = []
    for line in out.split("\n"):
        if not line.startswith("{"):
            continue
        j = json.loads(line)
        s = by_case[j["case"].split("/")[0]]
        res.append((s, j))
    if rc != 0:
        raise RuntimeError("harness %s failed rc=%s: %s" % (BIN, rc, err[-2000:]))
    return res


# --------------------------------------------------------------------------------------------------
# normal forms (identical for implementation and model)
#   track = (id, (u, m, o), ((cls, ((oa, f), ...)), ...) sorted by cls, (calls, acc), (hist...))

def norm_track_impl(j):
    # last component: get_feature_classes() as a getter of its own (the observations are dumped per class
    # through get_observations)
    return (j["id"], tuple(j["a"]), tuple((c, tuple((o[0], o[1]) for o in v)) for c, v in sorted(j["obs"])),
            tuple(j["ms"]), tuple(j["h"]), tuple(sorted(j["fc"])))


def _opt(v):
    return None if v is None else v[1]


def norm_track_model(v):
    u, m, o, tid, obs, ms, h = v
    return (tid, (u, m, o), tuple(sorted((c, tuple((_opt(a), _opt(f)) for a, f in vec)) for c, vec in obs)),
            tuple(ms), tuple(h), tuple(sorted(c for c, _ in obs)))


def norm_steps_impl(kind, j):
    steps = []
    for st in j["steps"]:
        d = {"r": tuple(st["r"]), "n": st["n"], "tracks": [norm_track_impl(t) for t in st["tracks"]]}
        if "nb" in st:
            d["nb"] = st["nb"]      # notifications of the build phase of ME / MN (part of n)
        if kind == "S":
            d["ids"] = list(st["ids"])
            d["status"] = sorted(tuple(x) for x in st["status"])
            d["shards"] = [sorted((k, norm_track_impl(t)) for k, t in sh) for sh in st["shards"]]
        steps.append(d)
    return steps


def norm_steps_model(kind, val):
    steps = []
    for st in val:
        if kind == "S":
            tag, code, ids, status, tracks, n, shards = st
            if tag == 9:      # ghost step
                continue
            steps.append({"r": (tag, code[0], code[1]), "n": n, "tracks": [norm_track_model(t) for t in tracks],
                          "ids": list(ids), "status": sorted(tuple(x) for x in status),
                          "shards": [sorted((k, norm_track_model(t)) for k, t in sh) for sh in shards]})
        else:
            e1, e2, n, tracks = st
            steps.append({"r": (0, e1, e2), "n": n, "tracks": [norm_track_model(t) for t in tracks]})
    return steps


# --------------------------------------------------------------------------------------------------
# Coq terms

def c_opt(x):
    return "None" if x is None else "(Some %d)" % x


def c_list(xs):
    return "[" + "; ".join(str(x) for x in xs) + "]"


def c_bool(b):
    return "true" if b else "false"


def c_spec(s):
    cls, oa, f, upd = s
    u = "None" if upd is None else "(Some (%d, %s))" % (upd[0], c_bool(upd[1]))
    return "(%d, %s, %s, %s)" % (cls, c_opt(oa), c_opt(f), u)


def c_cls(c):
    return "None" if c is None else "(Some %s)" % c_list(c)


def c_ops(script, result):
    """Coq terms of the operations; the observed order of the optimize invocations of a merge over 'all classes
    of the source' fixes the (unspecified) hash-map iteration order in the model (ghost XReorder / order argument)."""
    out = []
    steps = result.get("steps") or [{}] * len(script.ops)
    for op, st in zip(script.ops, steps):
        k = op[0]
        order = st.get("order", [])
        if k == "BA":
            out.append("XBuildAdd %d %s" % (op[1], "[" + "; ".join(c_spec(s) for s in op[2]) + "]"))
        elif k == "AD":
            cls, oa, f, upd = op[2]
            u = "None" if upd is None else "(Some (%d, %s))" % (upd[0], c_bool(upd[1]))
            out.append("XOp (Add %d %d %s %s %s)" % (op[1], cls, c_opt(oa), c_opt(f), u))
        elif k == "FE":
            out.append("XOp (Fetch %s)" % c_list(op[1]))
        elif k == "MO":
            if not op[3]:
                out.append("XReorder %d %s" % (op[2], c_list(order)))
            out.append("XOp (MergeOwned %d %d %s %s %s)" % (op[1], op[2], c_cls(op[3]), c_bool(op[4]), c_bool(op[5])))
        elif k in ("ME", "MN"):
            out.append("XMergeBuilt %s %d %d %s %s %s %s" % (c_bool(k == "MN"), op[1], op[2],
                                                             "[" + "; ".join(c_spec(s) for s in op[5]) + "]",
                                                             c_cls(op[3]), c_bool(op[4]), c_list(order if not op[3] else [])))
        elif k == "LK":
            out.append("XOp (Lookup (%d, %s, %s))" % (op[1], c_opt(op[2]), c_opt(op[3])))
        elif k == "FU":
            out.append("XOp FindUsable")
        elif k == "CL":
            out.append("XOp Clear")
        elif k == "ST":
            out.append("XOp Stats")
        elif k == "NT":
            out.append("XOp (NewTrack %d)" % op[1])
        elif k == "TN":
            out.append("TNew %d %d" % (op[1], op[2]))
        elif k == "TA":
            cls, oa, f, upd = op[2]
            u = "None" if upd is None else "(Some (%d, %s))" % (upd[0], c_bool(upd[1]))
            out.append("TAdd %d %d %s %s %s" % (op[1], cls, c_opt(oa), c_opt(f), u))
        elif k == "TM":
            out.append("TMerge %d %d %s %s" % (op[1], op[2], c_list(op[3]), c_bool(op[4])))
        else:
            raise ValueError(op)
    return "[" + "; ".join(out) + "]"


def coq_expr(script, result):
    plan = result["plan"]
    p = "(plan %s %s %s)" % (c_list(plan[0]), c_list(plan[1]), c_list(plan[2]))
    if script.kind == "S":
        return "run_store %d %s %s" % (script.shards, p, c_ops(script, result))
    return "run_track %s %s" % (p, c_ops(script, result))


def eval_model(pairs, tag, shard_size=200):
    """pairs: [(script, result)] -> list of normalised model step lists (None for panicked implementation runs)"""
    idx = [i for i, (s, r) in enumerate(pairs) if not r.get("panic")]
    vals = vlib.coq_eval(PREAMBLE, [coq_expr(*pairs[i]) for i in idx], shard_size=shard_size, tag=tag, timeout=2400)
    out = [None] * len(pairs)
    for i, v in zip(idx, vals):
        out[i] = norm_steps_model(pairs[i][0].kind, vlib.parse_coq_value(v))
    return out


def diff_steps(impl, model):
    """first difference between two normalised step lists, or None"""
    if model is None:
        return "implementation panicked"
    if len(impl) != len(model):
        return "number of steps: impl %d model %d" % (len(impl), len(model))
    for i, (a, b) in enumerate(zip(impl, model)):
        for key in a:
            if key == "nb":
                continue
            if a[key] != b.get(key):
                return "step %d field %s: impl %r model %r" % (i, key, a[key], b.get(key))
    return None


# --------------------------------------------------------------------------------------------------
# C11 property oracle: a direct reading of the property text on the implementation's outputs

def store_map(shards):
    return {k: t for sh in shards for k, t in sh}


def misplaced(shards):
    """A track is STORED only if it is found under its id: get_store(id) is shard id % n and the map key is the
    track's id, once.  -> None or (key, shard index, expected shard, why)"""
    n = len(shards)
    seen = set()
    for si, sh in enumerate(shards):
        for key, t in sh:
            if key % n != si:
                return (key, si, key % n, "track %d sits in shard %d of %d: it is not found under its id (get_store(%d) is shard %d)"
                        % (key, si, n, key, key % n))
            if t[0] != key:
                return (key, si, key % n, "the track with id %d is stored under key %d" % (t[0], key))
            if key in seen:
                return (key, si, key % n, "id %d is stored twice" % key)
            seen.add(key)
    return None


def history_ok(before_h, src_h, after_h, mh, requested_present):
    """merge history after a SUCCESSFUL merge"""
    ext = tuple(before_h) + tuple(src_h)
    if not mh:
        return after_h == tuple(before_h)
    if requested_present:
        return after_h == ext
    # history enabled but no requested class in either track: the text only excludes emptying, truncating and
    # extending more than once
    return after_h in (tuple(before_h), ext)


def classes_of(t):
    return {c for c, _ in t[2]}


def _optimised(vec):
    """the scripted optimize on one class vector: stable sort by attribute descending (None lowest), keep 3, a kept
    attribute 9 drains the vector; -> (vector, poisoned: a kept attribute 7 makes optimize fail)"""
    kept = sorted(vec, key=lambda o: -(0 if o[0] is None else o[0] + 1))[:3]
    if any(o[0] == 9 for o in kept):
        kept = []
    return tuple(kept), any(o[0] == 7 for o in kept)


def expected_merge(dst, src, classes, implicit_all, plan, w0):
    """The outcome a merge MUST have, derived from the property and the fail plan alone (not from the implementation):
    the attribute merge is invocation w0[1] of its kind; then every requested class present in either track is optimised
    once, in list order (invocations w0[2], w0[2]+1, ..); a planned or natural failure of any of them fails the merge.
    classes empty + implicit_all (store: None / empty list) = all classes of the source (order irrelevant for the verdict).
    -> ((code), number of optimize invocations of the unfaulted merge)"""
    if w0[1] in plan[1] or (dst[1][0] + src[1][0]) % 5 == 4:
        return (2, 0), 0
    dobs = {c: tuple(v) for c, v in dst[2]}
    sobs = {c: tuple(v) for c, v in src[2]}
    req = list(classes) if classes else (sorted(sobs) if implicit_all else [])
    j = 0
    failed = False
    for c in req:
        if c not in dobs and c not in sobs:
            continue
        idx = w0[2] + j
        j += 1
        vec, poisoned = _optimised(dobs.get(c, ()) + sobs.get(c, ()))
        if idx in plan[2] or poisoned:
            failed = True
        dobs[c] = vec
    return ((3, 0) if failed else (0, 0)), j


def c11_oracle(script, result):
    """-> None or (key, message, step index)"""
    if result.get("panic"):
        return ("C11:panic", "the operation panicked", len(script.ops) - 1)
    steps = norm_steps_impl(script.kind, result)
    raw = result["steps"]
    if script.kind == "T":
        regs = {}
        for i, (op, st) in enumerate(zip(script.ops, steps)):
            k = op[0]
            ok = st["r"][1] == 0
            after = st["tracks"][0] if st["tracks"] else None
            if k == "TN":
                regs[op[1]] = after
                continue
            r = op[1]
            before = regs.get(r)
            if before is None or st["r"][1] == 99:
                continue
            if not ok:
                if after != before:
                    return ("C11:%s:not-restored" % ("add_observation" if k == "TA" else "merge"),
                            "failed %s left the track changed: before %r after %r" % (k, before, after), i)
                if st["n"] != 0:
                    return ("C11:%s:notified-on-failure" % k, "failed %s emitted %d notifications" % (k, st["n"]), i)
            else:
                if st["n"] != 1:
                    return ("C11:%s:notifications" % k, "successful %s emitted %d notifications (expected exactly 1)" % (k, st["n"]), i)
                if k == "TM":
                    src = regs.get(op[2])
                    exp, _ = expected_merge(before, src, op[3], False, result["plan"], raw[i]["w0"])
                    if exp != (0, 0):
                        return ("C11:merge:error-swallowed",
                                "Track::merge returned Ok although %s must fail (every requested class present in either track is "
                                "optimised once, in list order; fail plan %r, counters at the start %r)"
                                % ("the attribute merge" if exp[0] == 2 else "the optimisation of a requested class", result["plan"], raw[i]["w0"]), i)
                    present = any(c in classes_of(before) or c in classes_of(src) for c in op[3])
                    if not history_ok(before[4], src[4], after[4], op[4], present):
                        return ("C11:merge:history", "merge history after a successful merge: before %r source %r after %r (history flag %s, requested class present: %s)"
                                % (before[4], src[4], after[4], op[4], present), i)
                elif after[4] != before[4]:
                    return ("C11:add_observation:history", "add_observation changed the merge history", i)
                elif op[2][1] is None and op[2][2] is None and (after[2] != before[2] or after[5] != before[5]):
                    # neither attributes nor feature: an attribute-only update; the observations of every class and the
                    # set of classes (get_observations(c) for all c, get_feature_classes()) stay exactly as they were
                    return ("C11:add_observation:attr-only-creates-class",
                            "add_observation(class %d, None, None, ..) changed the observations / classes: observations %r -> %r, "
                            "get_feature_classes %r -> %r" % (op[2][0], before[2], after[2], before[5], after[5]), i)
            regs[r] = after
        return None
    prev = {}
    for i, (op, st) in enumerate(zip(script.ops, steps)):
        k = op[0]
        cur = store_map(st["shards"])
        ok = st["r"][1] == 0
        mp = misplaced(st["shards"])
        if mp is not None:
            opname = {"AD": "store-add", "MO": "merge_owned", "ME": "merge_external", "MN": "merge_external", "BA": "add_track"}.get(k, k)
            role = "source" if (k == "MO" and mp[0] == op[2]) else ("destination" if k in ("MO", "ME", "MN") and mp[0] == op[1] else "track")
            return ("C11:%s:%s-misplaced" % (opname, role),
                    "after the %s %s the %s is not stored where it is looked up: %s"
                    % ("successful" if ok else "failed", fmt_op(op), role, mp[3]), i)
        if k == "AD":
            existed = op[1] in prev
            if not ok and cur != prev:
                return ("C11:store-add:not-restored", "failed add(%d) changed the store: before %r after %r" % (op[1], prev, cur), i)
            if existed and not ok and st["n"] != 0:
                return ("C11:store-add:notified-on-failure", "failed add on a stored track emitted %d notifications" % st["n"], i)
            if existed and ok and st["n"] != 1:
                return ("C11:store-add:notifications", "successful add on a stored track emitted %d notifications" % st["n"], i)
            if ok and op[2][1] is None and op[2][2] is None and op[1] in cur:
                b_obs, b_fc = (prev[op[1]][2], prev[op[1]][5]) if existed else ((), ())
                if cur[op[1]][2] != b_obs or cur[op[1]][5] != b_fc:
                    return ("C11:add_observation:attr-only-creates-class",
                            "add(%d, class %d, None, None, ..) on a %s track changed the observations / classes: observations %r -> %r, "
                            "get_feature_classes %r -> %r" % (op[1], op[2][0], "stored" if existed else "freshly created",
                                                              b_obs, cur[op[1]][2], b_fc, cur[op[1]][5]), i)
        elif k in ("MO", "ME", "MN") and st["r"][0] != 8:
            n_merge = st["n"] - st.get("nb", 0)
            d0 = raw[i].get("direct")
            # the merge really failed when the destination / source is missing, both are the same track, or
            # Track::merge on the very same tracks fails - whatever the store then reports
            really_failed = (op[1] not in prev or (k == "MO" and op[2] not in prev) or op[1] == op[2]
                             or (d0 is not None and d0["r"][0] != 0))
            if not really_failed and d0 is not None:
                exp, _ = expected_merge(prev[op[1]], norm_track_impl(d0["src"]), op[3] or [], True, result["plan"], raw[i]["w0"])
                if exp != (0, 0) and ok:
                    return ("C11:merge:error-swallowed",
                            "%s returned Ok although %s must fail (every requested class present in either track is optimised once, in "
                            "list order; fail plan %r, counters at the start %r); store ids before %r after %r"
                            % (k, "the attribute merge" if exp[0] == 2 else "the optimisation of a requested class", result["plan"],
                               raw[i]["w0"], sorted(prev), sorted(cur)), i)
            if really_failed and ok and cur != prev:
                return ("C11:%s:not-restored" % ("merge_owned" if k == "MO" else "merge_external"),
                        "a merge that failed (reported as success) did not leave the stored tracks as they were: before ids %r after ids %r"
                        % (sorted(prev), sorted(cur)), i)
            if not ok:
                if cur != prev:
                    what = "a failed owned merge did not leave both tracks stored and unchanged" if k == "MO" else "a failed merge changed the store"
                    return ("C11:%s:not-restored" % ("merge_owned" if k == "MO" else "merge_external"),
                            "%s: before %r after %r" % (what, prev, cur), i)
                if n_merge != 0:
                    return ("C11:store-merge:notified-on-failure", "failed merge emitted %d notifications" % n_merge, i)
            else:
                if n_merge != 1:
                    return ("C11:store-merge:notifications", "successful merge emitted %d notifications" % n_merge, i)
                d = raw[i].get("direct")
                if d is not None and op[1] in prev and op[1] in cur:
                    src = norm_track_impl(d["src"])
                    before = prev[op[1]]
                    req = op[3] if op[3] else sorted(classes_of(src))
                    present = any(c in classes_of(before) or c in classes_of(src) for c in req)
                    mh = op[5] if k == "MO" else op[4]
                    if not history_ok(before[4], src[4], cur[op[1]][4], mh, present):
                        return ("C11:merge:history", "merge history after a successful store merge: before %r source %r after %r (history flag %s, requested class present: %s)"
                                % (before[4], src[4], cur[op[1]][4], mh, present), i)
        prev = cur
    return None


# --------------------------------------------------------------------------------------------------
# case generation: exhaustive over shapes; every script ends with the operation under test and is run with
# enum=1, i.e. once without faults and once for every invocation index of apply / merge / optimize

OBS_VALUES = [(3, None), (5, 1), (None, 2), (1, None), (6, 4)]


def setup_track(reg, tid, classes, rich):
    """ops building a track with the given classes in register reg; `rich` puts 2-4 observations into the first
    class (so that sort-and-truncate is visible) and an attribute update"""
    ops = [("TN", reg, tid)]
    k = 0
    for ci, c in enumerate(classes):
        cnt = (2 + (tid % 3)) if (rich and ci == 0) else 1
        for _ in range(cnt):
            oa, f = OBS_VALUES[(k + tid) % len(OBS_VALUES)]
            ops.append(("TA", reg, (c, oa, f, (1 + k % 2, False) if (rich and k % 2 == 0) else None)))
            k += 1
    return ops


def subsets(xs, maxlen=None):
    for n in range(0, (maxlen if maxlen is not None else len(xs)) + 1):
        for c in itertools.combinations(xs, n):
            yield list(c)


CLASS_LISTS = [[], [1], [2], [1, 2], [2, 1], [1, 2, 3], [3, 2, 1], [4], [4, 1], [1, 1], [1, 4, 2]]


def gen_track_merge(tier):
    out = []
    k = 0
    for D in subsets([1, 2, 3]):
        for S in subsets([1, 2, 3]):
            for L in CLASS_LISTS:
                for mh in (True, False):
                    for hv in ((0, 1) if tier == "thorough" or (len(D) + len(S)) % 2 == 0 else (k % 2,)):
                        ops = setup_track(0, 10, D, rich=True)
                        if hv and 1 in D:
                            # give the destination a two-element history: [10, 40]
                            ops += [("TN", 3, 40), ("TA", 3, (1, 2, None, None)), ("TM", 0, 3, [1], True)]
                        if hv and 3 in S:
                            ops += setup_track(1, 20, [c for c in S if c != 3], rich=False)
                            ops += [("TN", 2, 30), ("TA", 2, (3, 4, 3, None)), ("TM", 1, 2, [3], True)]
                        else:
                            ops += setup_track(1, 20, S, rich=(k % 3 == 0))
                        ops.append(("TM", 0, 1, L, mh))
                        out.append(Script("T", "tm%d" % k, ops, enum=True,
                                          meta={"family": "Track::merge", "D": D, "S": S, "L": L, "mh": mh, "hv": hv}))
                        k += 1
    return out


def gen_track_add(tier):
    out = []
    k = 0
    for D in subsets([1, 2, 3]):
        for c in (1, 2, 4):
            for (oa, f) in ((5, 1), (2, None), (None, 3), (None, None), (7, None)):
                for upd in (None, (2, False), (1, True)):
                    ops = setup_track(0, 10, D, rich=True)
                    ops.append(("TA", 0, (c, oa, f, upd)))
                    out.append(Script("T", "ta%d" % k, ops, enum=True,
                                      meta={"family": "Track::add_observation", "D": D, "cls": c, "oa": oa, "f": f, "upd": upd}))
                    k += 1
    return out


def store_setup(tid, classes, rich):
    specs = []
    k = 0
    for ci, c in enumerate(classes):
        cnt = 2 if (rich and ci == 0) else 1
        for _ in range(cnt):
            oa, f = OBS_VALUES[(k + tid) % len(OBS_VALUES)]
            specs.append((c, oa, f, (1, False) if k == 0 and rich else None))
            k += 1
    return specs


STORE_CLS = [None, [], [1], [1, 2], [2, 1], [3], [3, 1]]


def gen_store(tier):
    out = []
    k = 0
    shard_counts = (1, 2, 3)
    # add(): stored / missing id
    for n in shard_counts:
        for D in subsets([1, 2]):
            for existing in (True, False):
                for c in (1, 3):
                    for (oa, f) in ((5, 1), (None, None), (7, None)):
                        for upd in (None, (2, False), (1, True)):
                            ops = [("BA", 4, store_setup(4, [2], False))]
                            if existing:
                                ops.append(("BA", 1, store_setup(1, D, True)))
                            ops.append(("AD", 1, (c, oa, f, upd)))
                            out.append(Script("S", "sa%d" % k, ops, shards=n, enum=True,
                                              meta={"family": "TrackStore::add", "existing": existing}))
                            k += 1
    # merge_owned / merge_external / merge_external_noblock
    for n in shard_counts:
        for D in subsets([1, 2]):
            for S in subsets([1, 2]):
                for L in STORE_CLS:
                    for mh in (True, False):
                        for variant in ("MO0", "MO1", "ME", "MN"):
                            if variant in ("ME", "MN") and n != 2 and tier != "thorough":
                                continue
                            ops = [("BA", 1, store_setup(1, D, True)), ("BA", 5, store_setup(5, [1], False))]
                            if variant.startswith("MO"):
                                ops.append(("BA", 2, store_setup(2, S, False)))
                                ops.append(("MO", 1, 2, L, variant == "MO1", mh))
                            else:
                                ops.append((variant, 1, 2, L, mh, store_setup(2, S, False)))
                            out.append(Script("S", "sm%d" % k, ops, shards=n, enum=True,
                                              meta={"family": "TrackStore::" + {"MO0": "merge_owned", "MO1": "merge_owned", "ME": "merge_external", "MN": "merge_external_noblock"}[variant]}))
                            k += 1
        # degenerate merges: missing destination, missing source, same track
        for (dst, src) in ((9, 2), (1, 9), (1, 1)):
            for rm in (True, False):
                ops = [("BA", 1, store_setup(1, [1], True)), ("BA", 2, store_setup(2, [1, 2], False)), ("MO", dst, src, None, rm, True)]
                out.append(Script("S", "sd%d" % k, ops, shards=n, enum=True, meta={"family": "TrackStore::merge_owned (degenerate)"}))
                k += 1
        for dst, sid in ((9, 2), (1, 1)):
            for v in ("ME", "MN"):
                ops = [("BA", 1, store_setup(1, [1], True)), (v, dst, sid, None, True, store_setup(sid, [1], False))]
                out.append(Script("S", "sd%d" % k, ops, shards=n, enum=True, meta={"family": "TrackStore::merge_external (degenerate)"}))
                k += 1
    return out


DRAIN = 9       # an observation with this attribute value makes optimize EMPTY the class vector (the key stays)
BIG_IDS = [255, 256, 257, 511, 65535, 65536, 2 ** 32 + 1, 2 ** 64 - 2]


def gen_drained(tier):
    """tracks holding a class key with ZERO observations (drained by optimize) in source / destination / both:
    Track::merge with explicit lists, and the store's merges with the implicit list (None / empty) and explicit ones"""
    out = []
    k = 0
    # shapes: list of (class, drained?)
    SRC = [[(3, True)], [(1, False), (3, True)], [(1, True), (3, True)], [(3, False)]]
    DST = [[], [(3, True)], [(1, False)], [(1, True), (3, False)]]

    def tsetup(reg, tid, shape):
        ops = [("TN", reg, tid)]
        for c, dr in shape:
            ops.append(("TA", reg, (c, 4, None, None)))
            if dr:
                ops.append(("TA", reg, (c, DRAIN, None, None)))
        return ops

    def ssetup(shape):
        specs = []
        for c, dr in shape:
            specs.append((c, 4, None, None))
            if dr:
                specs.append((c, DRAIN, None, None))
        return specs
    for S in SRC:
        for D in DST:
            for mh in (True, False):
                for L in ([3], [1, 3], [3, 1], [1], [4], []):
                    ops = tsetup(0, 10, D) + tsetup(1, 20, S) + [("TM", 0, 1, L, mh)]
                    out.append(Script("T", "dm%d" % k, ops, enum=True, meta={"family": "Track::merge (drained classes)"}))
                    k += 1
                for n in (1, 2, 3):
                    for L in (None, [], [3], [1, 3]):
                        for variant in ("MO0", "MO1", "ME", "MN"):
                            if variant in ("ME", "MN") and n == 1 and tier != "thorough":
                                continue
                            ops = [("BA", 1, ssetup(D))]
                            if variant.startswith("MO"):
                                ops += [("BA", 2, ssetup(S)), ("MO", 1, 2, L, variant == "MO1", mh)]
                            else:
                                ops.append((variant, 1, 2, L, mh, ssetup(S)))
                            out.append(Script("S", "ds%d" % k, ops, shards=n, enum=True, meta={"family": "TrackStore merges (drained classes)"}))
                            k += 1
    # draining add_observation on a stored / free-standing track
    for D in DST:
        ops = tsetup(0, 10, D) + [("TA", 0, (3, DRAIN, 1, (1, False)))]
        out.append(Script("T", "da%d" % k, ops, enum=True, meta={"family": "Track::add_observation (drain)"}))
        k += 1
        ops = [("BA", 1, ssetup(D)), ("AD", 1, (3, DRAIN, 1, None))]
        out.append(Script("S", "da%d" % k, ops, shards=2, enum=True, meta={"family": "TrackStore::add (drain)"}))
        k += 1
    return out


def gen_big_ids(tier):
    """the id-routed store operations with ids whose value differs from the value mod 2^8 / 2^16 / 2^32, shard
    counts 3, 5, 6, 7, 8 (and 2, 4 in thorough)"""
    out = []
    k = 0
    shard_counts = (3, 5, 6, 7, 8) if tier != "thorough" else (2, 3, 4, 5, 6, 7, 8)
    pairs = [(256, 257), (511, 255), (65536, 65535), (2 ** 32 + 1, 3), (2 ** 64 - 2, 256), (2, 2 ** 32 + 1)]
    for n in shard_counts:
        for (dst, src) in pairs:
            for D, S in (([1], [1]), ([1, 2], [2])):
                for L in (None, [1]):
                    for variant in ("MO0", "MO1", "ME", "MN"):
                        ops = [("BA", dst, store_setup(1, D, True)), ("BA", 7, store_setup(5, [1], False))]
                        if variant.startswith("MO"):
                            ops.append(("BA", src, store_setup(2, S, False)))
                            ops.append(("MO", dst, src, L, variant == "MO1", True))
                        else:
                            ops.append((variant, dst, src, L, True, store_setup(2, S, False)))
                        out.append(Script("S", "bi%d" % k, ops, shards=n, enum=True, meta={"family": "TrackStore merges (large ids)"}))
                        k += 1
            for existing in (True, False):
                for upd in (None, (1, True)):
                    ops = [("BA", src, store_setup(4, [2], False))]
                    if existing:
                        ops.append(("BA", dst, store_setup(1, [1], True)))
                    ops.append(("AD", dst, (1, 5, 1, upd)))
                    out.append(Script("S", "bi%d" % k, ops, shards=n, enum=True, meta={"family": "TrackStore::add (large ids)"}))
                    k += 1
    return out


def extra_fault_scripts(pairs):
    """Fault positions the implementation's own invocation count does not reach: for every unfaulted run whose last
    operation is a successful merge, the number of optimize invocations the property requires (expected_merge) is
    compared with the number observed; for each missing position a script with that single planned failure is issued."""
    out = []
    for s, r in pairs:
        if r.get("fault") or r.get("panic") or not s.enum:
            continue
        op = s.ops[-1]
        k = op[0]
        if k not in ("TM", "MO", "ME", "MN"):
            continue
        steps = norm_steps_impl(s.kind, r)
        last = r["steps"][-1]
        if last["r"][1] != 0:
            continue
        if s.kind == "T":
            regs = {}
            for o, st in zip(s.ops[:-1], steps[:-1]):
                if st["tracks"]:
                    regs[o[1]] = st["tracks"][0]
            dst, src = regs.get(op[1]), regs.get(op[2])
            if dst is None or src is None:
                continue
            exp, cnt = expected_merge(dst, src, op[3], False, r["plan"], last["w0"])
        else:
            d0 = last.get("direct")
            prev = store_map(steps[-2]["shards"]) if len(steps) > 1 else {}
            if d0 is None or op[1] not in prev:
                continue
            exp, cnt = expected_merge(prev[op[1]], norm_track_impl(d0["src"]), op[3] or [], True, r["plan"], last["w0"])
        seen = len(last["order"])
        for j in range(seen, cnt):
            plan = (tuple(r["plan"][0]), tuple(r["plan"][1]), tuple(r["plan"][2]) + (last["w0"][2] + j,))
            out.append(Script(s.kind, "%s+o%d" % (s.case, j), s.ops, s.shards, plan, False, s.meta))
    return out


def replay_cmd(script, plan):
    s = script.with_plan(plan)
    return "printf '%s\\n' '" + s.line() + "' > /tmp/ts_replay.txt && /verif/.cache/target/release/trackstore run --file /tmp/ts_replay.txt"


def minimise(script, plan, fails):
    """drop operations (never the last one) while the failure persists; plans are re-enumerated by the caller's
    `fails` (it searches all single-fault plans of the candidate)"""
    cur = script
    changed = True
    while changed:
        changed = False
        for i in range(len(cur.ops) - 1):
            cand = Script(cur.kind, cur.case, cur.ops[:i] + cur.ops[i + 1:], cur.shards, ((), (), ()), True, cur.meta)
            if fails(cand):
                cur = cand
                changed = True
                break
    if cur.kind == "S":
        for n in range(1, cur.shards):
            cand = Script(cur.kind, cur.case, cur.ops, n, ((), (), ()), True, cur.meta)
            if fails(cand):
                cur = cand
                break
    return cur


def first_oracle_failure(script, oracle, key=None):
    """run (with fault enumeration) and return (result, finding) of the first run the oracle rejects (with that key)"""
    try:
        res = run_scripts([script], tag="min")
    except RuntimeError:
        return None
    try:
        extra = extra_fault_scripts(res)
        if extra:
            res += run_scripts(extra, tag="minx")
    except (RuntimeError, KeyError, IndexError):
        pass
    for s, r in res:
        f = oracle(s, r)
        if f is not None and (key is None or f[0] == key):
            return (r, f)
    return None


def run(chk):
    props = os.path.join(vlib.COQ, "theories", "Props", "C11.v")
    vlib.proof_stage(chk, props)
    if chk.tier == "thorough":
        vlib.coqchk_stage(chk, "Similari.Props.C11")

    ok, out = vlib.harness_build([BIN])
    if not ok:
        chk.broken.append("harness build failed:\n" + out[-2000:])
        chk.violation("harness-build", "the correspondence harness does not build against /repo", {"log": out[-4000:]}, found_input=False)
        chk.coverage.update({"evaluations": 0})
        return
    scripts = (gen_track_add(chk.tier) + gen_track_merge(chk.tier) + gen_store(chk.tier)
               + gen_drained(chk.tier) + gen_big_ids(chk.tier))
    pairs = run_scripts(scripts, tag="c11")
    extra = extra_fault_scripts(pairs)
    if extra:
        # the implementation performs fewer optimize invocations than the property requires: plan failures there too
        pairs += [(s, dict(r, fault="optimize#(required, not reached)")) for s, r in run_scripts(extra, tag="c11x")]
    chk.log("implementation: %d scripts, %d runs (base + one per fault position; %d at required-but-unreached positions)"
            % (len(scripts), len(pairs), len(extra)))

    # property oracle on every run
    findings = []
    hist = Counter()
    nontrivial = set()
    for s, r in pairs:
        fam = s.meta.get("family", "?")
        hist["family=" + fam] += 1
        fault = r.get("fault", "")
        hist["fault=" + (fault.split("#")[0] if fault else "none")] += 1
        if not r.get("panic"):
            last = r["steps"][-1]
            hist["result=" + ("ok" if last["r"][1] == 0 else "err%d" % last["r"][1])] += 1
            if last["r"][1] != 0:
                nontrivial.add(r["case"])
        f = c11_oracle(s, r)
        if f is not None:
            findings.append((s, r, f))

    # model
    model = None
    if os.path.exists(os.path.join(vlib.COQ, "theories", "Model", "Store.vo")):
        try:
            model = eval_model(pairs, tag="c11")
        except RuntimeError as e:
            chk.broken.append("model evaluation failed: %s" % str(e)[-1500:])
    else:
        chk.broken.append("model Model/Store.vo not built")
    disagreements = []
    if model is not None:
        for i, (s, r) in enumerate(pairs):
            if r.get("panic"):
                disagreements.append((i, "implementation panicked"))
                continue
            d = diff_steps(norm_steps_impl(s.kind, r), model[i])
            if d is not None:
                disagreements.append((i, d))
    chk.log("oracle findings %d, model/implementation disagreements %d" % (len(findings), len(disagreements)))

    chk.coverage.update({
        "evaluations": len(pairs),
        "scripts": len(scripts),
        "distinct_nontrivial": len(nontrivial),
        "rule": "exhaustive shapes: Track::add_observation (track with every subset of 3 classes x target class present/absent/new x "
                "observation (attr,feature) both/one/none/poisoned x update none/ok/failing), Track::merge (dest x source over all subsets of "
                "classes {1,2,3} x 11 requested class lists incl. empty, permuted, repeated, absent-in-both x history flag x 1- or 2-element "
                "histories), TrackStore::add (stored / missing id), merge_owned (remove on/off), merge_external, merge_external_noblock+get "
                "(class list None / empty / present in both, one, neither; degenerate: missing dest, missing source, same id) with 1-3 shards; "
                "classes DRAINED to zero observations by optimize in source / destination / both (explicit and implicit class lists); ids "
                "255..2^64-2 with 3, 5, 6, 7, 8 shards; "
                "each run once without faults and once for EVERY invocation index of apply / attributes-merge / optimize of the operation under "
                "test. non-trivial = the operation under test fails (injected or natural); distinct by (script, fault position)",
        "samples": [s.line()[:300] for s in (scripts[0], scripts[len(scripts) // 2], scripts[-1])],
        "input_distribution": dict(hist),
        "model_vs_impl_disagreements": len(disagreements),
        "property_oracle_failures": len(findings),
        "exhaustive": True,
    })

    if findings:
        # group by key, report the smallest script of each key
        seen = set()
        for s, r, f in sorted(findings, key=lambda x: (len(x[0].ops), x[0].line())):
            key = f[0]
            if key in seen:
                continue
            seen.add(key)

            def fails(cand, key=key):
                return first_oracle_failure(cand, c11_oracle, key) is not None
            small = minimise(s, r["plan"], fails)
            got = first_oracle_failure(small, c11_oracle, key) or (r, f)
            rr, ff = got
            sp = small.with_plan(rr["plan"])
            chk.violation(key, ff[1], {
                "script": sp.line(), "fault": rr.get("fault") or "none (no injected fault)", "failing_step": ff[2],
                "operation": fmt_op(small.ops[ff[2]]),
                "implementation_steps": rr.get("steps"),
                "replay_cmd": replay_cmd(small, rr["plan"]),
                "model_vs_impl_disagreements": len(disagreements),
                "broken": chk.broken})
    elif disagreements or chk.broken:
        what = "proof or correspondence no longer checks: " + "; ".join(b.split("\n")[0][:200] for b in chk.broken)
        rep = {"broken": chk.broken}
        if disagreements:
            i, d = disagreements[0]
            s, r = min(((pairs[i][0], pairs[i][1]) for i, _ in disagreements), key=lambda x: len(x[0].ops))
            rep["correspondence_case"] = s.with_plan(r["plan"]).line()
            rep["difference"] = [dd for ii, dd in disagreements if pairs[ii][1] is r][0]
            rep["replay_cmd"] = replay_cmd(s, r["plan"])
            what += " model/implementation differ on %d runs" % len(disagreements)
        chk.violation("C11:tie-broken", what, rep, found_input=False)


def replay(chk, path):
    rep = json.load(open(path))
    vlib.harness_build([BIN])
    line = rep.get("script") or rep.get("correspondence_case")
    if not line:
        print("nothing to replay in", path)
        return 0
    s = parse_line(line)
    res = run_scripts([s], tag="replay")
    bad = 0
    for sc, r in res:
        print(json.dumps(r)[:3000])
        f = c11_oracle(sc, r)
        if f is not None:
            print("oracle:", f)
            bad = 1
    print("REPRODUCED" if bad else "not reproduced by the property oracle (correspondence-only difference?)")
    return bad


# --------------------------------------------------------------------------------------------------
# parsing a script line back (for replays)

def _plist(s):
    return [] if s in ("-", "") else [int(x) for x in s.split(",")]


def _popt(s):
    return None if s == "n" else int(s)


def _pspec(s):
    p = s.split(":")
    upd = None if p[3] == "n" else (int(p[3][:-1]), p[3].endswith("!"))
    return (int(p[0]), _popt(p[1]), _popt(p[2]), upd)


def _pcls(s):
    return None if s == "N" else _plist(s)


def parse_op(s):
    t = s.split()
    k = t[0]
    if k == "BA":
        return ("BA", int(t[1]), [_pspec(x) for x in t[2:]])
    if k == "AD":
        return ("AD", int(t[1]), _pspec(t[2]))
    if k == "FE":
        return ("FE", _plist(t[1]))
    if k == "MO":
        return ("MO", int(t[1]), int(t[2]), _pcls(t[3]), t[4] == "1", t[5] == "1")
    if k in ("ME", "MN"):
        return (k, int(t[1]), int(t[2]), _pcls(t[3]), t[4] == "1", [_pspec(x) for x in t[5:]])
    if k == "LK":
        return ("LK", int(t[1]), _popt(t[2]), _popt(t[3]))
    if k in ("FU", "CL", "ST"):
        return (k,)
    if k == "NT":
        return ("NT", int(t[1]))
    if k == "TN":
        return ("TN", int(t[1]), int(t[2]))
    if k == "TA":
        return ("TA", int(t[1]), _pspec(t[2]))
    if k == "TM":
        return ("TM", int(t[1]), int(t[2]), _plist(t[3]), t[4] == "1")
    raise ValueError(s)


def parse_line(line):
    head, body = line.split("::", 1)
    h = head.split()
    kv = dict(x.split("=", 1) for x in h[2:])
    plan = tuple(_plist(p) for p in kv.get("plan", "-/-/-").split("/"))
    return Script(h[0], h[1], [parse_op(x) for x in body.split(";") if x.strip()], int(kv.get("shards", "1")), plan,
                  kv.get("enum", "0") == "1")
