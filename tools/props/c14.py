"""C14 - non-maximum suppression: proof (Props/C14.v) + exact correspondence of the kept indices between the real
`similari::utils::nms::nms` and the Coq model (Model/Nms.v), whose score filter, rank, coverage ratio (intersection / area
of the LOWER box) and strict comparison with the threshold are the definitions TRANSLATED from src/utils/nms.rs on every
run (gen/ScalarNms.v) and which is fed only with the boxes, scores, thresholds and the table of intersection areas
`Universal2DBox::intersection(hi, lo) as f32` computed by the crate's own function (harness bin `nms`),
+ the property oracles applied directly to the implementation's output.

Decisions (documented here because they shape what is compared):
* the property oracles use the implementation's own ratio `Universal2DBox::intersection(hi, lo) as f32 / lo.area()` (field M)
  and compare it with the threshold (`> thr`, strictly); the model gets only the intersection areas (field I), see above.
  The model divides exactly, the implementation in f32: cases with a ratio within 1e-6 (relative) of the threshold that
  is not decided exactly are near-ties, counted and not compared with the model (`near_tie`).  A NaN ratio (the f64 clipper can return garbage on rotated nested boxes with collinear edges,
  the known C08 finding) compares false in Rust; here it is dropped from the table (= not covering).  Nothing below
  compares floating point results with each other: idempotence and correspondence compare index lists only.
* "higher-ranked" is read permissively for equal ranks (the text does not fix tie order): a dropped box must be covered
  by a kept box of rank >= its own; kept boxes must not be covered by a kept box that precedes them IN THE OUTPUT
  (which must be ordered by non-increasing rank).  Tie order itself is pinned by the exact correspondence (stable sort)
  and, where it matters for the property, by idempotence.
* INDEPENDENT geometry: besides the oracle ratios taken from the implementation, the two coverage clauses ("no kept box
  has more than the threshold fraction of its area covered by a higher-ranked kept box", "every dropped box is so covered
  by some kept higher-ranked box") are re-checked with a coverage ratio computed HERE, from (xc, yc, angle, aspect, height)
  only, in float64: the lower box's corners are rotated into the higher box's frame and clipped against its four
  axis-aligned sides, area by the shoelace formula, divided by aspect*height^2.  A pair is judged only when that ratio is
  away from the threshold by more than MARGIN_REL*thr + MARGIN_ABS (f32 rounding of the implementation's ratio is ~1e-7);
  near-threshold pairs are counted and skipped.  This is what catches a wrong `Universal2DBox::intersection`, which the
  model (fed with the implementation's own ratios) cannot see.
* box histories: in 1/4 of the cases some boxes were created in an EARLIER state, had `gen_vertices()` called, and were
  then rotated / moved / resized (rotate_mut, writes to the public fields, rotate) to the fields listed in `boxes`; the
  property speaks about the boxes as given, so every oracle here (and the model) works from the CURRENT fields only.
* a box without a score passes the score filter (the implementation substitutes f32::MAX for the missing score).
* generated inputs are finite (no NaN/inf fields): the quantifier of C14 has none.
"""
import hashlib
import json
import math
import os
from collections import Counter
from fractions import Fraction

import vlib
from vlib import q_lit, n_lit, coq_list, f32_bits_to_fraction

PREAMBLE = """From Coq Require Import List NArith QArith.
From Similari Require Import Model.Nms.
Import ListNotations.
Open Scope Q_scope.
"""

F32_MAX = Fraction(2 ** 128 - 2 ** 104)
MARGIN_REL = 1e-3
MARGIN_ABS = 1e-6


def is_finite_bits(b):
    return (b >> 23) & 0xFF != 0xFF


def parse_opt(s):
    return None if s == "N" else int(s)


def parse_line(line):
    parts = {}
    for tok in line.split()[2:]:
        k, v = tok.split("=", 1)
        parts[k] = v
    boxes = []
    for b in parts["boxes"].split(";"):
        if not b:
            continue
        f = b.split(",")
        boxes.append((int(f[0]), int(f[1]), parse_opt(f[2]), int(f[3]), int(f[4]), parse_opt(f[5])))
    pre = [None if e == "-" else e for e in parts.get("pre", "").split(";") if e]
    m = {}
    for e in parts["M"].split(","):
        if not e:
            continue
        i, j, v = e.split(":")
        m[(int(i), int(j))] = "P" if v == "P" else int(v)
    inter = {}
    for e in parts.get("I", "").split(","):
        if not e:
            continue
        i, j, v = e.split(":")
        inter[(int(i), int(j))] = int(v)
    kept = "P" if parts["kept"] == "P" else [int(x) for x in parts["kept"].split(",") if x]
    ag = parts["again"]
    again = ag if ag in ("P", "-") else [int(x) for x in ag.split(",") if x]
    return {"kind": parts.get("kind", "?"), "thr": int(parts["thr"]), "st": parse_opt(parts["st"]), "boxes": boxes,
            "kept": kept, "again": again, "M": m, "I": inter, "pre": pre if len(pre) == len(boxes) else []}


def case_text(c):
    """the replayable input (what `nms replay` reads)"""
    bs = ";".join(",".join("N" if x is None else str(x) for x in b) for b in c["boxes"])
    txt = "thr=%d st=%s boxes=%s" % (c["thr"], "N" if c["st"] is None else str(c["st"]), bs)
    if c.get("pre") and any(p is not None for p in c["pre"]):
        txt += " pre=%s" % ";".join("-" if p is None else p for p in c["pre"])
    return txt


def decoded(c):
    def f(b):
        return None if b is None else vlib.f32_bits_to_float(b)
    return {"nms_threshold": f(c["thr"]), "score_threshold": f(c["st"]),
            "boxes(xc,yc,angle,aspect,height,score)": [[f(x) for x in b] for b in c["boxes"]],
            "earlier_state_with_generated_vertices(xc,yc,angle,aspect,height,how)": [
                None if p is None else [vlib.f32_bits_to_float(int(x)) for x in p.split(",")[:5]] + [int(p.split(",")[5])]
                for p in c.get("pre", [])] or None,
            "kept": c["kept"], "again": c["again"]}


# ------------------------------------------------------------------------------------------------------------
# model side

def all_finite(c):
    for b in c["boxes"]:
        for x in b:
            if x is not None and not is_finite_bits(x):
                return False
    return is_finite_bits(c["thr"]) and (c["st"] is None or is_finite_bits(c["st"]))


def metric_fraction(v):
    """exact value of a coverage ratio; None for NaN (never covers); +-inf mapped beyond every finite threshold"""
    if v == "P":
        return None
    if not is_finite_bits(v):
        if v & 0x7FFFFF:
            return None
        return Fraction(-2 ** 200) if v >> 31 else Fraction(2 ** 200)
    return f32_bits_to_fraction(v)


def qopt(b):
    return "None" if b is None else "(Some %s)" % q_lit(f32_bits_to_fraction(b))


def coq_case(c):
    """the model is given the boxes, the scores, the thresholds (exact rationals of the f32s) and the table of intersection
    areas `intersection(hi, lo) as f32`; the ratio, the comparison, the filter and the rank are the translated nms.rs text"""
    dets = []
    for i, b in enumerate(c["boxes"]):
        dets.append("mk_det %s %s %s %s %s %s %s" % (
            n_lit(i), q_lit(f32_bits_to_fraction(b[0])), q_lit(f32_bits_to_fraction(b[1])), qopt(b[2]),
            q_lit(f32_bits_to_fraction(b[3])), q_lit(f32_bits_to_fraction(b[4])), qopt(b[5])))
    rows = {}
    for (i, j), v in c["I"].items():
        fr = metric_fraction(v)
        if fr is None or fr == 0:
            continue
        rows.setdefault(i, []).append("(%s, %s)" % (n_lit(j), q_lit(fr)))
    tab = coq_list(["(%s, %s)" % (n_lit(i), coq_list(r)) for i, r in sorted(rows.items())])
    return "run_case %s %s (%s : inter_tab) %s" % (qopt(c["st"]), q_lit(f32_bits_to_fraction(c["thr"])), tab, coq_list(dets))


GUARD_REL = Fraction(1, 10 ** 6)


def f32_exact(fr):
    """is the rational exactly an f32 value (so that the implementation's f32 arithmetic made no rounding there)"""
    try:
        import struct
        return Fraction(struct.unpack("<f", struct.pack("<f", float(fr)))[0]) == fr
    except (OverflowError, struct.error):
        return False


def near_tie(c):
    """The model divides exactly, the implementation in f32 (area: two rounded products, ratio: one rounded division,
    relative error <= ~2e-7).  A case is a near-tie when, for some ordered pair of passing boxes, the exact ratio
    intersection/area lies within GUARD_REL of the threshold without the comparison being decided exactly: such cases
    are counted and not compared with the model.  A ratio exactly ON the threshold is compared when the area products are
    exact in f32 (the dedicated boundary stream), because then the implementation's ratio is exact too."""
    n, rank, ps, valid, covers, ratio, thr = facts(c)
    u = [i for i in range(n) if ps[i] and valid[i]]
    for (a, b), v in c["I"].items():
        if a not in u or b not in u:
            continue
        inter = metric_fraction(v)
        if inter is None:
            continue
        h = f32_bits_to_fraction(c["boxes"][b][4])
        asp = f32_bits_to_fraction(c["boxes"][b][3])
        r = inter / (h * asp * h)
        if r == thr:
            if not (f32_exact(h * asp) and f32_exact(h * asp * h)):
                return True
        elif abs(r - thr) <= GUARD_REL * thr:
            return True
    return False


# ------------------------------------------------------------------------------------------------------------
# the property oracle: a direct reading of the C14 text on the implementation's output

def facts(c):
    n = len(c["boxes"])
    rank = []
    passes_score = []
    valid = []
    st = None if c["st"] is None else f32_bits_to_fraction(c["st"])
    for b in c["boxes"]:
        h = f32_bits_to_fraction(b[4])
        a = f32_bits_to_fraction(b[3])
        s = None if b[5] is None else f32_bits_to_fraction(b[5])
        rank.append(h if s is None else s)
        passes_score.append(True if (s is None or st is None) else s > st)
        valid.append(h > 0 and a > 0)
    thr = f32_bits_to_fraction(c["thr"])

    def ratio(a, b):
        v = c["M"].get((a, b))
        if v is None:
            return Fraction(0)
        return metric_fraction(v)

    def covers(a, b):
        r = ratio(a, b)
        return r is not None and r > thr
    return n, rank, passes_score, valid, covers, ratio, thr


def oracle(c):
    """returns a list of (key, message); empty = the output satisfies the property on this input"""
    out = []
    if c["kept"] == "P":
        return [("C14:panic", "nms panicked on an input of the quantified domain")]
    n, rank, ps, valid, covers, ratio, thr = facts(c)
    kept = c["kept"]
    universe = [i for i in range(n) if ps[i] and valid[i]]
    if len(set(kept)) != len(kept):
        out.append(("C14:subset", "a box is returned twice: %s" % kept))
    for i in kept:
        if not ps[i]:
            out.append(("C14:subset", "returned box #%d did not pass the score filter" % i))
        elif not valid[i]:
            out.append(("C14:invalid-kept", "returned box #%d has non-positive size" % i))
    if out:
        return out
    for p in range(len(kept) - 1):
        if rank[kept[p]] < rank[kept[p + 1]]:
            out.append(("C14:order", "output not ordered by decreasing rank: #%d (rank %s) before #%d (rank %s)" % (
                kept[p], float(rank[kept[p]]), kept[p + 1], float(rank[kept[p + 1]]))))
            break
    if universe:
        top = max(rank[i] for i in universe)
        if not kept:
            out.append(("C14:top", "boxes pass the filter but nothing is returned"))
        elif rank[kept[0]] != top:
            out.append(("C14:top", "the top-ranked passing box (rank %s) is not the first returned box (#%d, rank %s)" % (
                float(top), kept[0], float(rank[kept[0]]))))
    for q in range(len(kept)):
        for p in range(q):
            if covers(kept[p], kept[q]):
                out.append(("C14:independent", "kept box #%d has %s of its area (> %s) covered by the higher-ranked kept box #%d" % (
                    kept[q], float(ratio(kept[p], kept[q])), float(thr), kept[p])))
                break
        else:
            continue
        break
    ks = set(kept)
    for d in universe:
        if d in ks:
            continue
        if not any(rank[a] >= rank[d] and covers(a, d) for a in kept):
            out.append(("C14:dropped-not-covered", "dropped box #%d (rank %s) is not covered beyond %s by any kept box of rank >= its own" % (
                d, float(rank[d]), float(thr))))
            break
    if c["again"] == "P":
        out.append(("C14:panic", "nms panicked when applied to its own output"))
    elif c["again"] != "-" and c["again"] != list(range(len(kept))):
        out.append(("C14:idempotence", "nms applied to its own output %s returned positions %s of it" % (kept, c["again"])))
    return out



# ------------------------------------------------------------------------------------------------------------
# independent geometry (own code; nothing of the crate is used)

def _clip_halfplane(poly, axis, sign, bound):
    """keep the part of the convex polygon with sign * p[axis] <= bound"""
    out = []
    n = len(poly)
    for i in range(n):
        p, q = poly[i - 1], poly[i]
        dp, dq = sign * p[axis] - bound, sign * q[axis] - bound
        if dq <= 0:
            if dp > 0:
                t = dp / (dp - dq)
                out.append((p[0] + t * (q[0] - p[0]), p[1] + t * (q[1] - p[1])))
            out.append(q)
        elif dp <= 0:
            t = dp / (dp - dq)
            out.append((p[0] + t * (q[0] - p[0]), p[1] + t * (q[1] - p[1])))
    return out


def _box_floats(b):
    f = vlib.f32_bits_to_float
    return f(b[0]), f(b[1]), (0.0 if b[2] is None else f(b[2])), f(b[3]), f(b[4])


def independent_ratio(hi, lo):
    """area(hi intersect lo) / area(lo) for two boxes of positive size, float64"""
    hx, hy, ha, hasp, hh = _box_floats(hi)
    lx, ly, la, lasp, lh = _box_floats(lo)
    hw2, hh2 = hasp * hh / 2.0, hh / 2.0
    lw2, lh2 = lasp * lh / 2.0, lh / 2.0
    cl, sl = math.cos(la), math.sin(la)
    ch, sh = math.cos(ha), math.sin(ha)
    poly = []
    for dx, dy in ((-lw2, -lh2), (lw2, -lh2), (lw2, lh2), (-lw2, lh2)):
        wx, wy = lx + dx * cl - dy * sl - hx, ly + dx * sl + dy * cl - hy      # world, relative to hi's centre
        poly.append((wx * ch + wy * sh, -wx * sh + wy * ch))                     # in hi's frame
    for axis, sign, bound in ((0, 1.0, hw2), (0, -1.0, hw2), (1, 1.0, hh2), (1, -1.0, hh2)):
        poly = _clip_halfplane(poly, axis, sign, bound)
        if len(poly) < 3:
            return 0.0
    a = 0.0
    for i in range(len(poly)):
        p, q = poly[i - 1], poly[i]
        a += p[0] * q[1] - q[0] * p[1]
    return abs(a) / 2.0 / (4.0 * lw2 * lh2)


def geometry_oracle(c, stats=None):
    """the two coverage clauses re-checked with the independent ratio; returns [(key, message)]"""
    if c["kept"] == "P" or not all_finite(c):
        return []
    n, rank, ps, valid, covers, ratio, thr = facts(c)
    kept = c["kept"]
    if any((not ps[i]) or (not valid[i]) for i in kept) or len(set(kept)) != len(kept):
        return []                                   # already reported by the plain oracle
    t = float(thr)
    margin = MARGIN_REL * t + MARGIN_ABS
    cache = {}

    def judge(a, b):
        """+1 covered for sure, -1 not covered for sure, 0 too close to the threshold"""
        if (a, b) not in cache:
            r = independent_ratio(c["boxes"][a], c["boxes"][b])
            if stats is not None:
                stats["pairs_judged"] += 1
                ri = ratio(a, b)
                if ri is not None:
                    stats["max_abs_diff_impl_vs_independent"] = max(stats["max_abs_diff_impl_vs_independent"], abs(float(ri) - r))
            v = 1 if r > t + margin else -1 if r < t - margin else 0
            if v == 0 and stats is not None:
                stats["pairs_skipped_near_threshold"] += 1
            cache[(a, b)] = (v, r)
        return cache[(a, b)]
    out = []
    for q in range(len(kept)):
        for p in range(q):
            v, r = judge(kept[p], kept[q])
            if v > 0:
                out.append(("C14:independent-geom", "kept box #%d has %.6f of its area (> %s) covered by the higher-ranked kept box #%d "
                            "(independent polygon clipping; the implementation's own ratio is %s)" % (
                                kept[q], r, t, kept[p], None if ratio(kept[p], kept[q]) is None else float(ratio(kept[p], kept[q])))))
                break
        if out:
            break
    ks = set(kept)
    for d in range(n):
        if d in ks or not (ps[d] and valid[d]):
            continue
        js = [judge(a, d) for a in kept if rank[a] >= rank[d]]
        if all(v < 0 for v, _ in js):
            best = max([r for _, r in js], default=0.0)
            out.append(("C14:dropped-not-covered-geom", "dropped box #%d (rank %s) has at most %.6f of its area (threshold %s) covered by any "
                        "kept box of rank >= its own (independent polygon clipping)" % (d, float(rank[d]), best, t)))
            break
    return out

# ------------------------------------------------------------------------------------------------------------

def full_oracle(c, stats=None):
    return oracle(c) + geometry_oracle(c, stats)


def run_impl_on(text):
    path = os.path.join(vlib.ALT or vlib.CACHE, "c14_replay_%d.txt" % os.getpid())
    with open(path, "w") as fh:
        fh.write(text + "\n")
    rc, out, err = vlib.harness_run("nms", ["replay", "--file", path])
    os.remove(path)
    lines = [l for l in out.split("\n") if l.startswith("case ")]
    return parse_line(lines[0]) if lines else None


def shrink(c, key):
    """delta debugging on the box list (then the score threshold): keep the failure class `key`"""
    def fails(cc):
        r = run_impl_on(case_text(cc))
        return r is not None and any(k == key for k, _ in full_oracle(r))
    cur = dict(c)
    chunk = max(1, len(cur["boxes"]) // 2)
    while True:
        i = 0
        progressed = False
        while i < len(cur["boxes"]):
            cand = dict(cur)
            cand["boxes"] = cur["boxes"][:i] + cur["boxes"][i + chunk:]
            if cur.get("pre"):
                cand["pre"] = cur["pre"][:i] + cur["pre"][i + chunk:]
            if fails(cand):
                cur = cand
                progressed = True
            else:
                i += chunk
        if chunk == 1:
            if not progressed:
                break
        else:
            chunk = max(1, chunk // 2)
    if cur["st"] is not None:
        cand = dict(cur)
        cand["st"] = None
        if fails(cand):
            cur = cand
    for i in range(len(cur.get("pre") or [])):          # drop histories that are not needed for the failure
        if cur["pre"][i] is not None:
            cand = dict(cur)
            cand["pre"] = cur["pre"][:i] + [None] + cur["pre"][i + 1:]
            if fails(cand):
                cur = cand
    return run_impl_on(case_text(cur))


def signature(c):
    n, rank, ps, valid, covers, ratio, thr = facts(c)
    u = [i for i in range(n) if ps[i] and valid[i]]
    cov = "".join("1" if (a != b and covers(a, b)) else "0" for a in u for b in u)
    return hashlib.sha256(("%s|%s" % ([str(rank[i]) for i in u], cov)).encode()).hexdigest()


def run(chk):
    props = os.path.join(vlib.COQ, "theories", "Props", "C14.v")
    vlib.proof_stage(chk, props)
    if chk.tier == "thorough":
        vlib.coqchk_stage(chk, "Similari.Props.C14")

    ok, out = vlib.harness_build(["nms"])
    if not ok:
        chk.broken.append("harness build failed:\n" + out[-2000:])
        chk.violation("harness-build", "the correspondence harness does not build against the repository", {"log": out[-4000:]}, found_input=False)
        chk.coverage.update({"evaluations": 0})
        return
    n = 400 if chk.tier == "quick" else 6000
    rc, out, err = vlib.harness_run("nms", ["gen", "--seed", chk.seed, "--n", n])
    cases = [parse_line(l) for l in out.split("\n") if l.startswith("case ")]
    exhaustive = 0
    if chk.tier == "thorough":
        rc2, out2, err2 = vlib.harness_run("nms", ["exhaustive"])
        ex = [parse_line(l) for l in out2.split("\n") if l.startswith("case ")]
        exhaustive = len(ex)
        cases += ex
    chk.log("implementation ran %d cases" % len(cases))
    if rc != 0 or not cases:
        chk.broken.append("harness run failed rc=%s: %s" % (rc, err[-1500:]))

    # ---- model --------------------------------------------------------------------------------------------
    model_res = None
    if os.path.exists(os.path.join(vlib.COQ, "theories", "Model", "Nms.vo")):
        try:
            vals = vlib.coq_eval(PREAMBLE, [coq_case(c) for c in cases if all_finite(c)], shard_size=max(8, len(cases) // 32), tag="c14")
            it = iter(vals)
            model_res = [vlib.parse_coq_value(next(it)) if all_finite(c) else None for c in cases]
        except RuntimeError as e:
            chk.broken.append("model evaluation failed: %s" % str(e)[-1500:])
    chk.log("model evaluated")

    disagreements = []
    loop_vs_rec = []
    failures = []          # (case index, key, message)
    hist = Counter()
    nontrivial = set()
    pairs_checked = 0
    gstats = {"pairs_judged": 0, "pairs_skipped_near_threshold": 0, "max_abs_diff_impl_vs_independent": 0.0}
    for i, c in enumerate(cases):
        n_b, rank, ps, valid, covers, ratio, thr = facts(c)
        hist["kind=" + c["kind"]] += 1
        hist["n=%s" % ("0" if n_b == 0 else "1-2" if n_b <= 2 else "3-10" if n_b <= 10 else "11-25" if n_b <= 25 else "26-40")] += 1
        sc = [b[5] is not None for b in c["boxes"]]
        hist["scores=%s" % ("none" if not any(sc) else "all" if all(sc) else "mixed")] += 1
        sv = [f32_bits_to_fraction(b[5]) for b in c["boxes"] if b[5] is not None]
        if c["st"] is None:
            hist["score_thr=None"] += 1
        elif not sv:
            hist["score_thr=given,no-scores"] += 1
        else:
            t = f32_bits_to_fraction(c["st"])
            hist["score_thr=%s" % ("below" if t < min(sv) else "above" if t >= max(sv) else "on-a-score" if t in sv else "inside")] += 1
        if not all(valid):
            hist["with_invalid_boxes"] += 1
        u = [k for k in range(n_b) if ps[k] and valid[k]]
        if len(set(rank[k] for k in u)) < len(u):
            hist["rank_ties"] += 1
        if any(ratio(a, b) == thr for a in u for b in u if a != b):
            hist["ratio_exactly_on_threshold"] += 1
        if any(v != "P" and not is_finite_bits(v) for v in c["M"].values()):
            hist["nan_or_inf_ratio"] += 1
        pairs_checked += len(u) * (len(u) - 1)
        if c["kept"] != "P":
            dropped_cov = [d for d in u if d not in c["kept"]]
            if dropped_cov and len(c["kept"]) >= 2:
                nontrivial.add(signature(c))
                hist["nontrivial"] += 1
        if model_res is not None and model_res[i] is not None:
            loop_r, rec_r = model_res[i]
            if loop_r != rec_r:
                loop_vs_rec.append(i)
            if near_tie(c):
                hist["near_tie(not compared with the model)"] += 1
            elif c["kept"] == "P" or loop_r != c["kept"]:
                disagreements.append(i)
        for key, msg in full_oracle(c, gstats):
            failures.append((i, key, msg))
    chk.coverage.update({
        "evaluations": len(cases),
        "ordered_pairs_of_passing_boxes": pairs_checked,
        "distinct_nontrivial": len(nontrivial),
        "rule": "lists of 0..40 boxes from 10 scene generators (sparse / clustered, axis-aligned / rotated / mixed, duplicates, nested "
                "concentric families, exact-boundary shifts with the covered fraction exactly on a dyadic threshold, jittered objects, "
                "chains), invalid (non-positive size) boxes inserted in 1/3 of the cases, scores none / all / mixed with tie-rich levels, "
                "nms threshold dyadic / k/64 / arbitrary in (0,1), score threshold None / below / on a score / inside / above. "
                "non-trivial = at least one passing box dropped by coverage and at least two boxes kept; distinct by (ranks of the passing "
                "boxes, their covers matrix)",
        "samples": [case_text(c)[:300] + " kept=%s" % c["kept"] for c in cases[4:7]],
        "input_distribution": dict(sorted(hist.items())),
        "model_vs_impl_disagreements": len(disagreements),
        "model_loop_vs_rec_disagreements": len(loop_vs_rec),
        "property_oracle_failures": len(failures),
        "independent_geometry": dict(gstats, margin="|ratio - thr| > %g*thr + %g" % (MARGIN_REL, MARGIN_ABS)),
        "exhaustive_small_scope_cases": exhaustive,
        "exhaustive_small_scope": "thorough tier: every ordered list of length <= 3 over a pool of seven boxes (duplicate pair, nested pair, "
                                  "pair overlapping by exactly 1/2, far box, rotated box, invalid box) x nms threshold {1/4, 1/2} x scores "
                                  "{none, descending, ascending} x score threshold {None, 0.45}",
    })
    if loop_vs_rec:
        chk.broken.append("model: nms_loop and nms_rec differ on %d cases (contradicts theorem nms_loop_eq_rec)" % len(loop_vs_rec))

    # ---- verdict -------------------------------------------------------------------------------------------
    if failures:
        seen = set()
        for (i, key, msg) in failures:
            if key in seen:
                continue
            seen.add(key)
            small = shrink(cases[i], key) or cases[i]
            msgs = [m for k, m in full_oracle(small) if k == key] or [msg]
            chk.violation(key, msgs[0], {
                "input": case_text(small), "decoded": decoded(small),
                "coverage_ratios(hi,lo)": {"%d,%d" % k: (None if metric_fraction(v) is None else float(metric_fraction(v))) for k, v in small["M"].items()},
                "all_oracle_findings_on_this_input": full_oracle(small),
                "independent_coverage_ratios(hi,lo)": {"%d,%d" % (a, b): independent_ratio(small["boxes"][a], small["boxes"][b])
                                                        for a in range(len(small["boxes"])) for b in range(len(small["boxes"]))
                                                        if a != b and all(f32_bits_to_fraction(small["boxes"][x][y]) > 0 for x in (a, b) for y in (3, 4))} if all_finite(small) else None,
                "replay_cmd": "./check C14 --replay <this file>",
                "broken": chk.broken})
    elif disagreements or chk.broken:
        what = "proof or correspondence no longer checks: " + "; ".join(b.split("\n")[0][:200] for b in chk.broken)
        rep = {"broken": chk.broken}
        if disagreements:
            c = cases[disagreements[0]]
            rep["input"] = case_text(c)
            rep["decoded"] = decoded(c)
            rep["implementation_kept"] = c["kept"]
            rep["model_kept"] = model_res[disagreements[0]][0]
            what += " model/implementation differ on %d cases" % len(disagreements)
        chk.violation("C14:tie-broken", what, rep, found_input=False)


def replay(chk, path):
    rep = json.load(open(path))
    ok, out = vlib.harness_build(["nms"])
    c = run_impl_on(rep["input"])
    if c is None:
        print("harness produced nothing")
        return 2
    print(json.dumps(decoded(c), indent=1))
    res = full_oracle(c)
    for k, m in res:
        print("%s: %s" % (k, m))
    if "model_kept" in rep:
        print("model kept (stored):", rep["model_kept"], " implementation now:", c["kept"])
        if rep["model_kept"] != c["kept"]:
            res.append(("C14:tie-broken", "differs from the model"))
    print("REPRODUCED" if res else "not reproduced")
    return 1 if res else 0
