"""C17 - voting engines (TopNVoting, BestFitVoting, SortVoting) are order independent and do what their names say.

proof:           Props/C17.v  (Model/Voting.v, Model/Assign.v, Proofs/VotingProofs.v, Proofs/AssignProofs.v)
correspondence:  harness bin `voting`: the real engines on streams with dyadic-grid distances (f32 subtraction and f64
                 summation are then exact); winners and weights compared EXACTLY with the model (weights as the exact
                 rationals of the returned f64). Ties are detected by the model and compared as "one of the admissible ones".
property oracle: independent python reading of the property applied to the implementation's answers, incl. every
                 permutation of small streams.
"""
import json
import os
from collections import Counter, defaultdict
from fractions import Fraction
from itertools import permutations

import vlib
from vlib import q_lit, n_lit, z_lit, coq_list, f32_bits_to_fraction, f64_bits_to_fraction
from props import c02
from props.c02 import kv, parse_stream, fmt_stream, run_replay_lines, BIN

PREAMBLE = """From Coq Require Import List NArith ZArith QArith Bool.
From Similari Require Import Base.Num Model.Assign Model.Voting.
Import ListNotations.
Open Scope Q_scope.
"""


# ----------------------------------------------------------------------------------------------
# records

def parse_votes(r):
    """'q/t:w,t:w;q/...' -> {q: [(t, Fraction)]}; None for PANIC. Raises ValueError on a malformed entry."""
    if r == "PANIC":
        return None
    if r == "-":
        return {}
    out = {}
    for g in r.split(";"):
        q, _, l = g.partition("/")
        ents = []
        for e in (l.split(",") if l else []):
            parts = e.split(":")
            if len(parts) != 2:
                raise ValueError(e)
            ents.append((int(parts[0]), f64_bits_to_fraction(int(parts[1]))))
        out[int(q)] = ents
    return out


def load_vote(d):
    c = {"kind": d["kind"], "maxd_bits": int(d["maxd"]), "minv": int(d["minv"]), "stream": parse_stream(d["s"]),
         "res": d.get("r", ""), "raw": d["raw"]}
    c["n"] = int(d["n"]) if d["kind"] == "topn" else None
    c["maxd"] = f32_bits_to_fraction(c["maxd_bits"])
    try:
        c["R"] = parse_votes(c["res"])
        c["malformed_answer"] = False
    except ValueError:
        c["R"] = None
        c["malformed_answer"] = True
    return c


def vote_replay_text(c):
    if c["kind"] == "topn":
        return "topn n=%d maxd=%d minv=%d s=%s" % (c["n"], c["maxd_bits"], c["minv"], fmt_stream(c["stream"]))
    return "bestfit maxd=%d minv=%d s=%s" % (c["maxd_bits"], c["minv"], fmt_stream(c["stream"]))


def rerun_vote(c, stream):
    cc = dict(c)
    cc["stream"] = stream
    out = run_replay_lines([vote_replay_text(cc)])
    ls = [l for l in out if l.startswith(c["kind"] + " ")]
    return load_vote(kv(ls[0])) if ls else None


# ----------------------------------------------------------------------------------------------
# the property, read directly (python, exact rationals)

def eligible(c):
    """{(q, t): weight} for pairs having >= min_votes (and at least one) distances <= max_distance;
    weight = sum over the counted distances of (largest distance seen - distance)"""
    ds = [f32_bits_to_fraction(b) for _, _, b in c["stream"] if b is not None]
    if not ds:
        return {}
    big = max(ds)
    groups = defaultdict(list)
    for f, t, b in c["stream"]:
        if b is not None:
            x = f32_bits_to_fraction(b)
            if x <= c["maxd"]:
                groups[(f, t)].append(x)
    return {k: sum(big - x for x in v) for k, v in groups.items() if len(v) >= max(1, c["minv"])}


def ids_disjoint(c):
    return not (set(f for f, _, _ in c["stream"]) & set(t for _, t, _ in c["stream"]))


def topn_oracle(c):
    R = c["R"]
    if R is None:
        return ("panic", "TopNVoting::winners panicked")
    el = eligible(c)
    by_q = defaultdict(dict)
    for (q, t), w in el.items():
        by_q[q][t] = w
    for q, l in R.items():
        if len(l) > c["n"]:
            return ("more-than-n", "query %d gets %d tracks, N = %d" % (q, len(l), c["n"]))
        ts = [t for t, _ in l]
        if len(set(ts)) != len(ts):
            return ("track-twice", "query %d lists a track twice" % q)
        for t, w in l:
            if (q, t) not in el:
                return ("min-votes", "query %d lists track %d which has fewer than min_votes=%d distances <= max_distance" % (q, t, c["minv"]))
            if w != el[(q, t)]:
                return ("weight", "query %d track %d: weight %s, but the sum of (largest distance seen - distance) over the counted distances is %s" % (q, t, w, el[(q, t)]))
        ws = [w for _, w in l]
        if any(ws[i] < ws[i + 1] for i in range(len(ws) - 1)):
            return ("not-sorted", "query %d: weights not in decreasing order" % q)
        # top-N: nothing heavier was left out, and the list is as long as it can be
        rest = [w for t, w in by_q[q].items() if t not in ts]
        if rest and (len(l) < c["n"] or (ws and max(rest) > min(ws))):
            return ("not-top", "query %d: an eligible track is left out although it is heavier than a listed one or the list is shorter than N" % q)
    for q in by_q:
        if c["n"] > 0 and q not in R:
            return ("not-top", "query %d has eligible tracks but no entry" % q)
    return None


def topn_tie_free(c):
    el = eligible(c)
    by_q = defaultdict(list)
    for (q, t), w in el.items():
        by_q[q].append(w)
    return all(len(set(ws)) == len(ws) for ws in by_q.values())


def bestfit_oracle(c):
    R = c["R"]
    if R is None:
        return ("panic", "BestFitVoting::winners panicked")
    el = eligible(c)
    if bestfit_tie_free(c):
        # No two comparable claims (same query or same track) have equal weights, so the property text fixes the answer
        # completely, also when query ids and track ids overlap numerically: every claim (q, t) - a pair with >= min_votes
        # distances <= max_distance - is answered in q's list, in order of decreasing weight, by the track t if q is the
        # claimant of greatest weight of t ("awards each track to ... the one with the greatest weight"; a track claimed by
        # >= 1 query is awarded to its heaviest claimant), and by the query itself otherwise. Entries are identified by
        # their weights, which are pairwise different within one query.
        top = {}
        for (q, t), w in el.items():
            if t not in top or w > top[t][0]:
                top[t] = (w, q)
        expected = {}
        for (q, t), w in el.items():
            expected.setdefault(q, []).append((t if top[t][1] == q else q, w))
        for q in expected:
            expected[q].sort(key=lambda e: -e[1])
        if R != expected:
            for q in sorted(set(expected) | set(R)):
                got = {w: t for t, w in R.get(q, [])}
                for t, w in expected.get(q, []):
                    pair_t = [tt for (qq, tt), ww in el.items() if qq == q and ww == w][0]
                    if w not in got:
                        return ("missing-entry", "query %d has no entry of weight %s for its claim on track %d" % (q, w, pair_t))
                    if got[w] != t and t == pair_t:
                        return ("not-awarded-to-heaviest", "track %d is claimed by query %d with weight %s, the greatest weight among its claimants %s, "
                                "but the answer gives that claim the winner %d instead of the track"
                                % (pair_t, q, w, sorted((float(ww), qq) for (qq, tt), ww in el.items() if tt == pair_t), got[w]))
                    if got[w] != t:
                        return ("not-heaviest", "query %d's claim on track %d (weight %s) is answered by %d although query %d claims that track with the greater weight %s"
                                % (q, pair_t, w, got[w], top[pair_t][1], top[pair_t][0]))
                if [w for _, w in R.get(q, [])] != [w for _, w in expected.get(q, [])]:
                    return ("weight", "query %d: weights of its entries %s, expected (decreasing) %s"
                            % (q, [float(w) for _, w in R.get(q, [])], [float(w) for _, w in expected.get(q, [])]))
            return ("weight", "answer %s differs from %s" % (R, expected))
        return None
    if not ids_disjoint(c):
        return None          # ties AND overlapping id spaces: "the query itself" and "a track" cannot be told apart
    claim = defaultdict(list)
    for (q, t), w in el.items():
        claim[t].append((w, q))
    awarded = {}
    seen_pairs = Counter()
    for q, l in R.items():
        ws = [w for _, w in l]
        if any(ws[i] < ws[i + 1] for i in range(len(ws) - 1)):
            return ("not-sorted", "query %d: weights not in decreasing order" % q)
        for t, w in l:
            if t == q:
                continue
            if (q, t) not in el:
                return ("min-votes", "query %d is awarded track %d without min_votes=%d distances <= max_distance" % (q, t, c["minv"]))
            if w != el[(q, t)]:
                return ("weight", "query %d track %d: weight %s, expected %s" % (q, t, w, el[(q, t)]))
            if t in awarded:
                return ("track-twice", "track %d awarded to queries %d and %d" % (t, awarded[t], q))
            awarded[t] = q
            if w < max(x for x, _ in claim[t]):
                return ("not-heaviest", "track %d awarded to query %d (weight %s) although query %d claims it with weight %s"
                        % (t, q, w, max(claim[t])[1], max(claim[t])[0]))
    # every eligible pair shows up (as the track or as the query itself) with its weight; every claimed track is awarded
    for q in set(q for (q, _) in el):
        want = sorted(w for (qq, _), w in el.items() if qq == q)
        got = sorted(w for _, w in R.get(q, []))
        if want != got:
            return ("missing-entry" if len(got) < len(want) else "weight",
                    "query %d: weights of its entries %s differ from the weights of its eligible pairs %s "
                    "(a pair is eligible with >= min_votes distances <= max_distance)" % (q, [float(x) for x in got], [float(x) for x in want]))
    for t in claim:
        if t not in awarded:
            return ("not-awarded", "track %d has claimants but is awarded to nobody" % t)
    return None


def bestfit_tie_free(c):
    el = eligible(c)
    items = list(el.items())
    for i in range(len(items)):
        for j in range(i + 1, len(items)):
            (q1, t1), w1 = items[i]
            (q2, t2), w2 = items[j]
            if w1 == w2 and (q1 == q2 or t1 == t2):
                return False
    return True


def hungarian_oracle(c):
    """C17's part about SortVoting: one entry per query of the stream - a track of the stream or the query itself -
    and no track twice (the optimality part is C02's)."""
    r = c02.sort_oracle(c["pairs"], c["thrz"], c["n"], c["cols"], c["W"])
    if r is not None and r[0] in ("hungarian-total", "not-one-to-one", "panic"):
        return r
    if r is not None and r[0] == "ungated-continued" and "not in the stream" in r[1]:
        return ("hungarian-total", r[1])
    return None


# ----------------------------------------------------------------------------------------------
# VisualVoting (visual_sort/voting.rs): best fit on the feature distances first, then SortVoting on what remains

def parse_stream4(s):
    if s in ("-", ""):
        return []
    out = []
    for e in s.split(","):
        f, t, a, x = e.split(":")
        out.append((int(f), int(t), None if a == "-" else int(a), None if x == "-" else int(x)))
    return out


def fmt_stream4(st):
    o = lambda v: "-" if v is None else str(v)
    return ",".join("%d:%d:%s:%s" % (f, t, o(a), o(x)) for f, t, a, x in st) if st else "-"


def load_visual(d):
    c = {"kind": "visual", "thr_bits": int(d["thr"]), "maxd_bits": int(d["maxd"]), "minv": int(d["minv"]),
         "stream4": parse_stream4(d["s"]), "res": d.get("r", ""), "raw": d["raw"]}
    c["maxd"] = f32_bits_to_fraction(c["maxd_bits"])
    c["thrz"] = c02.z_of_bits(c["thr_bits"])
    c["stream"] = [(f, t, x) for f, t, a, x in c["stream4"]]        # the feature view, for eligible()
    c["n"] = None
    try:
        if c["res"] == "PANIC":
            c["V"], c["P"] = None, None
        else:
            ents = [] if c["res"] == "-" else [e.split(":") for e in c["res"].split(";")]
            if any(len(e) != 3 or e[2] not in ("V", "P") for e in ents):
                raise ValueError(c["res"])
            c["V"] = {int(q): int(t) for q, t, k in ents if k == "V"}
            c["P"] = [(int(q), int(t)) for q, t, k in ents if k == "P"]
        c["malformed_answer"] = False
    except ValueError:
        c["V"], c["P"] = None, None
        c["malformed_answer"] = True
    return c


def visual_replay_text(c):
    return "visual thr=%d maxd=%d minv=%d s=%s" % (c["thr_bits"], c["maxd_bits"], c["minv"], fmt_stream4(c["stream4"]))


def rerun_visual(c, stream4):
    cc = dict(c)
    cc["stream4"] = stream4
    out = run_replay_lines([visual_replay_text(cc)])
    ls = [l for l in out if l.startswith("visual ")]
    return load_visual(kv(ls[0])) if ls else None


def visual_expected(c):
    """independent reading: (visual map claimant -> track or itself, remaining positional pairs, tie-free?)"""
    el = eligible(c)
    tie_free = bestfit_tie_free(c)
    claims_on = defaultdict(list)
    for (q, t), w in el.items():
        claims_on[t].append(w)
    vis = {}
    for q in set(q for q, _ in el):
        w, t = max((w, t) for (qq, t), w in el.items() if qq == q)
        vis[q] = t if w >= max(claims_on[t]) else q
    excluded = set(vis.values())
    rem = [(f, t, c02.z_of_bits(a)) for f, t, a, _ in c["stream4"] if a is not None and f not in vis and t not in excluded]
    return vis, rem, tie_free


def remaining_from_answer(c):
    """the positional sub-stream implied by the implementation's own Visual entries"""
    excluded = set(c["V"].values())
    return [(f, t, c02.z_of_bits(a)) for f, t, a, _ in c["stream4"] if a is not None and f not in c["V"] and t not in excluded]


def visual_oracle(c):
    if c["V"] is None:
        return ("panic", "VisualVoting::winners panicked")
    vis, rem, tie_free = visual_expected(c)
    if tie_free:
        if c["V"] != vis:
            return ("visual-stage", "Visual entries %s, but best fit on the feature distances gives every claimant its heaviest claim "
                    "(the track if it is the heaviest claimant of that track, else itself): %s" % (sorted(c["V"].items()), sorted(vis.items())))
    else:
        rem = remaining_from_answer(c)
    both = [q for q, _ in c["P"] if q in c["V"]]
    if both:
        return ("claimant-in-positional-stage", "queries %s have a Visual and a Positional entry" % both)
    for q, t in c["P"]:
        if q in (vis if tie_free else c["V"]):
            return ("claimant-in-positional-stage", "query %d made a visual claim but is answered by the positional stage" % q)
        if t != q and t in set((vis if tie_free else c["V"]).values()):
            return ("won-track-reused", "track %d was awarded visually and is given again by the positional stage to query %d" % (t, q))
    F = c02.first_appearance([p[0] for p in rem])
    T = c02.first_appearance([p[1] for p in rem])
    if not rem:
        return None if not c["P"] else ("positional-stage", "positional entries %s although nothing remains for the positional stage" % c["P"])
    if len(set((f, t) for f, t, _ in rem)) != len(rem):
        return None      # repeated positional pair: last one wins, outside the claim
    r = c02.sort_oracle(rem, c["thrz"], len(F), len(T), c["P"])
    if r is not None:
        return ("positional-stage:" + r[0], r[1])
    return None


# ----------------------------------------------------------------------------------------------
# model side

def coq_dists(stream):
    return coq_list(["mk %s %s %s" % (n_lit(f), n_lit(t), "None" if b is None else "(Some %s)" % q_lit(f32_bits_to_fraction(b)))
                     for f, t, b in stream])


def coq_visual_case(c):
    items = ["mkv %s %s %s %s" % (n_lit(f), n_lit(t), "None" if a is None else "(Some %s)" % z_lit(c02.z_of_bits(a)),
                                  "None" if x is None else "(Some %s)" % q_lit(f32_bits_to_fraction(x)))
             for f, t, a, x in c["stream4"]]
    return "run_visual %s %d %s" % (q_lit(c["maxd"]), c["minv"], coq_list(items))


def coq_vote_case(c):
    if c["kind"] == "topn":
        return "run_topn %d %s %d %s" % (c["n"], q_lit(c["maxd"]), c["minv"], coq_dists(c["stream"]))
    return "run_bestfit %s %d %s" % (q_lit(c["maxd"]), c["minv"], coq_dists(c["stream"]))


def model_map(val):
    return {int(q): [(int(t), Fraction(w[0], w[1])) for t, w in l] for q, l in val}


def compare_vote_model(c, val):
    res, tie, cands = val
    M = model_map(res)
    R = c["R"]
    if R is None:
        return "implementation panicked", tie
    if not tie:
        return (None if M == R else "model %s, implementation %s" % (M, R)), tie
    # tie: the implementation's answer must be one of the admissible ones
    cset = defaultdict(set)
    for (q, t), w in [((int(a[0]), int(a[1])), Fraction(a[2][0], a[2][1])) for a in cands]:
        cset[q].add((t, w))
    if set(M.keys()) != set(R.keys()):
        return "tie case: different query sets: model %s, implementation %s" % (sorted(M), sorted(R)), tie
    for q in M:
        if [w for _, w in M[q]] != [w for _, w in R[q]]:
            return "tie case: query %d weight sequences differ: model %s, implementation %s" % (q, M[q], R[q]), tie
        if c["kind"] == "topn":
            if any(e not in cset[q] for e in R[q]) or len(set(t for t, _ in R[q])) != len(R[q]):
                return "tie case: query %d lists something that is not one of its candidates" % q, tie
    return None, tie


# ----------------------------------------------------------------------------------------------

def shrink_vote(c, oracle):
    cur = c
    changed = True
    while changed:
        changed = False
        for i in range(len(cur["stream"])):
            cand = rerun_vote(cur, cur["stream"][:i] + cur["stream"][i + 1:])
            if cand is not None and not cand["malformed_answer"] and oracle(cand) is not None:
                cur = cand
                changed = True
                break
    return cur


def run(chk):
    props = os.path.join(vlib.COQ, "theories", "Props", "C17.v")
    vlib.proof_stage(chk, props)
    if chk.tier == "thorough":
        vlib.coqchk_stage(chk, "Similari.Props.C17")

    ok, out = vlib.harness_build([BIN])
    if not ok:
        chk.broken.append("harness build failed:\n" + out[-2000:])
        chk.violation("harness-build", "the correspondence harness does not build against the repository", {"log": out[-4000:]}, found_input=False)
        chk.coverage.update({"evaluations": 0})
        return
    n = 400 if chk.tier == "quick" else 4000
    rc, out, err = vlib.harness_run(BIN, ["gen", "--seed", chk.seed, "--n", n, "--tier", chk.tier, "noexh"], timeout=3000)
    recs = [kv(l) for l in out.split("\n") if l.strip()]
    votes = [load_vote(d) for d in recs if d["kind"] in ("topn", "bestfit")]
    sorts = [c02.load_sortv(d) for d in recs if d["kind"] == "sortv"]
    visuals = [load_visual(d) for d in recs if d["kind"] == "visual"]
    perms = [d for d in recs if d["kind"] == "perm"]
    chk.log("implementation ran %d topn/bestfit streams, %d SortVoting streams, %d permutation families (%d runs)"
            % (len(votes), len(sorts), len(perms), sum(int(d["nperm"]) for d in perms)))

    hist = Counter()
    problems = []        # (key, text, case, oracle)
    nontrivial = set()
    for c in votes:
        hist[c["kind"]] += 1
        hist["len<=%d" % (10 * (len(c["stream"]) // 10 + 1))] += 1
        if c["malformed_answer"]:
            problems.append((c["kind"] + ":bad-entry", "an entry's query field differs from its key: %s" % c["res"][:200], c, None))
            continue
        orc = topn_oracle if c["kind"] == "topn" else bestfit_oracle
        r = orc(c)
        if r is not None:
            problems.append((c["kind"] + ":" + r[0], r[1], c, orc))
        el = eligible(c)
        by_t = Counter(t for (_, t) in el)
        cnt = Counter((f, t) for f, t, b in c["stream"] if b is not None and f32_bits_to_fraction(b) <= c["maxd"])
        if any(v >= 2 for v in by_t.values()) or any(v == c["minv"] for v in cnt.values()) \
                or any(b is not None and f32_bits_to_fraction(b) == c["maxd"] for _, _, b in c["stream"]):
            nontrivial.add(c["raw"])
    for c in sorts:
        hist["sortv"] += 1
        if c["malformed_answer"]:
            problems.append(("sortv:hungarian-total", "answer is not one track per query: %s" % c["res"][:200], c, None))
        elif c["wf"]:
            r = hungarian_oracle(c)
            if r is not None:
                problems.append(("sortv:" + r[0], r[1], c, None))

    for c in visuals:
        hist["visual"] += 1
        if c["malformed_answer"]:
            problems.append(("visual:bad-entry", "an answer entry is not (track, voting type): %s" % c["res"][:200], c, None))
            continue
        r = visual_oracle(c)
        if r is not None:
            problems.append(("visual:" + r[0], r[1], c, visual_oracle))
        if c["V"] and c["P"]:
            nontrivial.add(c["raw"])

    # ---- order independence: every permutation of small streams, on the implementation
    perm_runs = 0
    perm_tie_skipped = 0
    for d in perms:
        perm_runs += int(d["nperm"])
        hist["perm_" + d["pkind"]] += 1
        if d["alt"] == "-":
            continue
        if d["pkind"] == "visual":
            base = load_visual(dict(d, kind="visual"))
            _, rem, tf = visual_expected(base)
            tie_free = tf and len(set((f, t) for f, t, _ in rem)) == len(rem) and c02.best_partial(rem, base["thrz"])[1] == 1
        elif d["pkind"] == "sortv":
            base = c02.load_sortv(dict(d, kind="sortv"))
            tie_free = base["wf"] and c02.best_partial(base["pairs"], base["thrz"])[1] == 1
        else:
            base = load_vote(dict(d, kind=d["pkind"]))
            tie_free = topn_tie_free(base) if d["pkind"] == "topn" else bestfit_tie_free(base)
        if not tie_free:
            perm_tie_skipped += 1
            continue
        alt_stream, _, alt_res = d["alt"].split("|")[0].partition("@")
        problems.append((d["pkind"] + ":order-dependence",
                         "the result depends on the order of the stream although there is no tie: %s gives %s, %s gives %s"
                         % (d["s"], d["r"], alt_stream, alt_res), dict(base, alt_stream=alt_stream, alt_res=alt_res, permfam=True), None))

    # ---- model
    disagreements = []
    ties = 0
    if os.path.exists(os.path.join(vlib.COQ, "theories", "Model", "Voting.vo")):
        try:
            good = [c for c in votes if not c["malformed_answer"]]
            vals = vlib.coq_eval(PREAMBLE, [coq_vote_case(c) for c in good], shard_size=max(10, len(good) // 32 + 1), tag="c17v")
            for c, v in zip(good, vals):
                txt, tie = compare_vote_model(c, vlib.parse_coq_value(v))
                ties += 1 if tie else 0
                if txt is not None:
                    disagreements.append((txt, c))
            sgood = [c for c in sorts if not c["malformed_answer"]]
            svals = vlib.coq_eval(c02.PREAMBLE, [c02.coq_sort_case(c) for c in sgood], shard_size=max(20, len(sgood) // 16 + 1), tag="c17s")
            for c, v in zip(sgood, svals):
                txt, info = c02.compare_sort_model(c, vlib.parse_coq_value(v))
                if info.get("bc", 0) > 1:
                    ties += 1
                if txt is not None:
                    disagreements.append((txt, c))
            vgood = [c for c in visuals if not c["malformed_answer"] and c["V"] is not None]
            vvals = vlib.coq_eval(PREAMBLE, [coq_visual_case(c) for c in vgood], shard_size=max(10, len(vgood) // 32 + 1), tag="c17vis")
            stage2 = []
            for c, v in zip(vgood, vvals):
                fw, rem, tie = vlib.parse_coq_value(v)
                mfw = {int(q): int(t) for q, t in fw}
                mrem = [(int(f), int(t), int(z)) for f, t, z in rem]
                ties += 1 if tie else 0
                if not tie:
                    if mfw != c["V"]:
                        disagreements.append(("visual stage: model %s, implementation %s" % (sorted(mfw.items()), sorted(c["V"].items())), c))
                        continue
                else:
                    mrem = remaining_from_answer(c)
                if len(set((f, t) for f, t, _ in mrem)) != len(mrem):
                    continue
                F = c02.first_appearance([p[0] for p in mrem])
                T = c02.first_appearance([p[1] for p in mrem])
                sc = {"kind": "sortv", "thrz": c["thrz"], "n": len(F), "cols": len(T), "pairs": mrem, "W": c["P"], "res": c["res"],
                      "wf": c02.well_formed(mrem, c["thrz"], len(F), len(T)), "malformed_answer": False, "visual": c}
                if not mrem:
                    if c["P"]:
                        disagreements.append(("positional entries although the model's positional sub-stream is empty", c))
                    continue
                sc["u"], sc["v"] = c02.hungarian_duals(c02.padded(mrem, c["thrz"], len(F), len(T))) if sc["wf"] else ([], [])
                stage2.append(sc)
            s2vals = vlib.coq_eval(c02.PREAMBLE, [c02.coq_sort_case(sc) for sc in stage2], shard_size=max(20, len(stage2) // 16 + 1), tag="c17vis2") if stage2 else []
            for sc, v in zip(stage2, s2vals):
                txt, info = c02.compare_sort_model(sc, vlib.parse_coq_value(v))
                if info.get("bc", 0) > 1:
                    ties += 1
                if txt is not None:
                    disagreements.append(("positional stage: " + txt, sc["visual"]))
        except (RuntimeError, AssertionError) as e:
            chk.broken.append("model evaluation failed: %s" % str(e)[-1500:])
    else:
        chk.broken.append("model Voting.vo not built")

    chk.coverage.update({
        "evaluations": len(votes) + len(sorts) + len(visuals) + perm_runs,
        "streams_vs_model": len(votes) + len(sorts) + len(visuals),
        "permutation_runs": perm_runs,
        "permutation_families_with_ties_accepted_either_way": perm_tie_skipped,
        "distinct_nontrivial": len(nontrivial),
        "rule": "random streams over 1-6 queries x 1-6 tracks x 0-5 distances per pair (dyadic grids 1/16 and 1/256, None distances, "
                "max_distance on/off the grid incl. 0, negative and huge, min_votes 0-4, N 0-5, 10% with overlapping id spaces), "
                "SortVoting streams as in C02, and permutation families (every permutation of streams of <= 5 (quick) / 6 (thorough) entries). "
                "non-trivial = two queries are eligible for one track, or a pair sits exactly at min_votes, or a distance equals max_distance; "
                "distinct by the record text",
        "samples": [c["raw"][:300] for c in votes[:3]],
        "input_distribution": dict(hist),
        "model_vs_impl_disagreements": len(disagreements),
        "ties_compared_as_one_of_the_admissible": ties,
        "spec_oracle_failures": len(problems),
    })

    # ---- verdict
    if problems:
        key, text, c, orc = problems[0]
        rep = {"failures_total": len(problems), "broken": chk.broken}
        if c.get("permfam"):
            rep.update({"input": (c02.sort_replay_text(c) if c["kind"] == "sortv" else visual_replay_text(c) if c["kind"] == "visual" else vote_replay_text(c)),
                        "permuted_input_stream": c["alt_stream"], "result": c["res"], "result_on_permuted": c["alt_res"],
                        "replay_cmd": "replay both streams with /verif/.cache/target/release/voting replay --file <file>"})
        elif c["kind"] == "visual":
            small = c
            if orc is not None:
                changed = True
                while changed:
                    changed = False
                    for i in range(len(small["stream4"])):
                        cand = rerun_visual(small, small["stream4"][:i] + small["stream4"][i + 1:])
                        if cand is not None and not cand["malformed_answer"] and orc(cand) is not None:
                            small, changed = cand, True
                            break
                r = orc(small)
                if r is not None:
                    key, text = "visual:" + r[0], r[1]
            vis, rem, tf = visual_expected(small)
            rep.update({"input": visual_replay_text(small), "implementation": small["res"],
                        "decoded": {"positional_threshold_scaled": small["thrz"], "max_feature_distance": float(small["maxd"]), "min_votes": small["minv"],
                                    "stream (query, track, positional weight*1e6, feature distance)":
                                        [(f, t, None if a is None else c02.z_of_bits(a), None if x is None else float(f32_bits_to_fraction(x))) for f, t, a, x in small["stream4"]],
                                    "expected_visual_entries": vis, "expected_positional_substream": rem, "tie_free": tf},
                        "replay_cmd": "printf '%s\\n' '" + visual_replay_text(small) + "' > /tmp/c17.txt && /verif/.cache/target/release/voting replay --file /tmp/c17.txt"})
        elif c["kind"] == "sortv":
            small = c02.shrink_sort(c, lambda cc: (not cc["malformed_answer"]) and hungarian_oracle(cc) is not None) if c["wf"] and not c["malformed_answer"] else c
            rep.update({"input": c02.sort_replay_text(small), "implementation": small["res"], "integer_weights": small["pairs"]})
        else:
            small = shrink_vote(c, orc) if orc is not None else c
            r = orc(small) if orc is not None else None
            if r is not None:
                key, text = c["kind"] + ":" + r[0], r[1]
            rep.update({"input": vote_replay_text(small), "implementation": small["res"],
                        "decoded": {"max_distance": float(small["maxd"]), "min_votes": small["minv"], "N": small["n"],
                                    "stream": [(f, t, None if b is None else float(f32_bits_to_fraction(b))) for f, t, b in small["stream"]],
                                    "answer": None if small["R"] is None else {q: [(t, float(w)) for t, w in l] for q, l in small["R"].items()},
                                    "eligible_pairs_and_weights": {"%d->%d" % k: float(v) for k, v in eligible(small).items()}},
                        "replay_cmd": "printf '%s\\n' '" + vote_replay_text(small) + "' > /tmp/c17.txt && /verif/.cache/target/release/voting replay --file /tmp/c17.txt"})
        chk.violation("C17:" + key, text, rep)
    elif disagreements or chk.broken:
        what = "proof or correspondence no longer checks: " + "; ".join(b.split("\n")[0][:200] for b in chk.broken)
        rep = {"broken": chk.broken}
        if disagreements:
            txt, c = disagreements[0]
            rep["input"] = c02.sort_replay_text(c) if c["kind"] == "sortv" else visual_replay_text(c) if c["kind"] == "visual" else vote_replay_text(c)
            rep["implementation"] = c["res"]
            rep["model_says"] = txt
            what += " model/implementation differ on %d cases: %s" % (len(disagreements), txt[:300])
        chk.violation("C17:tie-broken", what, rep, found_input=False)


def replay(chk, path):
    rep = json.load(open(path))
    vlib.harness_build([BIN])
    lines = [rep.get("input", "")]
    if rep.get("permuted_input_stream"):
        toks = lines[0].split()
        lines.append(" ".join(t if not t.startswith("s=") else "s=" + rep["permuted_input_stream"] for t in toks))
    out = run_replay_lines(lines)
    print("\n".join(out))
    bad = False
    results = []
    for l in out:
        d = kv(l)
        if d["kind"] in ("topn", "bestfit"):
            c = load_vote(d)
            r = None if c["malformed_answer"] else (topn_oracle(c) if d["kind"] == "topn" else bestfit_oracle(c))
            print("oracle:", r)
            bad = bad or r is not None or c["malformed_answer"]
            results.append(c["res"])
        elif d["kind"] == "visual":
            c = load_visual(d)
            r = None if c["malformed_answer"] else visual_oracle(c)
            print("oracle:", r)
            bad = bad or r is not None or c["malformed_answer"]
            results.append(c["res"])
        elif d["kind"] == "sortv":
            c = c02.load_sortv(d)
            r = hungarian_oracle(c) if c["wf"] and not c["malformed_answer"] else None
            print("oracle:", r)
            bad = bad or r is not None or c["malformed_answer"]
            results.append(c["res"])
    if len(results) == 2 and results[0] != results[1]:
        print("order dependence: the two streams give different results")
        bad = True
    print("REPRODUCED" if bad else "not reproduced")
    return 1 if bad else 0
