"""C02 - positional (SORT) association is gated and maximum-weight one-to-one.

proof:           Props/C02.v  (Model/Assign.v, Proofs/AssignProofs.v)
correspondence:  harness bin `voting`: the real SortVoting::winners on streams built from weight matrices
                 (exhaustive family over a grid straddling the threshold, random up to 8x8, malformed sizes),
                 compared with the model: pad_matrix/decode/encode, best_partial (exhaustive optimum, <= 6x6),
                 check_dual (proved certificate checker, all sizes; potentials from an untrusted Hungarian here).
property oracle: python brute force (bitmask DP) directly on the implementation's answers: one entry per detection,
                 only gated pairs continued, no track twice, value = optimum over all partial matchings;
                 end to end through the real Sort::predict (IoU and Mahalanobis), weights recomputed from public
                 functions by the harness.
This module also holds the helpers shared with c17.py (stream parsing, SortVoting oracles).
"""
import json
import math
import os
import struct
from collections import Counter
from functools import lru_cache

import vlib
from vlib import n_lit, z_lit, coq_list

PREAMBLE = """From Coq Require Import List NArith ZArith Bool.
From Similari Require Import Model.Assign.
Import ListNotations.
"""

BIN = "voting"


# ----------------------------------------------------------------------------------------------
# records

def kv(line):
    toks = line.split()
    d = {"kind": toks[0]}
    for t in toks[1:]:
        k, _, v = t.partition("=")
        d["pkind" if k == "kind" else k] = v
    d["raw"] = line
    return d


def parse_stream(s):
    if s in ("-", ""):
        return []
    out = []
    for e in s.split(","):
        f, t, v = e.split(":")
        out.append((int(f), int(t), None if v == "-" else int(v)))
    return out


def fmt_stream(st):
    if not st:
        return "-"
    return ",".join("%d:%d:%s" % (f, t, "-" if v is None else str(v)) for f, t, v in st)


def z_of_bits(bits):
    """(w * 1_000_000.0f32) as i64, exactly: the product of two f32 has <= 48 significant bits, so the f64 product is
    exact and the conversion back to f32 rounds once (nearest even), like the f32 multiplication does."""
    if bits is None:
        return 0
    w = vlib.f32_bits_to_float(bits)
    prod = w * 1000000.0
    p32 = struct.unpack("<f", struct.pack("<f", prod))[0]
    return int(p32)


def parse_winners(r):
    """'from:to;...' -> list of (from, to); None for PANIC; raises on malformed entries"""
    if r == "PANIC":
        return None
    if r == "-":
        return []
    out = []
    for e in r.split(";"):
        f, t = e.split(":")
        out.append((int(f), int(t)))
    return out


def first_appearance(xs):
    seen = []
    for x in xs:
        if x not in seen:
            seen.append(x)
    return seen


def last_weights(pairs):
    w = {}
    for f, t, z in pairs:
        w[(f, t)] = z
    return w


# ----------------------------------------------------------------------------------------------
# independent oracles

def best_partial(pairs, thrz):
    """(best value, number of best partial matchings) over all one-to-one partial matchings of the stream's pairs;
    value = sum of matched weights + thrz per unmatched detection. Bitmask DP."""
    F = first_appearance([p[0] for p in pairs])
    T = first_appearance([p[1] for p in pairs])
    w = last_weights(pairs)
    ti = {t: i for i, t in enumerate(T)}
    rows = [[(ti[t], w[(f, t)]) for t in T if (f, t) in w] for f in F]

    @lru_cache(maxsize=None)
    def go(i, used):
        if i == len(rows):
            return (0, 1)
        bv, bc = go(i + 1, used)
        bv += thrz
        for (j, z) in rows[i]:
            if not used & (1 << j):
                v, c = go(i + 1, used | (1 << j))
                v += z
                if v > bv:
                    bv, bc = v, c
                elif v == bv:
                    bc += c
        return (bv, bc)
    return go(0, 0)


def greedy_value(pairs, thrz):
    """first-come, row by row: each detection (in order of first appearance) takes its heaviest still free gated track"""
    F = first_appearance([p[0] for p in pairs])
    w = last_weights(pairs)
    used = set()
    total = 0
    for f in F:
        best = None
        for (ff, t), z in w.items():
            if ff == f and t not in used and z >= thrz and (best is None or z > best[1]):
                best = (t, z)
        if best is None:
            total += thrz
        else:
            used.add(best[0])
            total += best[1]
    return total


def sort_oracle(pairs, thrz, n, cols, W):
    """Direct reading of C02/C17 on the implementation's answer W (list of (from, to)), for well-formed inputs
    (ids > 0, from/to ids disjoint, #froms <= n, #tos <= cols, thrz > 0). Returns None or (key, text)."""
    F = first_appearance([p[0] for p in pairs])
    w = last_weights(pairs)
    if W is None:
        return ("panic", "SortVoting::winners panicked on a well-formed stream")
    got = Counter(f for f, _ in W)
    for f in F:
        if got[f] != 1:
            return ("hungarian-total", "detection %d of the stream has %d entries in the answer" % (f, got[f]))
    for f, _ in W:
        if f not in F:
            return ("hungarian-total", "answer names %d which is not a detection of the stream" % f)
    tracks = [t for f, t in W if t != f]
    if len(set(tracks)) != len(tracks):
        return ("not-one-to-one", "a track is given to two detections: %s" % sorted(tracks))
    value = 0
    for f, t in W:
        if t == f:
            value += thrz
        else:
            z = w.get((f, t))
            if z is None:
                return ("ungated-continued", "detection %d continues track %d although the pair is not in the stream" % (f, t))
            if z < thrz:
                return ("ungated-continued", "detection %d continues track %d at weight %d < threshold %d" % (f, t, z, thrz))
            value += z
    best, _ = best_partial(pairs, thrz)
    if value != best:
        return ("not-maximum", "answer has value %d but the best partial matching has value %d (greedy row-by-row: %d)"
                % (value, best, greedy_value(pairs, thrz)))
    return None


def well_formed(pairs, thrz, n, cols):
    F = first_appearance([p[0] for p in pairs])
    T = first_appearance([p[1] for p in pairs])
    return (thrz > 0 and cols > 0 and all(f > 0 and t > 0 for f, t, _ in pairs) and not (set(F) & set(T))
            and len(F) <= n and len(T) <= cols)


def hungarian_duals(m):
    """untrusted: potentials (u, v) of a maximum-weight assignment of the rows of m (rows <= cols), v >= 0,
    v = 0 on columns left free (e-maxx formulation on the negated matrix)."""
    n = len(m)
    if n == 0:
        return [], []
    mm = len(m[0])
    INF = 1 << 62
    u = [0] * (n + 1)
    v = [0] * (mm + 1)
    p = [0] * (mm + 1)
    way = [0] * (mm + 1)
    for i in range(1, n + 1):
        p[0] = i
        j0 = 0
        minv = [INF] * (mm + 1)
        used = [False] * (mm + 1)
        while True:
            used[j0] = True
            i0 = p[j0]
            delta = INF
            j1 = 0
            for j in range(1, mm + 1):
                if not used[j]:
                    cur = -m[i0 - 1][j - 1] - u[i0] - v[j]
                    if cur < minv[j]:
                        minv[j] = cur
                        way[j] = j0
                    if minv[j] < delta:
                        delta = minv[j]
                        j1 = j
            for j in range(mm + 1):
                if used[j]:
                    u[p[j]] += delta
                    v[j] -= delta
                else:
                    minv[j] -= delta
            j0 = j1
            if p[j0] == 0:
                break
        while True:
            j1 = way[j0]
            p[j0] = p[j1]
            j0 = j1
            if j0 == 0:
                break
    return [-x for x in u[1:]], [-x for x in v[1:]]


def padded(pairs, thrz, n, cols):
    """the matrix as the property reads it (well-formed inputs): used only to feed the untrusted Hungarian"""
    F = first_appearance([p[0] for p in pairs])
    T = first_appearance([p[1] for p in pairs])
    m = [[0] * (n + cols) for _ in range(n)]
    for f, t, z in pairs:
        m[F.index(f)][n + T.index(t)] = z
    for i in range(n):
        m[i][i] = thrz
    return m


# ----------------------------------------------------------------------------------------------
# model side

def coq_pairs(pairs):
    return coq_list(["(%s, %s, %s)" % (n_lit(f), n_lit(t), z_lit(z)) for f, t, z in pairs])


def coq_sort_case(c):
    W = c["W"] or []
    return "run_sort %s %d %d %s %s %s %s" % (
        z_lit(c["thrz"]), c["n"], c["cols"], coq_pairs(c["pairs"]),
        coq_list(["(%s, %s)" % (n_lit(f), n_lit(t)) for f, t in W]),
        coq_list([z_lit(x) for x in c["u"]]), coq_list([z_lit(x) for x in c["v"]]))


def load_sortv(d):
    st = parse_stream(d["s"])
    pairs = [(f, t, z_of_bits(b)) for f, t, b in st]
    c = {"kind": "sortv", "thr_bits": int(d["thr"]), "n": int(d["n"]), "cols": int(d["cols"]), "stream": st,
         "pairs": pairs, "thrz": z_of_bits(int(d["thr"])), "raw": d["raw"], "res": d.get("r", "")}
    if "z" in d:
        hz = [] if d["z"] == "-" else [int(x) for x in d["z"].split(",")]
        c["z_agree"] = (hz == [p[2] for p in pairs]) and int(d["thrz"]) == c["thrz"]
    else:
        c["z_agree"] = True
    try:
        c["W"] = parse_winners(c["res"])
        c["malformed_answer"] = False
    except ValueError:
        c["W"] = None
        c["malformed_answer"] = True
    c["wf"] = well_formed(pairs, c["thrz"], c["n"], c["cols"])
    if c["wf"]:
        c["u"], c["v"] = hungarian_duals(padded(pairs, c["thrz"], c["n"], c["cols"]))
    else:
        c["u"], c["v"] = [], []
    return c


def sort_replay_text(c):
    return "sortv thr=%d n=%d cols=%d s=%s" % (c["thr_bits"], c["n"], c["cols"], fmt_stream(c["stream"]))


def run_replay_lines(lines):
    path = os.path.join(vlib.CACHE, "voting_replay_%d.txt" % os.getpid())
    with open(path, "w") as fh:
        fh.write("\n".join(lines) + "\n")
    rc, out, err = vlib.harness_run(BIN, ["replay", "--file", path])
    os.remove(path)
    return [l for l in out.split("\n") if l.strip()]


def rerun_sort(c, stream=None, n=None, cols=None):
    cc = dict(c)
    if stream is not None:
        cc["stream"] = stream
    if n is not None:
        cc["n"] = n
    if cols is not None:
        cc["cols"] = cols
    out = run_replay_lines([sort_replay_text(cc)])
    ls = [l for l in out if l.startswith("sortv ")]
    return load_sortv(kv(ls[0])) if ls else None


def shrink_sort(c, fails):
    """drop stream entries (and shrink the declared sizes) while the oracle still fails on the real code"""
    cur = c
    changed = True
    while changed:
        changed = False
        for i in range(len(cur["stream"])):
            cand = rerun_sort(cur, stream=cur["stream"][:i] + cur["stream"][i + 1:])
            if cand is not None and cand["wf"] and fails(cand):
                cur = cand
                changed = True
                break
        if changed:
            continue
        for (dn, dc) in ((1, 0), (0, 1)):
            if cur["n"] - dn >= 0 and cur["cols"] - dc >= 1:
                cand = rerun_sort(cur, n=cur["n"] - dn, cols=cur["cols"] - dc)
                if cand is not None and cand["wf"] and fails(cand):
                    cur = cand
                    changed = True
                    break
    return cur


def compare_sort_model(c, val):
    """model result for one sortv case vs implementation; returns (disagreement text or None, info)"""
    info = {}
    if val is None:            # model: the Rust code panics on this input
        return (None if c["W"] is None else "model predicts a panic, implementation answered %s" % c["res"]), info
    if c["W"] is None:
        return "implementation panicked, model does not", info
    assert val[0] == "Some"
    valid, wval, (bv, bm, bc), dual, dec, aw = val[1]
    info["bc"] = bc
    W = sorted(c["W"])
    if not c["wf"]:
        # collisions between from and to ids etc.: outside the theorems' hypotheses; the model still mirrors the code
        return None, info
    if not valid:
        return "model: the implementation's answer is not a gated one-to-one partial matching", info
    if bc > 0:
        if wval != bv:
            return "value of the answer %d differs from the exhaustive optimum %d of the model" % (wval, bv), info
        if bc == 1 and W != sorted((int(a), int(b)) for a, b in bm):
            return "unique optimum %s but the implementation answered %s" % (sorted(bm), W), info
    if not dual:
        return "check_dual rejects the implementation's assignment (potentials from the untrusted Hungarian)", info
    if dec is None or sorted((int(a), int(b)) for a, b in dec[1]) != W:
        return "decode (encode W) differs from W: %s" % (dec,), info
    return None, info


def e2e_assignment_oracle(d):
    """one Sort::predict call: the continuations must be a maximum-weight one-to-one matching over the gated pairs"""
    if d["anomalies"] != "-":
        return ("e2e-anomaly", "tracker output anomaly: %s" % d["anomalies"])
    thrz = int(d["thrz"])
    nd = int(d["nd"])
    pairs_all = [] if d["pairs"] == "-" else [tuple(int(x) for x in e.split(":")) for e in d["pairs"].split(",")]
    chosen = [] if d["chosen"] == "-" else [e.split(":") for e in d["chosen"].split(",")]
    if len(chosen) != nd:
        return ("e2e-anomaly", "%d detections but %d decisions" % (nd, len(chosen)))
    w = {(a, b): z for a, b, z in pairs_all}
    farok = set() if d.get("farok", "-") == "-" else set(tuple(int(x) for x in e.split(":")) for e in d["farok"].split(","))
    used = []
    value = 0
    for ds, ts in chosen:
        di = int(ds)
        if ts == "-":
            value += thrz
            continue
        t = int(ts)
        if t in used:
            return ("not-one-to-one", "track %d continued by two detections in one call" % t)
        used.append(t)
        z = w.get((di, t))
        elig = set() if d.get("elig", "-") == "-" else set(int(x) for x in d["elig"].split(","))
        if t not in elig:
            return ("expired-track-continued", "detection %d continues track %d although that track is not among the unexpired tracks of the "
                    "scene (idle for more than max_idle epochs, epochs counted by the check: one per predict call of the scene); "
                    "unexpired: %s" % (di, t, sorted(elig)))
        if z is None and (di, t) in farok:
            return ("out-of-reach-continued", "detection %d continues track %d although it is out of bounding-circle reach of the track's last box "
                    "(Universal2DBox::too_far(detection, last predicted box) is true; only the chi-square gate admits the pair)" % (di, t))
        if z is None or z < thrz:
            return ("ungated-continued", "detection %d continues track %d but the pair does not pass the gate (weight %s, threshold %d)" % (di, t, z, thrz))
        value += z
    # optimum over gated pairs + thr per unmatched detection (detections without any pair always contribute thr)
    gated = [(1000 + a, 1 + b, z) for a, b, z in pairs_all]
    best, cnt = best_partial(gated, thrz)
    F = set(a for a, _, _ in pairs_all)
    best += thrz * (nd - len(F))
    if value != best:
        return ("not-maximum", "continuations have value %d, the best gated matching has %d (greedy %d)"
                % (value, best, greedy_value(gated, thrz) + thrz * (nd - len(F))))
    return None


# ---- the gate, read from the property text and computed HERE (nothing of the crate's metric code is used) -----------------
CHI2_95_DOF5 = 11.0705          # 95% quantile of the chi-square distribution with 5 degrees of freedom (xc, yc, angle, aspect, height)
GATE_MARGIN = 1e-4              # relative guard band; pairs inside it are counted and not judged
GATE_STATS = Counter()


def _rect(xc, yc, angle, aspect, height):
    hw, hh = aspect * height / 2.0, height / 2.0
    c, s_ = math.cos(angle), math.sin(angle)
    return [(xc + dx * c - dy * s_, yc + dx * s_ + dy * c) for dx, dy in ((-hw, -hh), (hw, -hh), (hw, hh), (-hw, hh))]


def _area(poly):
    return abs(sum(poly[i][0] * poly[(i + 1) % len(poly)][1] - poly[(i + 1) % len(poly)][0] * poly[i][1] for i in range(len(poly)))) / 2.0


def _clip(subject, clipper):
    """Sutherland-Hodgman, float64, both polygons convex and counter-clockwise"""
    out = subject
    for i in range(len(clipper)):
        a, b = clipper[i], clipper[(i + 1) % len(clipper)]
        inp, out = out, []
        if not inp:
            break

        def side(p):
            return (b[0] - a[0]) * (p[1] - a[1]) - (b[1] - a[1]) * (p[0] - a[0])
        for j in range(len(inp)):
            p, q = inp[j], inp[(j + 1) % len(inp)]
            sp, sq = side(p), side(q)
            if sp >= 0:
                out.append(p)
            if (sp >= 0) != (sq >= 0):
                t = sp / (sp - sq)
                out.append((p[0] + t * (q[0] - p[0]), p[1] + t * (q[1] - p[1])))
    return out


def true_iou(b1, b2):
    """IoU of two rotated rectangles given as (xc, yc, angle, aspect, height)"""
    p1, p2 = _rect(*b1), _rect(*b2)
    inter = _clip(p1, p2)
    ia = _area(inter) if len(inter) >= 3 else 0.0
    a1, a2 = b1[3] * b1[4] * b1[4], b2[3] * b2[4] * b2[4]
    return ia / (a1 + a2 - ia) if a1 + a2 - ia > 0 else 0.0


def _radius(b):
    return math.hypot(b[3] * b[4] / 2.0, b[4] / 2.0)


def parse_hist(h):
    """e2ehist line -> dict(mode, thr, minconf, calls=[[(xc, yc, 0, aspect, height, conf)]]) from the RAW detections"""
    m = kv(h)
    f = vlib.f32_bits_to_float
    calls = []
    for c in m["calls"].split("|"):
        dets = []
        if c != "-":
            for b in c.split(";"):
                v = [f(int(x)) for x in b.split("/")]
                l, t, w, hh, conf = v[:5]
                dets.append((l + w / 2.0, t + hh / 2.0, v[5] if len(v) > 5 else 0.0, w / hh, hh, conf))
        calls.append(dets)
    return {"mode": m["mode"], "thr": f(int(m["thr"])), "minconf": f(int(m["minconf"])), "calls": calls}


def e2e_gate_oracle(d, h):
    """continued => the pair passes the gate of the property text; a detection left alone although a free track passes the
    gate with room to spare => not a maximum (leaving it unmatched only counts the threshold)."""
    H = parse_hist(h)
    ci = int(d["call"])
    if ci < 0 or ci >= len(H["calls"]):
        return None
    dets = H["calls"][ci]
    f = vlib.f32_bits_to_float
    tb = {}
    if d.get("tb", "-") != "-":
        for e in d["tb"].split(";"):
            tid, _, g = e.partition(":")
            xc, yc, ang, asp, hh = g.split("/")
            tb[int(tid)] = (f(int(xc)), f(int(yc)), 0.0 if ang == "-" else f(int(ang)), f(int(asp)), f(int(hh)))
    d2 = {}
    if d.get("d2", "-") != "-":
        for e in d["d2"].split(","):
            a, b, v = e.split(":")
            d2[(int(a), int(b))] = f(int(v))
    chosen = [] if d["chosen"] == "-" else [e.split(":") for e in d["chosen"].split(",")]
    if len(chosen) != len(dets):
        return None
    iou_mode = H["mode"] == "iou"
    thr = H["thr"]

    def verdict(di, t):
        """+1 passes with room, -1 fails with room, 0 inside the guard band; plus a description"""
        det = dets[di]
        trk = tb[t]
        if iou_mode:
            w = true_iou(det[:5], trk) * max(det[5], H["minconf"])
            txt = "true IoU %.6f x confidence %.3f = %.6f, threshold %.6f" % (true_iou(det[:5], trk), max(det[5], H["minconf"]), w, thr)
            return (1 if w >= thr * (1 + GATE_MARGIN) else -1 if w < thr * (1 - GATE_MARGIN) else 0), txt
        reach = _radius(det) + _radius(trk)
        dist2 = (det[0] - trk[0]) ** 2 + (det[1] - trk[1]) ** 2
        far = 1 if dist2 > reach * reach * (1 + GATE_MARGIN) else -1 if dist2 <= reach * reach * (1 - GATE_MARGIN) else 0
        q = d2.get((di, t))
        if q is None or q != q:
            return 0, "no distance"
        chi = 1 if q <= CHI2_95_DOF5 * (1 - GATE_MARGIN) else -1 if q > CHI2_95_DOF5 * (1 + GATE_MARGIN) else 0
        txt = "squared Mahalanobis distance %.4f (95%% chi-square gate, 5 dof: %.4f), centre distance %.3f, circle reach %.3f" % (q, CHI2_95_DOF5, math.sqrt(dist2), reach)
        if chi == -1 or far == 1:
            return -1, txt
        if chi == 1 and far == -1:
            return 1, txt
        return 0, txt
    used = set(int(ts) for _, ts in chosen if ts != "-")
    for ds, ts in chosen:
        di = int(ds)
        if ts != "-":
            t = int(ts)
            if t not in tb:
                continue
            v, txt = verdict(di, t)
            GATE_STATS["continued_judged" if v else "near_gate_skipped"] += 1
            if v == -1:
                return ("gate:continued-outside", "detection %d continues track %d although the pair does not pass the gate: %s" % (di, t, txt))
        else:
            for t in tb:
                if t in used:
                    continue
                v, txt = verdict(di, t)
                if v == 0:
                    GATE_STATS["near_gate_skipped"] += 1
                if v == 1:
                    return ("gate:gated-pair-ignored", "detection %d starts a new track although the free track %d passes the gate with room to spare "
                            "(so the chosen matching is not a maximum): %s" % (di, t, txt))
    return None


def e2e_oracle(d, h=None):
    r = e2e_assignment_oracle(d)
    if r is None and h is not None:
        r = e2e_gate_oracle(d, h)
    return r


def e2e_nontrivial(d):
    thrz = int(d["thrz"])
    pairs_all = [] if d["pairs"] == "-" else [tuple(int(x) for x in e.split(":")) for e in d["pairs"].split(",")]
    gated = [(1000 + a, 1 + b, z) for a, b, z in pairs_all if z >= thrz]
    if not gated:
        return False
    best, _ = best_partial(gated, thrz)
    return greedy_value(gated, thrz) != best


def nontrivial_sort(c):
    """Appendix B: greedy != optimal, or some weight within +-1 of thr, or an unmatched detection beside a gated pair"""
    if not c["wf"] or c["W"] is None:
        return False
    best, _ = best_partial(c["pairs"], c["thrz"])
    if greedy_value(c["pairs"], c["thrz"]) != best:
        return True
    if any(abs(z - c["thrz"]) <= 1 for _, _, z in c["pairs"]):
        return True
    return any(f == t for f, t in c["W"]) and any(f != t for f, t in c["W"])


# ----------------------------------------------------------------------------------------------

def run(chk):
    props = os.path.join(vlib.COQ, "theories", "Props", "C02.v")
    vlib.proof_stage(chk, props)
    if chk.tier == "thorough":
        vlib.coqchk_stage(chk, "Similari.Props.C02")

    ok, out = vlib.harness_build([BIN])
    if not ok:
        chk.broken.append("harness build failed:\n" + out[-2000:])
        chk.violation("harness-build", "the correspondence harness does not build against the repository", {"log": out[-4000:]}, found_input=False)
        chk.coverage.update({"evaluations": 0})
        return
    n = 300 if chk.tier == "quick" else 1500
    rc, out, err = vlib.harness_run(BIN, ["gen", "--seed", chk.seed, "--n", n, "--tier", chk.tier], timeout=3000)
    recs = [kv(l) for l in out.split("\n") if l.strip()]
    cases = [load_sortv(d) for d in recs if d["kind"] == "sortv"]
    exh = [d for d in recs if d["kind"] == "exh"]
    ne2e = 90 if chk.tier == "quick" else 1500
    rc, out2, err2 = vlib.harness_run(BIN, ["e2e", "--seed", chk.seed, "--n", ne2e], timeout=3000)
    e2e_lines = [l for l in out2.split("\n") if l.strip()]
    chk.log("implementation ran %d SortVoting cases (+%d exhaustive families), %d predict calls"
            % (len(cases), len(exh), sum(1 for l in e2e_lines if l.startswith("e2e "))))

    hist = Counter()
    problems = []          # (key, text, case)
    for c in cases:
        hist["size=%dx%d" % (min(c["n"], 9), min(c["cols"], 9))] += 1
        if not c["z_agree"]:
            chk.broken.append("harness/driver disagree on the integer weights of %s" % c["raw"][:300])
        if c["malformed_answer"]:
            problems.append(("hungarian-total", "answer is not one track per detection: %s" % c["res"], c))
            continue
        if not c["wf"]:
            hist["malformed_input"] += 1
            continue
        hist["panic" if c["W"] is None else "ok"] += 1
        r = sort_oracle(c["pairs"], c["thrz"], c["n"], c["cols"], c["W"])
        if r is not None:
            problems.append((r[0], r[1], c))
    exh_total = 0
    for d in exh:
        exh_total += int(d["total"])
        hist["exhaustive_%s_grid%s" % (d["shape"], d["grid"])] = int(d["total"])
        if int(d["fail"]) > 0 and not problems:
            chk.broken.append("in-harness oracle failed on %s cases of the exhaustive family %s" % (d["fail"], d["shape"]))

    # ---- model
    model_vo = os.path.join(vlib.COQ, "theories", "Model", "Assign.vo")
    disagreements = []
    ties = 0
    certified = 0
    if os.path.exists(model_vo):
        try:
            vals = vlib.coq_eval(PREAMBLE, [coq_sort_case(c) for c in cases], shard_size=max(20, len(cases) // 16 + 1), tag="c02")
            for c, v in zip(cases, vals):
                if c["malformed_answer"]:
                    continue
                txt, info = compare_sort_model(c, vlib.parse_coq_value(v))
                if info.get("bc", 0) > 1:
                    ties += 1
                if c["wf"] and c["W"] is not None and txt is None:
                    certified += 1
                if txt is not None:
                    disagreements.append((txt, c))
        except (RuntimeError, AssertionError) as e:
            chk.broken.append("model evaluation failed: %s" % str(e)[-1500:])
    else:
        chk.broken.append("model Assign.vo not built")

    # ---- end to end
    e2e_calls = 0
    e2e_nt = 0
    e2e_far = 0
    e2e_problems = []
    cur_hist = None
    shadow_bad = 0
    for l in e2e_lines:
        if l.startswith("e2ehist "):
            cur_hist = l
            hm = kv(l)
            hist["e2e_histories_api_" + hm.get("api", "sort")] += 1
            if hm.get("hist", "1") != hm.get("maxidle"):
                hist["e2e_histories_history_length_differs_from_max_idle"] += 1
            if any(b.count("/") == 5 for c in hm["calls"].split("|") for b in c.split(";")):
                hist["e2e_histories_oriented_boxes_shared_tilt"] += 1
        elif l.startswith("e2e "):
            d = kv(l)
            e2e_calls += 1
            hist["e2e_" + d["mode"]] += 1
            if int(d["shadow_bad"]) > 0:
                shadow_bad += 1
                continue
            r = e2e_oracle(d, cur_hist)
            if d.get("farok", "-") != "-":
                e2e_far += 1
            if r is not None:
                e2e_problems.append((r[0], r[1], cur_hist, d))
            elif e2e_nontrivial(d):
                e2e_nt += 1
    if shadow_bad:
        hist["e2e_shadow_mismatch_skipped"] = shadow_bad

    nontriv = set(c["raw"] for c in cases if nontrivial_sort(c))
    chk.coverage.update({
        "evaluations": len(cases) + exh_total + e2e_calls,
        "sortvoting_cases_vs_model": len(cases),
        "sortvoting_cases_certified_by_check_dual": certified,
        "exhaustive_family_cases_checked_in_harness": exh_total,
        "predict_calls_checked": e2e_calls,
        "predict_calls_greedy_differs_from_optimal": e2e_nt,
        "predict_calls_with_out_of_reach_pair_admitted_by_chi_square_alone": e2e_far,
        "independent_gate_oracle": {"continued_pairs_judged": GATE_STATS["continued_judged"],
                                    "pairs_inside_guard_band_not_judged": GATE_STATS["near_gate_skipped"],
                                    "relative_margin": GATE_MARGIN, "chi2_95_dof5": CHI2_95_DOF5},
        "distinct_nontrivial": len(nontriv) + e2e_nt + e2e_far,
        "rule": "SortVoting::winners on streams from integer weight matrices: exhaustive family (<=3 detections x <=3 tracks, every cell from "
                "{absent, 0, thr-1, thr, thr+1, 2thr, 2thr+1} resp. the 5-value subset; all of them checked by the in-harness brute-force oracle, "
                "a deterministic sample sent to the model), random up to 8x8 (grid and uniform weights, duplicates, None metrics, "
                "declared sizes larger/smaller than the stream), and Sort::predict histories (crossing pairs, convoys, overlapping "
                "parallel objects, random walkers, far-jumping small boxes; IoU and Mahalanobis, the latter also with loose Kalman "
                "weights (position 1/20|0.3|1.0, velocity 1/160|0.1|1.0) so that the bounding-circle-reach clause decides). "
                "non-trivial = greedy row-by-row differs from the optimum, or (predict) a pair out of circle reach that the chi-square gate alone admits, "
                "or a weight within +-1 of thr, or an unmatched detection beside a continued one; distinct by the record text",
        "samples": [c["raw"][:300] for c in cases[:3]],
        "input_distribution": dict(hist),
        "model_vs_impl_disagreements": len(disagreements),
        "ties_compared_as_one_of_the_optima": ties,
        "spec_oracle_failures": len(problems) + len(e2e_problems),
    })

    # ---- verdict
    if problems:
        key, text, c = problems[0]

        def fails(cc):
            r = sort_oracle(cc["pairs"], cc["thrz"], cc["n"], cc["cols"], cc["W"]) if not cc["malformed_answer"] else ("x", "x")
            return r is not None
        small = shrink_sort(c, fails) if c["wf"] else c
        r = sort_oracle(small["pairs"], small["thrz"], small["n"], small["cols"], small["W"]) if not small["malformed_answer"] else (key, text)
        chk.violation("C02:sortvoting:" + (r[0] if r else key), (r[1] if r else text),
                      {"input": sort_replay_text(small), "integer_weights": small["pairs"], "threshold": small["thrz"],
                       "implementation": small["res"], "best_partial_value": best_partial(small["pairs"], small["thrz"])[0],
                       "replay_cmd": "printf '%s\\n' '" + sort_replay_text(small) + "' > /tmp/c02.txt && /verif/.cache/target/release/voting replay --file /tmp/c02.txt",
                       "failures_total": len(problems), "broken": chk.broken})
    elif e2e_problems:
        key, text, h, d = e2e_problems[0]
        # shrink: later calls cannot influence an earlier one - keep the history up to the failing call
        try:
            ci = int(d["call"])
            toks = h.split()
            calls = [t for t in toks if t.startswith("calls=")][0][6:].split("|")
            if 0 <= ci < len(calls) - 1:
                h2 = " ".join(t if not t.startswith("calls=") else "calls=" + "|".join(calls[:ci + 1]) for t in toks)
                out_lines = [kv(l) for l in run_replay_lines([h2]) if l.startswith("e2e ")]
                bad = [x for x in out_lines if int(x["shadow_bad"]) == 0 and e2e_oracle(x, h2) is not None]
                if bad:
                    h, d = h2, bad[0]
                    key, text = e2e_oracle(d, h2)
            # then drop whole calls / single detections while some call still fails with the same key (bounded effort)
            def fails_hist(hh):
                ls = [kv(l) for l in run_replay_lines([hh]) if l.startswith("e2e ")]
                for x in ls:
                    if int(x["shadow_bad"]) == 0:
                        rr = e2e_oracle(x, hh)
                        if rr is not None and rr[0] == key:
                            return x, rr
                return None
            budget = 150
            changed = True
            while changed and budget > 0:
                changed = False
                toks = h.split()
                calls = [c.split(";") if c != "-" else [] for c in [t for t in toks if t.startswith("calls=")][0][6:].split("|")]
                cands_h = []
                for i in range(len(calls)):
                    if len(calls) > 1:
                        cands_h.append(calls[:i] + calls[i + 1:])
                for i in range(len(calls)):
                    for j in range(len(calls[i])):
                        cands_h.append(calls[:i] + [calls[i][:j] + calls[i][j + 1:]] + calls[i + 1:])
                for cc in cands_h:
                    if budget <= 0:
                        break
                    budget -= 1
                    hh = " ".join(t if not t.startswith("calls=") else "calls=" + "|".join(";".join(c) if c else "-" for c in cc) for t in toks)
                    got = fails_hist(hh)
                    if got is not None:
                        h, (d, (key, text)) = hh, got
                        changed = True
                        break
        except (ValueError, IndexError, KeyError):
            pass
        chk.violation("C02:predict:" + key, text,
                      {"input": h, "call": d["raw"], "replay_cmd": "write the `input` line to a file and run /verif/.cache/target/release/voting replay --file <file>",
                       "failures_total": len(e2e_problems), "broken": chk.broken})
    elif disagreements or chk.broken:
        what = "proof or correspondence no longer checks: " + "; ".join(b.split("\n")[0][:200] for b in chk.broken)
        rep = {"broken": chk.broken}
        if disagreements:
            txt, c = disagreements[0]
            rep["input"] = sort_replay_text(c)
            rep["implementation"] = c["res"]
            rep["model_says"] = txt
            what += " model/implementation differ on %d cases: %s" % (len(disagreements), txt)
        chk.violation("C02:tie-broken", what, rep, found_input=False)


def replay(chk, path):
    rep = json.load(open(path))
    vlib.harness_build([BIN])
    line = rep.get("input", "")
    out = run_replay_lines([line])
    print("\n".join(out))
    bad = False
    for l in out:
        if l.startswith("sortv "):
            c = load_sortv(kv(l))
            r = sort_oracle(c["pairs"], c["thrz"], c["n"], c["cols"], c["W"]) if c["wf"] and not c["malformed_answer"] else None
            print("oracle:", r)
            bad = bad or r is not None or c["malformed_answer"]
        elif l.startswith("e2e "):
            d = kv(l)
            r = e2e_oracle(d, line if line.startswith("e2ehist ") else None) if int(d["shadow_bad"]) == 0 else None
            if r is not None:
                print("oracle:", r, "at", l[:200])
                bad = True
    print("REPRODUCED" if bad else "not reproduced")
    return 1 if bad else 0
