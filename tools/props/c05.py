"""C05 - results independent of shard count and thread schedule.

proof:          Props/C05.v (model Model/DistProto.v incl. Section Predict, lemmas Proofs/DistProtoProofs.v)
correspondence: harness bin `sched c05`: the REAL Sort and VisualSort on tie-free histories (margin asserted) for shard
                counts 1..8; the workers' Distances commands of every predict call are executed one at a time in a forced
                order (all shard permutations for <= 3 shards, a random permutation and random command-level orders
                otherwise), from inside the hook of the caller's last enqueue.
                  (a) property oracle: the records (ids included) of all runs of one history are identical,
                  (b) every forced per-call schedule is validated as a complete run of DistProto (shape instance).
"""
import json
import os
from collections import Counter, defaultdict

import vlib
from props.c10 import ensure_cargo_cfg

PREAMBLE = """From Coq Require Import List NArith ZArith Bool.
From Similari Require Import Model.DistProto.
Import ListNotations.
"""


def parse(line):
    d = dict(t.split("=", 1) for t in line.split()[1:])
    return {"raw": line, "kind": d["kind"], "hist": int(d["hist"]), "S": int(d["S"]), "order": d["order"],
            "margin": int(d["margin"]), "calls": int(d["calls"]), "recs": d["recs"].split("/") if d["recs"] else [],
            "trace": [t for t in d["trace"].split("|") if t], "status": d["status"]}


def shape_check_expr(S, ncand, seq):
    """the forced per-call schedule as a DistProto run on a store of S empty shards and ncand dummy candidates"""
    labels = []
    for i in range(S * ncand):
        labels.append("DEnq %d" % (i % S))
    labels += ["DExec %d" % k for k in seq]
    labels += ["DRecvErr"] * (S * ncand) + ["DRecvOk"] * (S * ncand)      # errs.all() first, then the ok stream
    cands = vlib.coq_list(["(DistInst.mkT %d%%N 0%%N 1%%N [])" % (50 + j) for j in range(ncand)])
    sh = vlib.coq_list(["[]"] * S)
    return "match DistInst.run_foreign %s %s 0%%N false %s with Some (f, _, _) => f | None => false end" % (sh, cands, vlib.coq_list(labels))


def first_diff(a, b):
    for ci, (x, y) in enumerate(zip(a, b)):
        if x != y:
            xs, ys = x.split(";"), y.split(";")
            for k, (p, q) in enumerate(zip(xs, ys)):
                if p != q:
                    return "call %d record %d: %s vs %s" % (ci, k, p[:80], q[:80])
            return "call %d: %d vs %d records" % (ci, len(xs), len(ys))
    return "%d vs %d calls" % (len(a), len(b))


def run(chk):
    props = os.path.join(vlib.COQ, "theories", "Props", "C05.v")
    vlib.proof_stage(chk, props)
    if chk.tier == "thorough":
        vlib.coqchk_stage(chk, "Similari.Props.C05")

    ensure_cargo_cfg()
    ok, out = vlib.harness_build(["sched"])
    if not ok:
        chk.broken.append("harness build failed:\n" + out[-2000:])
        chk.violation("harness-build", "the correspondence harness does not build against the repository", {"log": out[-4000:]}, found_input=False)
        chk.coverage.update({"evaluations": 0})
        return
    n = 8 if chk.tier == "quick" else 12
    rc, out, err = vlib.harness_run("sched", ["c05", "--seed", chk.seed, "--n", n, "--tier", chk.tier], timeout=1500)
    runs = [parse(l) for l in out.split("\n") if l.startswith("c05 ")]
    redrawn = sum(int(l.split("redrawn=")[1]) for l in out.split("\n") if l.startswith("c05skip "))
    skipped_low_margin = len(set((r["kind"], r["hist"]) for r in runs if r["margin"] < 50))
    runs = [r for r in runs if r["margin"] >= 50]
    chk.log("implementation: %d runs (harness rc=%d)" % (len(runs), rc))
    if rc not in (0, 3) or not runs:
        chk.broken.append("harness sched c05 failed rc=%d: %s" % (rc, err[-1500:]))

    groups = defaultdict(list)
    hist = Counter()
    nontrivial = set()
    bad_status = []
    low_margin = []
    for i, r in enumerate(runs):
        groups[(r["kind"], r["hist"])].append(i)
        hist["%s S=%d" % (r["kind"], r["S"])] += 1
        hist["order=" + r["order"].split(":")[0]] += 1
        if r["status"] != "ok":
            bad_status.append(i)
        if r["margin"] < 50:
            low_margin.append(i)
        if r["hist"] >= 2000:
            hist["appearance_contest_history"] += 1
        elif r["hist"] >= 1000:
            hist["long_id_history"] += 1
        if r["S"] >= 2 and r["order"] != "free" and r["order"] != "perm:" + ".".join(str(k) for k in range(r["S"])):
            nontrivial.add((r["kind"], r["hist"], r["S"], r["order"]))
    differing = []
    tie_groups = []
    for key, idx in list(groups.items()):
        free = [runs[i]["recs"] for i in idx if runs[i]["order"] == "free" and runs[i]["S"] == 1 and runs[i]["status"] == "ok"]
        if key[0] == "visual" and any(f != free[0] for f in free[1:]):
            # the sequential reference disagrees with itself: an exact tie in the appearance stage (whose margins the
            # generator cannot assert; positional margins are asserted, so for `sort` this is never excused)
            tie_groups.append(key)
            del groups[key]
    for key, idx in groups.items():
        ref = runs[idx[0]]
        for i in idx[1:]:
            if runs[i]["status"] == "ok" and ref["status"] == "ok" and runs[i]["recs"] != ref["recs"]:
                differing.append((idx[0], i))
                break

    # every forced schedule is a run of DistProto
    exprs = {}
    for r in runs:
        if r["order"] == "free" or r["status"] != "ok":
            continue
        for t in r["trace"]:
            total, seq = t.split(":")
            seq = [int(k) for k in seq.split(".") if k != ""]
            ncand = int(total) // r["S"] if r["S"] else 0
            if ncand > 0:
                exprs.setdefault((r["S"], ncand, tuple(seq)), None)
    keys = sorted(exprs)
    # bound the model work: all distinct shapes up to 400 (the rest are repetitions of the same kind)
    keys = keys[:400]
    shape_bad = []
    model_vo = os.path.join(vlib.COQ, "theories", "Model", "DistProto.vo")
    validated = 0
    if os.path.exists(model_vo) and keys:
        try:
            vals = vlib.coq_eval(PREAMBLE, [shape_check_expr(S, c, list(seq)) for S, c, seq in keys], shard_size=30, tag="c05")
            for k, v in zip(keys, vals):
                validated += 1
                if v.strip() != "true":
                    shape_bad.append(k)
        except (RuntimeError, AssertionError, ValueError) as e:
            chk.broken.append("model evaluation failed: %s" % str(e)[-1500:])
    elif not os.path.exists(model_vo):
        chk.broken.append("model not built; schedules not validated")

    chk.coverage.update({
        "evaluations": len(runs),
        "histories": len(groups),
        "distinct_nontrivial": len(nontrivial),
        "rule": "a run = (tracker kind, tie-free history of 5-10 frames over 1-2 scenes with 2-8 objects, some in close pairs "
                "(cross IoU ~0.43 vs own ~0.8), shard count 1..8, forced finishing order of the workers' commands). non-trivial = >= 2 "
                "shards and an order other than the identity permutation; distinct by (history, shards, order)",
        "min_margin_milli_iou": min([r["margin"] for r in runs], default=None),
        "histories_redrawn_by_generator_for_low_margin": redrawn,
        "histories_skipped_for_low_margin": skipped_low_margin,
        "histories_skipped_exact_tie_in_reference": len(tie_groups),
        "samples": [r["raw"][:300] for r in runs[:2]],
        "input_distribution": dict(hist),
        "histories_with_differing_records": len(differing),
        "schedules_validated_against_DistProto": validated,
        "schedule_validation_failures": len(shape_bad),
        "runs_not_completed": len(bad_status),
    })

    # a history the generator failed to make tie-free is never evidence against the implementation: it is skipped
    if bad_status:
        r = runs[bad_status[0]]
        chk.violation("C05:" + r["status"].split(":")[0],
                      "a tracker run did not complete (%s) with %d shards, order %s, while the same history completes with other shard counts: %s"
                      % (r["kind"], r["S"], r["order"], r["status"]),
                      {"input": "kind=%s hist=%d S=%d order=%s seed=%s" % (r["kind"], r["hist"], r["S"], r["order"], chk.seed),
                       "replay_cmd": vlib.harness_bin("sched") + " c05 --seed %s --n %d --tier %s | grep 'hist=%d '" % (chk.seed, n, chk.tier, r["hist"]),
                       "broken": chk.broken})
    if differing:
        a, b = differing[0]
        ra, rb = runs[a], runs[b]
        chk.violation("C05:records-depend-on-shards-or-schedule",
                      "the same tie-free history (margin %d milli-IoU) yields different records: %s shards=%d order=%s vs shards=%d order=%s: %s"
                      % (ra["margin"], ra["kind"], ra["S"], ra["order"], rb["S"], rb["order"], first_diff(ra["recs"], rb["recs"])),
                      {"input": "kind=%s hist=%d seed=%s" % (ra["kind"], ra["hist"], chk.seed),
                       "run_a": {"S": ra["S"], "order": ra["order"], "recs": ra["recs"][:4]},
                       "run_b": {"S": rb["S"], "order": rb["order"], "recs": rb["recs"][:4], "forced_trace": rb["trace"][:4]},
                       "replay_cmd": vlib.harness_bin("sched") + " c05 --seed %s --n %d --tier %s | grep 'hist=%d '" % (chk.seed, n, chk.tier, ra["hist"]),
                       "histories_differing": len(differing), "broken": chk.broken})
    if not bad_status and not differing and (shape_bad or chk.broken):
        what = "proof or correspondence no longer checks: " + "; ".join(b.split("\n")[0][:200] for b in chk.broken)
        rep = {"broken": chk.broken}
        if shape_bad:
            rep["schedule_not_a_DistProto_run"] = {"S": shape_bad[0][0], "candidates": shape_bad[0][1], "executed": list(shape_bad[0][2])}
            what += " %d forced schedules are not complete runs of DistProto" % len(shape_bad)
        chk.violation("C05:tie-broken", what, rep, found_input=False)


def replay(chk, path):
    rep = json.load(open(path))
    ensure_cargo_cfg()
    vlib.harness_build(["sched"])
    print("re-run:", rep.get("replay_cmd"))
    rc, out = vlib.sh(rep.get("replay_cmd", "true"), timeout=900)
    runs = [parse(l) for l in out.split("\n") if l.startswith("c05 ")]
    redrawn = sum(int(l.split("redrawn=")[1]) for l in out.split("\n") if l.startswith("c05skip "))
    skipped_low_margin = len(set((r["kind"], r["hist"]) for r in runs if r["margin"] < 50))
    runs = [r for r in runs if r["margin"] >= 50]
    recs = set(tuple(r["recs"]) for r in runs if r["status"] == "ok")
    bad = len(recs) > 1 or any(r["status"] != "ok" for r in runs)
    print("runs: %d distinct record sets: %d" % (len(runs), len(recs)))
    print("REPRODUCED" if bad else "not reproduced")
    return 1 if bad else 0
