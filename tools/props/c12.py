"""C12 - VisualSORT: appearance votes first, positional fallback, truthful voting type.
Proof (Props/C12.v) + exact correspondence of the model (Model/VisualTracker.v) with the real VisualSort /
BatchVisualSort (harness bin `visual`) + an independent re-derivation of every decision from the observable galleries."""
import json
import os
import struct
import time
from collections import Counter
from fractions import Fraction
from itertools import product

import vlib
from vlib import q_lit, n_lit, z_lit, coq_list, coq_bool, f32_bits_to_fraction
from props import c13 as base

PREAMBLE = """From Coq Require Import List NArith ZArith QArith Bool.
From Similari Require Import Model.VisualAttrs Model.VisualTracker.
Import ListNotations.
Open Scope Q_scope.
"""

MARGIN = Fraction(1, 100000)
F32_MAX = f32_bits_to_fraction(0x7F7FFFFF)


def f32_round(x):
    return struct.unpack("<f", struct.pack("<f", x))[0]


def thr_z(spec):
    """(threshold * 1_000_000.0f32) as i64, threshold = IoU threshold or MAHALANOBIS_NEW_TRACK_THRESHOLD (1.0)"""
    t = 1.0 if spec["pos_iou"] is None else vlib.f32_bits_to_float(spec["pos_iou_bits"])
    return int(f32_round(t * 1000000.0))


def rederived_positional(spec, call, cu, tid):
    """IoU metric only: the positional metric value re-derived independently as f32(IoU * max(confidence,
    positional_min_confidence)) from the bare IoU of the two boxes and the candidate's confidence, and its scaled weight
    (w * 1e6) as i64.  None when the harness gave no bare IoU."""
    x = call.get("posx", {}).get((cu, tid))
    if spec["pos_iou"] is None or x is None or x[0] is None or x[1] is None:
        return None
    iou = vlib.f32_bits_to_float(x[0])
    conf = vlib.f32_bits_to_float(x[1])
    mc = float(spec["minconf"])
    c = mc if conf < mc else conf
    w = f32_round(iou * c)               # the f64 product of two f32 values is exact: one rounding, as in f32 arithmetic
    return Fraction(w), int(f32_round(w * 1000000.0))


def coq_topts(spec):
    vis = ("(Cosine %s)" if spec["vis_cos"] else "(Euclid %s)") % q_lit(spec["vis_thr"])
    pos = "Maha" if spec["pos_iou"] is None else "(IoU %s)" % q_lit(spec["pos_iou"])
    return "(mkTopts %s %s %s %s %d%%nat %d%%nat %s %s %s %s)" % (
        base.coq_gopts(spec), vis, pos, z_lit(thr_z(spec)), spec["votes"], spec["minlen"], q_lit(spec["quse"]),
        q_lit(spec["ownuse"]), n_lit(spec["idle"]), q_lit(F32_MAX))


def hints_of(case):
    """per call: the positional matches the implementation made (candidate uid, existing track id)"""
    known = set()
    res = []
    for call in case["calls"]:
        h = []
        if call["status"] == "ok":
            for d, r in zip(call["dets"], call["recs"]):
                if r["vt"] == "P" and r["id"] in known:
                    h.append((d["uid"], r["id"]))
            for r in call["recs"]:
                known.add(r["id"])
        res.append(h)
    return res


def coq_ecall(call, hint, live=None):
    """live: ids of the tracks that can possibly be compatible (a superset; the model decides compatibility itself).
    Entries for long-expired tracks are left out of the tables only to keep the lookups short."""
    fd = []
    for (cu, tid), tab in sorted(call["fd"].items()):
        if live is not None and tid not in live:
            continue
        for ou, bits in tab.items():
            if ou is None:
                continue
            fd.append("(%s, %s, %s)" % (n_lit(cu), n_lit(ou), q_lit(f32_bits_to_fraction(bits[0]))))
    pos = []
    for (cu, tid), lst in sorted(call["pos"].items()):
        if live is not None and tid not in live:
            continue
        wb, z = lst[0]
        pos.append("(%s, %s, (%s, %s))" % (n_lit(cu), n_lit(tid), q_lit(f32_bits_to_fraction(wb)), z_lit(z)))
    return "(mkECall %s %s %s %s %s)" % (
        n_lit(call["scene"]), coq_list([base.coq_det(d) for d in call["dets"]]), coq_list(fd), coq_list(pos),
        coq_list(["(%s, %s)" % (n_lit(a), n_lit(b)) for a, b in hint]))


def canon_ids(case):
    """BatchVisualSort issues ids in its own way (the property says "up to renaming"): rename the implementation's track
    ids by order of first appearance in the records, which is how the model numbers new tracks."""
    if case["spec"]["trk"] != "bvs":
        return case
    # a call without detections does not reach the batch tracker at all (no scene in the batch: no epoch step)
    case["calls"] = [c for c in case["calls"] if c["dets"] or c["status"] != "ok"]
    ren = {}
    for call in case["calls"]:
        for r in call["recs"]:
            if r["id"] not in ren:
                ren[r["id"]] = len(ren) + 1
    g = lambda i: ren.get(i, 1000000 + i)
    for call in case["calls"]:
        for r in call["recs"]:
            r["id"] = g(r["id"])
        call["trk"] = {g(k): dict(v, id=g(k)) for k, v in call["trk"].items()}
        call["fd"] = {(c, g(t)): v for (c, t), v in call["fd"].items()}
        call["pos"] = {(c, g(t)): v for (c, t), v in call["pos"].items()}
        call["posx"] = {(c, g(t)): v for (c, t), v in call.get("posx", {}).items()}
    case["end"] = {g(k): dict(v, id=g(k)) for k, v in case["end"].items()}
    case["wasted"] = {g(k): dict(v, id=g(k)) for k, v in case["wasted"].items()}
    return case


def good_calls(case):
    n = 0
    for call in case["calls"]:
        if call["status"] != "ok":
            break
        n += 1
    return n


def live_sets(case):
    """per call: ids of tracks of the call's scene updated at most idle+1 epochs ago (superset of the compatible ones)"""
    last = {}
    res = []
    for call in case["calls"]:
        res.append({tid for tid, (sc, ep) in last.items() if sc == call["scene"] and call["epoch"] - ep <= case["spec"]["idle"] + 1})
        for r in call["recs"]:
            last[r["id"]] = (r["scene"], r["epoch"])
    return res


def model_expr(case):
    n = good_calls(case)
    hints = hints_of(case)
    live = live_sets(case)
    return "run_case %s %s %s" % (coq_topts(case["spec"]), q_lit(MARGIN),
                                  coq_list([coq_ecall(c, h, l) for c, h, l in zip(case["calls"][:n], hints[:n], live[:n])]))


def _opt(v):
    if v is None:
        return None
    if isinstance(v, tuple) and v and v[0] == "Some":
        return v[1]
    return v


def compare_case(case, val):
    """-> (differences, stats)"""
    diffs = []
    stats = Counter()
    n = good_calls(case)
    if len(val) != n:
        return [("*", "model produced %d calls, implementation %d" % (len(val), n))], stats
    for ci, (call, mv) in enumerate(zip(case["calls"][:n], val)):
        recs, tracks, diag = mv
        tie, hint_ok, nclaims, nlost, nrem = diag
        stats["claims"] += nclaims
        stats["claims_lost"] += nlost
        stats["remaining_pairs"] += nrem
        if tie:
            stats["tie_stop"] += 1
            stats["calls_not_compared_after_tie"] += n - ci
            break
        stats["calls_compared"] += 1
        if not hint_ok:
            diffs.append((ci, "the implementation's positional matches are not a maximum-weight matching of the model's remaining pairs"))
        mrecs = [(r[0], r[1], r[2], "V" if r[3] else "P", _opt(r[4]), _opt(r[5])) for r in recs]
        irecs = [(r["id"], r["len"], r["epoch"], r["vt"], r["obs"], r["pred"]) for r in call["recs"]]
        if mrecs != irecs:
            diffs.append((ci, "records: impl %s model %s" % (irecs, mrecs)))
            break
        for t in tracks:
            tid, scene, epoch, vt, body = t
            gal, coll, ln, obs, pred, fh = body
            it = call["trk"].get(tid)
            if it is None:
                diffs.append((ci, "track %d not dumped" % tid))
                continue
            vt = _opt(vt)
            mvt = "N" if vt is None else ("V" if vt else "P")
            mg = [(Fraction(a, b), f, u) for (a, b, f, u) in gal]
            ig = [(e["q"], e["feat"], e["uid"]) for e in it["gal"]]
            if (scene, epoch, mvt, coll, ln) != (it["scene"], it["epoch"], it["vt"], it["coll"], it["len"]):
                diffs.append((ci, "track %d attributes: impl %s model %s" % (tid, (it["scene"], it["epoch"], it["vt"], it["coll"], it["len"]), (scene, epoch, mvt, coll, ln))))
            if mg != ig:
                diffs.append((ci, "track %d gallery: impl %s model %s" % (tid, [(float(a), b, c) for a, b, c in ig], [(float(a), b, c) for a, b, c in mg])))
            if obs != it["obs"] or pred != it["pred"] or [tuple(x) for x in fh] != it["feat"]:
                diffs.append((ci, "track %d histories differ" % tid))
        if diffs:
            break
    return diffs, stats


# ------------------------------------------------------------------------------------------------------------
# independent re-derivation of the decisions from the observable galleries (the property oracle)

def brute_best(rows, pairs, thr):
    """maximum of sum(matched z) + thr * unmatched rows over partial one-to-one matchings using `pairs` {(c,t): z}"""
    by_row = {c: [(t, z) for (cc, t), z in pairs.items() if cc == c] for c in rows}
    best = [None]

    def go(i, used, acc):
        if i == len(rows):
            if best[0] is None or acc > best[0]:
                best[0] = acc
            return
        c = rows[i]
        go(i + 1, used, acc + thr)
        for t, z in by_row[c]:
            if t not in used:
                go(i + 1, used | {t}, acc + z)
    go(0, frozenset(), 0)
    return best[0]


def oracle_case(case):
    spec = case["spec"]
    fails = []
    stats = Counter()
    tracks = {}            # id -> last dump (the observable state before the next call)
    tz = thr_z(spec)
    for ci, call in enumerate(case["calls"]):
        if call["status"] == "PANIC":
            fails.append(("panic", ci, "the tracker panicked"))
            break
        if call["status"] != "ok":
            break
        if len(call["recs"]) != len(call["dets"]):
            fails.append(("records", ci, "number of records differs from number of detections"))
            break
        pre = dict(tracks)
        e = call["epoch"]
        compat = {tid for tid, t in pre.items() if t["scene"] == call["scene"] and abs(e - t["epoch"]) <= spec["idle"]}
        # --- appearance claims, re-derived
        votes = {}
        for d in call["dets"]:
            usable = d["feat"] and d["area"] >= spec["minarea"] and d["q"] >= spec["quse"] and (d["own"] is None or d["own"] >= spec["ownuse"])
            if not usable:
                continue
            for tid in compat:
                t = pre[tid]
                if sum(1 for x in t["gal"] if x["feat"]) < spec["minlen"]:
                    continue
                tab = call["fd"].get((d["uid"], tid), {})
                ws = []
                for x in t["gal"]:
                    if not x["feat"]:
                        continue
                    b = tab.get(x["uid"])
                    if b is None:
                        fails.append(("oracle-table", ci, "no feature distance for candidate %d / stored observation %s" % (d["uid"], x["uid"])))
                        continue
                    dist = f32_bits_to_fraction(b[0])
                    if spec["vis_cos"]:
                        if dist >= spec["vis_thr"]:
                            ws.append(1 - dist)
                    else:
                        if dist <= spec["vis_thr"]:
                            ws.append(dist)
                if ws:
                    votes[(d["uid"], tid)] = ws
        allw = [w for ws in votes.values() for w in ws]
        maxd = max(allw + [Fraction(-1)])
        claim = {k: sum(maxd - w for w in ws) for k, ws in votes.items() if len(ws) >= spec["votes"]}
        claimants = {c for c, _ in claim}
        stats["claims"] += len(claim)
        # --- the records
        ids = [r["id"] for r in call["recs"]]
        if len(set(ids)) != len(ids):
            fails.append(("contest", ci, "two detections of one call were attached to the same track: %s" % ids))
        taken = set()
        for d, r in zip(call["dets"], call["recs"]):
            existing = r["id"] in pre
            u = d["uid"]
            if r["vt"] == "V":
                if not existing:
                    fails.append(("voting-type", ci, "detection %d started track %d but the record says visual voting" % (u, r["id"])))
                    continue
                taken.add(r["id"])
                stats["visual_attach"] += 1
                if (u, r["id"]) not in claim:
                    fails.append(("visual-attach-unsound", ci, "detection %d attached to track %d by appearance without a valid claim (usable feature at the use thresholds, track length, votes)" % (u, r["id"])))
                    continue
                w = claim[(u, r["id"])]
                for (c2, t2), w2 in claim.items():
                    if t2 == r["id"] and c2 != u:
                        stats["contested"] += 1
                        if w2 > w + MARGIN:
                            fails.append(("visual-winner-not-heaviest", ci, "track %d went to detection %d (weight %s) although detection %d claims it with weight %s" % (r["id"], u, float(w), c2, float(w2))))
            elif existing:
                stats["positional_attach"] += 1
                if u in claimants:
                    fails.append(("claimant-attached-positionally", ci, "detection %d has an appearance claim but was attached positionally to track %d" % (u, r["id"])))
            else:
                stats["new_track"] += 1
        # the heaviest sole claim must win
        for (u, tid), w in claim.items():
            if sum(1 for (c, _) in claim if c == u) != 1:
                continue
            if all(w2 < w - MARGIN for (c2, t2), w2 in claim.items() if t2 == tid and c2 != u):
                r = call["recs"][[d["uid"] for d in call["dets"]].index(u)]
                if r["id"] != tid or r["vt"] != "V":
                    fails.append(("heaviest-claimant-not-attached", ci, "detection %d is the heaviest claimant of track %d (its only claim) but its record is track %d / %s" % (u, tid, r["id"], r["vt"])))
        # --- positional stage among the claim-free detections and the tracks not taken by appearance
        pairs = {}
        for d in call["dets"]:
            if d["uid"] in claimants:
                continue
            for tid in compat:
                if tid in taken:
                    continue
                lst = call["pos"].get((d["uid"], tid))
                if not lst:
                    continue
                wb, z = lst[0]
                w = f32_bits_to_fraction(wb)
                rd = rederived_positional(spec, call, d["uid"], tid)
                if rd is not None:
                    # the gate and the weight come from the independent re-derivation (confidence raised to the minimum, as in SORT)
                    stats["positional_rederived"] += 1
                    if (rd[0], rd[1]) != (w, z):
                        fails.append(("positional-metric-value", ci, "detection %d / track %d: positional metric %.6f (weight %d), but IoU x max(confidence, positional_min_confidence) = %.6f (weight %d); IoU %.6f, confidence %.4f, minimal confidence %.2f" % (
                            d["uid"], tid, float(w), z, float(rd[0]), rd[1], vlib.f32_bits_to_float(call["posx"][(d["uid"], tid)][0]), vlib.f32_bits_to_float(call["posx"][(d["uid"], tid)][1]), float(spec["minconf"]))))
                    w, z = rd
                if spec["pos_iou"] is not None and w < spec["pos_iou"]:
                    continue
                pairs[(d["uid"], tid)] = z
        rows = sorted({c for c, _ in pairs})
        m_val = 0
        m_ok = True
        matched = set()
        for d, r in zip(call["dets"], call["recs"]):
            if r["vt"] == "P" and r["id"] in pre and d["uid"] not in claimants:
                z = pairs.get((d["uid"], r["id"]))
                if z is None:
                    fails.append(("positional-ungated", ci, "detection %d attached positionally to track %d without an admissible positional pair (gate, idle epochs, scene, or the track was taken by appearance)" % (d["uid"], r["id"])))
                    m_ok = False
                else:
                    m_val += z
                    matched.add(d["uid"])
        if m_ok and rows and len(rows) <= 7:
            m_val += tz * sum(1 for c in rows if c not in matched)
            best = brute_best(rows, pairs, tz)
            stats["positional_problems"] += 1
            if m_val != best:
                fails.append(("positional-not-maximum", ci, "positional association has value %d, the maximum-weight gated one-to-one association has %d" % (m_val, best)))
        # --- unmatched detections start new tracks; new ids are fresh and increasing
        mx = max(list(pre.keys()) + [0])
        for d, r in zip(call["dets"], call["recs"]):
            if r["id"] not in pre:
                if r["len"] != 1 or r["id"] <= mx:
                    fails.append(("new-track", ci, "detection %d: new track id %d (previous maximum %d), length %d" % (d["uid"], r["id"], mx, r["len"])))
                mx = max(mx, r["id"])
            elif d["uid"] not in claimants and not any(c == d["uid"] for c, _ in pairs):
                fails.append(("unmatched-not-new", ci, "detection %d matches nothing (no claim, no admissible positional pair) but continues track %d" % (d["uid"], r["id"])))
            if r["epoch"] != e:
                fails.append(("record-epoch", ci, "record epoch %d, scene epoch %d" % (r["epoch"], e)))
        for tid, t in call["trk"].items():
            tracks[tid] = t
    return fails, stats


def nontrivial(case):
    """a history counts when it has at least one visual attachment, one positional attachment and one new track after the first call"""
    v = p = nw = False
    known = set()
    for ci, call in enumerate(case["calls"]):
        if call["status"] != "ok":
            break
        for r in call["recs"]:
            if r["id"] in known:
                if r["vt"] == "V":
                    v = True
                else:
                    p = True
            elif ci > 0:
                nw = True
        for r in call["recs"]:
            known.add(r["id"])
    return v and p and nw


def run(chk):
    props = os.path.join(vlib.COQ, "theories", "Props", "C12.v")
    vlib.proof_stage(chk, props)
    if chk.tier == "thorough":
        vlib.coqchk_stage(chk, "Similari.Props.C12")
    ok, out = vlib.harness_build(["visual"])
    if not ok:
        chk.broken.append("harness build failed:\n" + out[-2000:])
        chk.violation("harness-build", "the correspondence harness does not build against /repo", {"log": out[-4000:]}, found_input=False)
        chk.coverage.update({"evaluations": 0})
        return
    n = 200 if chk.tier == "quick" else 2400
    t0 = time.time()
    rc, out, err = vlib.harness_run("visual", ["c12", "--seed", chk.seed, "--n", n, "--tier", chk.tier], timeout=1500)
    cases = [canon_ids(c) for c in base.parse_output(out)]
    chk.log("implementation ran %d histories (%.1fs)" % (len(cases), time.time() - t0))

    hist = Counter()
    ostats = Counter()
    oracle_fails = []
    nontriv = set()
    calls_total = 0
    for i, c in enumerate(cases):
        s = c["spec"]
        hist["tracker=%s" % s["trk"]] += 1
        hist["visual=%s" % ("cosine" if s["vis_cos"] else "euclidean")] += 1
        hist["positional=%s" % ("maha" if s["pos_iou"] is None else "iou")] += 1
        hist["min_votes=%d" % s["votes"]] += 1
        hist["min_len=%d" % s["minlen"]] += 1
        hist["own_area=%s" % ("on" if s["ownuse"] + s["owncol"] > 0 else "off")] += 1
        for call in c["calls"]:
            if call["status"] != "ok":
                hist["call_" + call["status"]] += 1
        calls_total += good_calls(c)
        for call in c["calls"]:
            # modelling assumption: only the newest stored observation of a track still has a box
            if any(len(l) > 1 for l in call["pos"].values()):
                hist["positional_metric_on_old_observation"] += 1
                chk.broken.append("case %d call %d: a positional metric exists for more than one stored observation of a track" % (s["k"], call["j"]))
        f, st = oracle_case(c)
        ostats.update(st)
        if f:
            oracle_fails.append((i, f))
        if nontrivial(c):
            nontriv.add(s["line"])

    model_diffs = []
    mstats = Counter()
    if os.path.exists(os.path.join(vlib.COQ, "theories", "Model", "VisualTracker.vo")):
        try:
            t1 = time.time()
            vals = vlib.coq_eval(PREAMBLE, [model_expr(c) for c in cases], shard_size=max(4, len(cases) // 16 + 1), tag="c12", timeout=1500)
            chk.log("model evaluated %d histories (%.1fs)" % (len(cases), time.time() - t1))
            for i, v in enumerate(vals):
                d, st = compare_case(cases[i], vlib.parse_coq_value(v))
                mstats.update(st)
                if d:
                    model_diffs.append((i, d))
        except RuntimeError as e:
            chk.broken.append("model evaluation failed: %s" % str(e)[-1500:])
    else:
        chk.broken.append("model not built")

    chk.coverage.update({
        "evaluations": len(cases),
        "calls": calls_total,
        "distinct_nontrivial": len(nontriv),
        "rule": "random VisualSort / BatchVisualSort histories: 2-5 objects with identity features on a dyadic grid (look-alikes share or nearly share "
                "an identity), crossing paths, occlusions of 1-4 calls, missing features, qualities below the use / collect thresholds, small boxes, "
                "1-2 scenes; options: Euclidean thresholds 0.5/1/2/MAX or cosine 0.5/0.9/0.98, IoU 0.25/0.3/0.5 or Mahalanobis, min votes 1-3, minimal "
                "track length 1-3, max observations 1-8, use/collect quality, minimal area, own-area shares. non-trivial = the history contains a visual "
                "attachment, a positional attachment and a new track after the first call; distinct by specification text",
        "samples": [c["spec"]["line"][:300] for c in cases[:3]],
        "input_distribution": dict(hist),
        "decisions_rederived": dict(ostats),
        "model_run": dict(mstats),
        "near_ties_skipped": mstats.get("tie_stop", 0),
        "model_vs_impl_disagreements": len(model_diffs),
        "spec_oracle_failures": len(oracle_fails),
    })

    if oracle_fails:
        i, f = oracle_fails[0]
        key0, ci0, what0 = f[0]
        c = cases[i]

        def fails(line):
            cs = [canon_ids(c) for c in base.run_spec_lines([line], tables=True)]
            return bool(cs) and any(k == key0 for k, _, _ in oracle_case(cs[0])[0])
        calls = [x for x in c["spec"]["calls_txt"].split(";") if x]
        line = base.spec_with_calls(c["spec"]["line"], ";".join(calls[:ci0 + 1]))
        if not fails(line):
            line = c["spec"]["line"]
        small = base.shrink_spec(line, fails, budget=40)
        cs = [canon_ids(c) for c in base.run_spec_lines([small], tables=True)]
        f2 = oracle_case(cs[0])[0] if cs else []
        chk.violation("C12:" + key0, what0,
                      {"input": small, "oracle_failures": [list(x) for x in (f2 or f)[:6]],
                       "other_failing_cases": len(oracle_fails) - 1,
                       "replay_cmd": "./check C12 --replay <this file>   (runs: visual replay --file <spec>)",
                       "broken": chk.broken, "model_disagreements": len(model_diffs)})
    elif model_diffs or chk.broken:
        what = "proof or correspondence no longer checks: " + "; ".join(b.split("\n")[0][:200] for b in chk.broken)
        rep = {"broken": chk.broken}
        if model_diffs:
            i, d = model_diffs[0]
            rep["correspondence_case"] = cases[i]["spec"]["line"]
            rep["input"] = cases[i]["spec"]["line"]
            rep["differences"] = [str(x)[:800] for x in d[:4]]
            what += " model/implementation differ on %d histories" % len(model_diffs)
        chk.violation("C12:tie-broken", what, rep, found_input=False)


def replay(chk, path):
    rep = json.load(open(path))
    ok, out = vlib.harness_build(["visual"])
    line = rep.get("input") or rep.get("correspondence_case")
    cs = [canon_ids(c) for c in base.run_spec_lines([line], tables=True)]
    f = oracle_case(cs[0])[0] if cs else [("no-output", 0, "harness printed nothing")]
    for x in f[:10]:
        print("oracle failure:", x)
    print("REPRODUCED" if f else "not reproduced")
    return 1 if f else 0
