"""C03 - track lifecycle (Sort, BatchSort): proof (Props/C03.v) + exact correspondence (shared with C01/C04) +
ledger oracle + PAIRED-RUN oracle (the same history under two auto-waste periodicities) on the implementation."""
from . import tracker_common as tc


def paired_period(chk, data, max_hist):
    """same history under periodicities 0 / 1 / 2 / 100: identical observable outputs.  Histories in which the
    optimum of some call is tied are skipped (the implementation may legitimately break the tie differently)."""
    hists, runs, corr = data["hists"], data["runs"], data["corr"]
    cand = [k for k, h in enumerate(hists) if tc.tie_free(h, runs[k])]
    cand = [k for k in cand if not tc.is_visual(hists[k])][:max_hist] + [k for k in cand if tc.is_visual(hists[k])][:max(40, max_hist // 4)]
    variants = []
    for k in cand:
        for p in tc.PERIODS:
            variants.append((k, p, tc.with_period(hists[k], p)))
    vruns = tc.run_impl([v for _, _, v in variants])
    by = {}
    for (k, p, v), r in zip(variants, vruns):
        by.setdefault(k, []).append((p, v, r))
    fails = {}
    compared = 0
    for k, lst in by.items():
        exact = tc.exact_ids(hists[k])
        base = None
        for p, v, r in lst:
            if r is None or not tc.tie_free(v, r):
                continue
            o = tc.observable(v, r, exact)
            if base is None:
                base = (p, o)
                continue
            compared += 1
            if o != base[1]:
                i = next((j for j, (x, y) in enumerate(zip(o, base[1])) if x != y), min(len(o), len(base[1])))
                key = "gc-observable:" + (v["ops"][i]["kind"] if i < len(v["ops"]) else "length")
                msg = ("the same history gives different observable outputs under periodicity %d and %d at op %d (%s): %s vs %s"
                       % (base[0], p, i, tc.op_text(v["ops"][i])[:60] if i < len(v["ops"]) else "-", str(base[1][i])[:300] if i < len(base[1]) else "-", str(o[i])[:300] if i < len(o) else "-"))
                fails.setdefault(key, (k, msg, base[0], p))
    return fails, compared, len(cand)


def run(chk):
    data = tc.common_stage(chk, "C03")
    if data is None:
        return
    tc.coverage_common(
        chk, data,
        "random interleavings of predict (possibly empty) / skip_epochs / wasted / idle_tracks / clear_wasted / "
        "set_auto_waste / active+wasted statistics / current_epoch over 1-4 scenes, max_idle 0-3, periodicity {0,1,2,100}, "
        "shards 1-4, Sort and BatchSort; exact model replay + ledger oracle + paired runs under all four periodicities. "
        "The model's auto-waste prologue (counter test/update: gen/ScalarTracker.v auto_waste_prologue_sort / _batch_sort) and its "
        "expiry comparison (gen/ScalarGate.v baked_wasted_cmp, from EpochDb::baked) are TRANSLATED from the Rust source on every run "
        "and enter the proofs only through TrackerScalarProofs.auto_waste_prologue_spec / baked_wasted_cmp_spec. "
        "non-trivial = at least one track expires while still uncollected in the live store AND an observing operation "
        "runs before it is collected; distinct by hash of (config, op list)",
        lambda cl: cl["gc_observed"])
    fails = {}
    for k, (h, r) in enumerate(zip(data["hists"], data["runs"])):
        if r is None:
            continue
        for (p, key, msg, i) in tc.oracle_history(h, r, want=("C03",)):
            fails.setdefault(key, (k, msg))
    found = tc.report_oracle_failures(chk, "C03", data, fails, lambda key: tc.ledger_fails("C03", key))
    pf, compared, nh = paired_period(chk, data, 150 if chk.tier == "quick" else 1500)
    chk.coverage["paired_runs"] = {"histories": nh, "pairs_compared": compared, "failing_keys": sorted(pf.keys()),
                                   "ledger_failing_keys": sorted(fails.keys())}
    for key, (k, msg, p1, p2) in sorted(pf.items())[:4]:
        h = data["hists"][k]

        def f(hh, p1=p1, p2=p2):
            a, b = tc.with_period(hh, p1), tc.with_period(hh, p2)
            ra, rb = tc.run_impl([a, b])
            if ra is None or rb is None or not tc.tie_free(a, ra) or not tc.tie_free(b, rb):
                return False
            ex = tc.exact_ids(hh)
            return tc.observable(a, ra, ex) != tc.observable(b, rb, ex)
        small = tc.shrink_history(h, f) if f(h) else h
        chk.violation("C03:" + key, msg, tc.replay_obj(small, msg, {"pair": {"kind": "period", "p1": p1, "p2": p2},
                                                                    "original_history": h["k"], "seed": chk.seed}))
        found = True
    found = tc.visual_report(chk, "C03", data, found)
    tc.report_correspondence(chk, "C03", data, found)


def replay(chk, path):
    return tc.generic_replay(chk, path, "C03")
