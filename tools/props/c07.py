"""C07 - Kalman filters.

proof:           Props/C07.v (block-diagonal invariant, code update = textbook update = scalar filter for whole
                 histories, SPD, Cholesky distance = Mahalanobis, stationary fixed point, vector filter pointwise,
                 cost gate consistency).
correspondence:  harness bin `kalman` drives the REAL Universal2DBoxKalmanFilter / Point2DKalmanFilter /
                 Vec2DKalmanFilter; the very Gallina definitions of Model/Kalman.v are evaluated by coqc on the same
                 inputs: (a) whole histories of 1-400 steps with binary64 (`Fops`), relative tolerance 2e-3 (mean) /
                 1e-2 (covariance); (b) short histories with exact rationals (`Qops`); (c) ONE step / ONE distance of
                 the exact model applied to the implementation's own previous state, tolerance = a few f32 ulps of
                 the magnitudes involved; (d) calculate_cost, exact.
property oracle: an independent python reading of the property text applied to the implementation's raw outputs:
                 every step = textbook constant-velocity Kalman step (full matrices, true inverse by Gauss-Jordan,
                 the library's height-scaled noise model) of the previous raw state; covariance symmetric and
                 positive definite (Cholesky of the full matrix); distance() = y^T S^-1 y; stationary object stays
                 put; vector filter = point filters bit for bit; inverted cost = 100 - direct cost for all probed d.

finding (f32):   without a symmetrisation of the covariance in update(), the rounding difference between P[k][n+k] and
                 P[n+k][k] is invariant under exact steps and is never damped while height-scaled noise lets the true
                 entries shrink like h^2: for a box whose height falls by a factor > ~1500 over a history the raw
                 covariance stops being positive definite (negative velocity variance).  The `deep-shrink` streams
                 exercise exactly this (x3500, x7700, x1e4, grow-then-shrink); a failure there carries the dedicated key
                 C07:box:cov-not-spd:deep-shrink.  Model/Kalman.v mirrors the repaired update (msym); in exact arithmetic
                 msym is the identity on symmetric matrices, so the theorems are the same with and without it.
"""
import json
import math
import os
import re
import struct
from collections import Counter
from fractions import Fraction
from multiprocessing import Pool

import vlib
from vlib import q_lit, coq_list

EPS32 = 2.0 ** -24
ULPS = 16.0            # one-step tolerance: ULPS * EPS32 * (sum of the magnitudes entering the entry)
TOL_MEAN = 2e-3        # whole-run binary64 model vs f32 implementation
TOL_COV = 1e-2
TOLQ_MEAN = 2e-4       # short exact-rational runs
TOLQ_COV = 1e-3
# Symmetry.  The implementation never symmetrises P: P[i][j] and P[j][i] are computed by different f32 summation
# orders, and in exact arithmetic BOTH predict and update leave the difference P[i][j] - P[j][i] unchanged (update
# subtracts the same correction from both).  So whatever rounding injects is never damped, while the entries
# themselves shrink with every update: after a run of missed detections (large cross-covariance) followed by
# re-acquisition the relative asymmetry reaches ~1e-2 of the current entries (observed 0.7%).  "Symmetric within
# rounding" is therefore read as: |P[i][j] - P[j][i]| <= the ACCUMULATED one-step rounding allowances of the history.

PREAMBLE = """From Coq Require Import List ZArith QArith Floats.
From Similari Require Import Base.Num Model.Kalman.
Import ListNotations.
Open Scope Q_scope.
"""

# the specification's noise model (DeepSORT multipliers), restated independently of the Coq model
K_INIT_POS, K_INIT_VEL = 2.0, 10.0
ASPECT_POS, ASPECT_VEL, ASPECT_PROJ = 1e-2, 1e-5, 1e-1


# ------------------------------------------------------------------------------------------------------------
# parsing of the harness output

def unbits(bs):
    return list(struct.unpack("<%df" % len(bs), struct.pack("<%dI" % len(bs), *bs))) if bs else []


def ints(s):
    return [int(x) for x in s.split(",") if x != ""]


def parse_ro(v):
    """read-out of a box: [xc, yc, angle or None, aspect, height] (floats), or 'X' when the conversion failed"""
    if v.startswith("X"):
        return "X"
    f = v.split(",")
    return [None if x == "N" else unbits([int(x)])[0] for x in f]


def expected_readout(m):
    """TryFrom<KalmanState> for Universal2DBox: (mean[0], mean[1], None iff mean[2] == 0 else Some(mean[2]), mean[3], mean[4])"""
    return [m[0], m[1], (None if m[2] == 0.0 else m[2]), m[3], m[4]]


def readout_differs(ro, m):
    if ro == "X" or ro is None:
        return "the conversion failed"
    exp = expected_readout(m)
    names = ["xc", "yc", "angle", "aspect", "height"]
    for i in range(5):
        if (ro[i] is None) != (exp[i] is None) or (ro[i] is not None and not ro[i] == exp[i]):
            return "%s read out as %r, the mean of the filter has %r" % (names[i], ro[i], exp[i])
    return None


def parse_ops(v):
    ops = []
    for o in v.split(";"):
        if o in ("", "-"):
            continue
        if o == "P":
            ops.append(None)
        else:
            ops.append([ints(p) for p in o[2:].split("|")])
    return ops


def parse_spec(line):
    toks = line.split()
    t = {"id": int(toks[1]), "ty": toks[2], "spec": line, "states": {}, "pstates": {}, "vdist": {}, "panic": None}
    for kv in toks[3:]:
        k, v = kv.split("=", 1)
        if k == "kind":
            t["kind"] = v
        elif k in ("wp", "wv"):
            t[k + "b"] = int(v)
            t[k] = unbits([int(v)])[0]
        elif k == "rot":
            t["rot"] = v == "1"
        elif k == "z0":
            t["z0b"] = [ints(p) for p in v.split("|")]
        elif k == "ops":
            t["opsb"] = parse_ops(v)
        elif k == "hist":
            t["histb"] = [parse_ops(h) for h in v.split("/")]
    t.setdefault("opsb", [])
    return t


def parse_output(out):
    trajs = {}
    costs = []
    for line in out.split("\n"):
        if line.startswith("spec "):
            t = parse_spec(line)
            trajs[t["id"]] = t
        elif line.startswith("st ") or line.startswith("pst "):
            toks = line.split()
            t = trajs[int(toks[1])]
            step, pt, op = int(toks[2]), int(toks[3]), toks[4]
            rec = {"step": step, "op": op}
            for kv in toks[5:]:
                k, v = kv.split("=", 1)
                if k == "dist":
                    rec["distb"] = None if v == "X" else int(v)
                    rec["dist"] = None if v == "X" else unbits([int(v)])[0]
                elif k == "ro":
                    rec["ro"] = parse_ro(v)
                else:
                    b = ints(v)
                    rec[k + "b"] = b
                    rec[k] = unbits(b)
            dst = t["states"] if toks[0] == "st" else t["pstates"]
            dst.setdefault(pt, []).append(rec)
        elif line.startswith("vdist "):
            toks = line.split()
            d = dict(kv.split("=", 1) for kv in toks[3:])
            trajs[int(toks[1])]["vdist"][int(toks[2])] = {k: ints(v) for k, v in d.items()}
        elif line.startswith("panic "):
            toks = line.split()
            trajs[int(toks[1])]["panic"] = (int(toks[2]), " ".join(toks[3:]))
        elif line.startswith("cost "):
            toks = line.split()
            costs.append((toks[1], int(toks[2]), toks[3] == "1", int(toks[4])))
    return trajs, costs


def tracks_of(trajs):
    """one track per (history, point): the unit on which the filter model and the oracle work"""
    tracks = []
    for t in trajs.values():
        for pt, states in sorted(t["states"].items()):
            fty = "box" if t["ty"] == "box" else "point"
            ops = [None if o is None else unbits(o[pt]) for o in t["opsb"]]
            must = []
            if t["ty"] == "hvec":
                # private history of this point, then the joint operations on the assembled vector
                own = [None if o is None else unbits(o[0]) for o in t["histb"][pt]]
                must = list(range(len(own), len(own) + len(ops) + 1))     # states produced / measured by the VECTOR API
                ops = own + ops
            tracks.append({"must_steps": must,"tid": (t["id"], pt), "ty": fty, "hty": t["ty"], "kind": t.get("kind", "?"),
                           "wp": t["wp"], "wv": t["wv"], "wpb": t["wpb"], "wvb": t["wvb"], "rot": t.get("rot", False),
                           "z0": unbits(t["z0b"][pt]), "ops": ops, "states": states, "spec": t["spec"],
                           "n": 5 if fty == "box" else 2})
    return tracks


DEEP_SHRINK = 300.0     # cumulative height shrink beyond which the f32 covariance is known to drift (own key)


def shrink_ratio(tr, upto):
    """largest measured height so far / smallest measured height so far, over the first `upto` operations (box)"""
    if tr["ty"] != "box":
        return 1.0
    hs = [tr["z0"][4]] + [o[4] for o in tr["ops"][:upto] if o is not None]
    best = 1.0
    hi = hs[0]
    for h in hs:
        hi = max(hi, h)
        if h > 0:
            best = max(best, hi / h)
    return best


def single_spec(tr, nops=None, start=0):
    """spec line that replays one track (a vector history is replayed as a stand-alone point history)"""
    def b(xs):
        return ",".join(str(struct.unpack("<I", struct.pack("<f", x))[0]) for x in xs)
    ops = tr["ops"][start:(len(tr["ops"]) if nops is None else nops)]
    z0 = tr["z0"]
    return "spec 0 %s kind=replay wp=%d wv=%d rot=%d z0=%s ops=%s" % (
        tr["ty"], tr["wpb"], tr["wvb"], 1 if tr["rot"] else 0, b(z0),
        ";".join("P" if o is None else "U:" + b(o) for o in ops))


# ------------------------------------------------------------------------------------------------------------
# the independent oracle: textbook Kalman filter on full matrices (python floats = binary64)

def noise_std(ty, wp, wv, which, h):
    if ty == "box":
        kp, kv = (K_INIT_POS, K_INIT_VEL) if which == "init" else (1.0, 1.0)
        p = [kp * wp * h] * 5
        p[3] = ASPECT_PROJ if which == "proj" else ASPECT_POS
        if which == "proj":
            return p
        v = [kv * wv * h] * 5
        v[3] = ASPECT_VEL
        return p + v
    kp, kv = (K_INIT_POS, K_INIT_VEL) if which == "init" else (1.0, 1.0)
    if which == "proj":
        return [kp * wp] * 2
    return [kp * wp] * 2 + [kv * wv] * 2


def mat(flat, N):
    return [flat[i * N:(i + 1) * N] for i in range(N)]


def tb_initiate(ty, wp, wv, z):
    n = 5 if ty == "box" else 2
    N = 2 * n
    std = noise_std(ty, wp, wv, "init", z[4] if ty == "box" else 0.0)
    mean = list(z[:n]) + [0.0] * n
    cov = [[(std[i] * std[i] if i == j else 0.0) for j in range(N)] for i in range(N)]
    return mean, cov


def tb_predict(ty, wp, wv, m, P):
    """x' = F x, P' = F P F^T + Q with F = [[I, I],[0, I]] (no assumption on P). Also returns magnitude sums."""
    n = len(m) // 2
    N = 2 * n
    std = noise_std(ty, wp, wv, "motion", m[4] if ty == "box" else 0.0)
    m2 = [m[i] + m[n + i] for i in range(n)] + list(m[n:])
    tm = [abs(m[i]) + abs(m[n + i]) for i in range(n)] + [abs(x) for x in m[n:]]
    P2 = [[0.0] * N for _ in range(N)]
    T2 = [[0.0] * N for _ in range(N)]
    for i in range(n):
        Pi, Pni = P[i], P[n + i]
        for j in range(n):
            a, b, c, d = Pi[j], Pni[j], Pi[n + j], Pni[n + j]
            P2[i][j] = a + b + c + d
            T2[i][j] = abs(a) + abs(b) + abs(c) + abs(d)
            P2[i][n + j] = c + d
            T2[i][n + j] = abs(c) + abs(d)
            P2[n + i][j] = b + d
            T2[n + i][j] = abs(b) + abs(d)
            P2[n + i][n + j] = d
            T2[n + i][n + j] = abs(d)
    for i in range(N):
        q = std[i] * std[i]
        P2[i][i] += q
        T2[i][i] += q
    return m2, P2, tm, T2


def inverse(S):
    """Gauss-Jordan with partial pivoting; None if singular"""
    n = len(S)
    A = [list(S[i]) + [1.0 if i == j else 0.0 for j in range(n)] for i in range(n)]
    for c in range(n):
        p = max(range(c, n), key=lambda r: abs(A[r][c]))
        if A[p][c] == 0.0 or A[p][c] != A[p][c]:
            return None
        A[c], A[p] = A[p], A[c]
        piv = A[c][c]
        A[c] = [x / piv for x in A[c]]
        for r in range(n):
            if r != c and A[r][c] != 0.0:
                f = A[r][c]
                A[r] = [x - f * y for x, y in zip(A[r], A[c])]
    return [row[n:] for row in A]


def innovation_cov(ty, wp, wv, m, P):
    n = len(m) // 2
    std = noise_std(ty, wp, wv, "proj", m[4] if ty == "box" else 0.0)
    return [[P[i][j] + (std[i] * std[i] if i == j else 0.0) for j in range(n)] for i in range(n)]


def tb_update(ty, wp, wv, m, P, z):
    """K = P H^T S^-1, x' = x + K (z - H x), P' = P - K S K^T with H = [I 0]."""
    n = len(m) // 2
    N = 2 * n
    S = innovation_cov(ty, wp, wv, m, P)
    Si = inverse(S)
    if Si is None:
        return None
    K = [[sum(P[i][l] * Si[l][j] for l in range(n)) for j in range(n)] for i in range(N)]
    y = [z[i] - m[i] for i in range(n)]
    m2 = [m[i] + sum(K[i][j] * y[j] for j in range(n)) for i in range(N)]
    tm = [abs(m[i]) + sum(abs(K[i][j]) * (abs(z[j]) + abs(m[j])) for j in range(n)) for i in range(N)]
    KS = [[sum(K[i][k] * S[k][l] for k in range(n)) for l in range(n)] for i in range(N)]
    aKS = [[sum(abs(K[i][k] * S[k][l]) for k in range(n)) for l in range(n)] for i in range(N)]
    P2 = [[P[i][j] - sum(KS[i][l] * K[j][l] for l in range(n)) for j in range(N)] for i in range(N)]
    T2 = [[abs(P[i][j]) + sum(aKS[i][l] * abs(K[j][l]) for l in range(n)) for j in range(N)] for i in range(N)]
    return m2, P2, tm, T2


def mahalanobis(ty, wp, wv, m, P, z):
    n = len(m) // 2
    S = innovation_cov(ty, wp, wv, m, P)
    Si = inverse(S)
    if Si is None:
        return None
    y = [z[i] - m[i] for i in range(n)]
    d = sum(y[i] * Si[i][j] * y[j] for i in range(n) for j in range(n))
    t = sum(abs(y[i] * Si[i][j] * y[j]) for i in range(n) for j in range(n))
    return d, t


def is_spd(P):
    """Cholesky of the symmetrised full matrix succeeds with positive pivots"""
    N = len(P)
    L = [[0.0] * N for _ in range(N)]
    for j in range(N):
        s = 0.5 * (P[j][j] + P[j][j]) - sum(L[j][k] * L[j][k] for k in range(j))
        if not s > 0.0:
            return False
        d = math.sqrt(s)
        L[j][j] = d
        for i in range(j + 1, N):
            L[i][j] = (0.5 * (P[i][j] + P[j][i]) - sum(L[i][k] * L[j][k] for k in range(j))) / d
    return True


def step_expect(tr, k):
    """textbook step k (1-based) from the implementation's raw state k-1; k = 0: initiate"""
    ty, wp, wv = tr["ty"], tr["wp"], tr["wv"]
    N = 2 * tr["n"]
    if k == 0:
        m, P = tb_initiate(ty, wp, wv, tr["z0"])
        return m, P, [abs(x) for x in m], [[abs(x) for x in r] for r in P]
    pre = tr["states"][k - 1]
    m0, P0 = pre["mean"], mat(pre["cov"], N)
    op = tr["ops"][k - 1]
    if op is None:
        return tb_predict(ty, wp, wv, m0, P0)
    return tb_update(ty, wp, wv, m0, P0, op)


def oracle_track(tr):
    """All property checks on one track. Returns (failures, stats); a failure = (step, key, detail)."""
    fails = []
    n = tr["n"]
    N = 2 * n
    ty, wp, wv = tr["ty"], tr["wp"], tr["wv"]
    worst = {"mean": 0.0, "cov": 0.0, "sym": 0.0, "dist": 0.0, "rel_asym": 0.0}
    offstruct = 0
    tol = ULPS * EPS32
    stationary = tr["kind"].endswith("stationary")
    acc = [[0.0] * N for _ in range(N)]      # accumulated rounding allowance for P[i][j] - P[j][i]
    for k, st in enumerate(tr["states"]):
        if st["step"] != k:
            fails.append((k, "harness-order", "state records out of order"))
            break
        m, P = st["mean"], mat(st["cov"], N)
        if any(x != x or abs(x) == float("inf") for x in m) or any(x != x or abs(x) == float("inf") for x in st["cov"]):
            fails.append((k, "not-finite", "mean / covariance contains NaN or infinity"))
            break
        exp = step_expect(tr, k)
        if exp is None:
            fails.append((k, "singular-S", "innovation covariance of the previous state is singular"))
            break
        em, eP, tm, tP = exp
        for i in range(N):
            lim = tol * tm[i] + 1e-30
            r = abs(m[i] - em[i]) / lim
            worst["mean"] = max(worst["mean"], r)
            if r > 1.0:
                fails.append((k, "mean-differs-from-textbook",
                              "mean[%d] = %r, textbook step of the previous state gives %r (allowed %.3g)" % (i, m[i], em[i], lim)))
                break
        for i in range(N):
            for j in range(N):
                acc[i][j] += tol * (tP[i][j] + tP[j][i])
        for i in range(N):
            bad = False
            for j in range(N):
                lim = tol * tP[i][j] + 1e-30
                r = abs(P[i][j] - eP[i][j]) / lim
                worst["cov"] = max(worst["cov"], r)
                if r > 1.0:
                    fails.append((k, "cov-differs-from-textbook",
                                  "cov[%d][%d] = %r, textbook step of the previous state gives %r (allowed %.3g)" % (i, j, P[i][j], eP[i][j], lim)))
                    bad = True
                    break
                rs = abs(P[i][j] - P[j][i]) / (acc[i][j] + 1e-30)
                worst["sym"] = max(worst["sym"], rs)
                if P[i][j] != P[j][i]:
                    worst["rel_asym"] = max(worst["rel_asym"], abs(P[i][j] - P[j][i]) / (math.sqrt(abs(P[i][i] * P[j][j])) + 1e-300))
                if rs > 1.0:
                    fails.append((k, "cov-not-symmetric", "cov[%d][%d] = %r but cov[%d][%d] = %r (accumulated rounding allowance %.3g)" % (i, j, P[i][j], j, i, P[j][i], acc[i][j])))
                    bad = True
                    break
                if i != j and i != j + n and j != i + n and P[i][j] != 0.0:
                    offstruct += 1
            if bad:
                break
        # the reported mean (the public read-out of the state) is the mean of the filter; the angle is None iff it is 0
        if ty == "box" and "ro" in st:
            d = readout_differs(st["ro"], m)
            if d is not None:
                fails.append((k, "readout-differs-from-mean", "Universal2DBox::try_from(state): " + d))
        if not is_spd(P):
            fails.append((k, "cov-not-spd", "the covariance is not positive definite (Cholesky of the full matrix fails)"))
        # distance = squared Mahalanobis distance of the probe from the projected state
        if st["dist"] is None:
            fails.append((k, "distance-panics", "distance() panicked on probe %r" % (st["probe"],)))
        else:
            md = mahalanobis(ty, wp, wv, m, P, st["probe"])
            if md is not None:
                d, t = md
                lim = 4 * tol * t + 1e-30
                r = abs(st["dist"] - d) / lim
                worst["dist"] = max(worst["dist"], r)
                if r > 1.0:
                    fails.append((k, "distance-not-mahalanobis", "distance() = %r, y^T S^-1 y = %r (allowed %.3g)" % (st["dist"], d, lim)))
        if stationary:
            for i in range(N):
                want = tr["z0"][i] if i < n else 0.0
                if abs(m[i] - want) > 1e-6 * max(1.0, abs(want)):
                    fails.append((k, "stationary-moves", "all measurements equal %r but mean[%d] = %r" % (tr["z0"], i, m[i])))
                    break
        if fails:
            break
    return tr["tid"], fails, worst, offstruct


# ------------------------------------------------------------------------------------------------------------
# the Coq side

def ql(xs):
    return coq_list([q_lit(Fraction(x)) for x in xs])


def finite(xs):
    return all(x == x and abs(x) != float("inf") for x in xs)


def filt(tr, arith):
    if arith == "F":
        return "(%s_filter Fops (fq %s) (fq %s))" % (tr["ty"], q_lit(Fraction(tr["wp"])), q_lit(Fraction(tr["wv"])))
    return "(%s_filter Qops %s %s)" % (tr["ty"], q_lit(Fraction(tr["wp"])), q_lit(Fraction(tr["wv"])))


def ops_lit(ops):
    return coq_list(["None" if o is None else "(Some %s)" % ql(o) for o in ops])


def pick_covsteps(L, rng_seed):
    s = {0, L}
    a, b = 1, 2
    while a <= L:
        s.add(a)
        a, b = b, a + b
    x = (rng_seed * 2654435761) & 0xFFFFFFFF
    for _ in range(8):
        x = (x * 1103515245 + 12345) & 0x7FFFFFFF
        s.add(x % (L + 1))
    return sorted(s)


def case_expr(tr, arith, covsteps):
    probes = [tr["states"][k]["probe"] for k in covsteps]
    return "%s_case %s %s %s %s%%nat %s" % (
        "f" if arith == "F" else "q", filt(tr, arith), ql(tr["z0"]), ops_lit(tr["ops"][:len(tr["states"]) - 1]),
        coq_list([str(k) for k in covsteps]), coq_list([ql(p) for p in probes]))


def pairs_of(s):
    xs = [int(x) for x in re.findall(r"-?\d+", s)]
    return list(zip(xs[0::2], xs[1::2]))


def fval(p):
    m, e = p
    if e == 99999:
        return float("nan") if m == 0 else m * float("inf")
    try:
        return math.ldexp(m, e)
    except OverflowError:
        return float("inf") if m > 0 else float("-inf")


def qval(p):
    return float(Fraction(p[0], p[1]))


def decode_case(s, n, nsteps, covsteps, arith):
    """-> list over steps of (mean, cov-or-None, dists-or-None)"""
    N = 2 * n
    ps = pairs_of(s)
    conv = fval if arith == "F" else qval
    nd = 2 if arith == "F" else 1
    out = []
    pos = 0
    cs = set(covsteps)
    for k in range(nsteps):
        if k in cs:
            mean = [conv(p) for p in ps[pos:pos + N]]
            pos += N
            cov = [conv(p) for p in ps[pos:pos + N * N]]
            pos += N * N
            d = [conv(p) for p in ps[pos:pos + nd]]
            pos += nd
            out.append((mean, cov, d))
        else:
            out.append((None, None, None))
    if pos != len(ps):
        raise RuntimeError("model output has %d numbers, expected %d" % (len(ps), pos))
    return out


def mean_scales(tr, mm):
    n = tr["n"]
    if tr["ty"] == "box":
        h = abs(mm[4])
        pos = [max(abs(mm[0]), h), max(abs(mm[1]), h), max(abs(mm[2]), 1.0), max(abs(mm[3]), 1.0), max(h, 1.0)]
    else:
        pos = [max(abs(mm[i]), 1.0) for i in range(n)]
    vel = [max(abs(mm[n + i]), 0.05 * pos[i]) for i in range(n)]
    return pos + vel


def compare_run(tr, model, tolm, tolc):
    """whole-run comparison; returns (first disagreement or None, worst ratios)"""
    N = 2 * tr["n"]
    worst_m = worst_c = 0.0
    first = None
    for k, (mm, mc, _) in enumerate(model):
        if mm is None:
            continue
        st = tr["states"][k]
        sc = mean_scales(tr, mm)
        for i in range(N):
            r = abs(st["mean"][i] - mm[i]) / (tolm * sc[i])
            if not r <= 1.0 and first is None:
                first = (k, "mean[%d]: implementation %r, model %r" % (i, st["mean"][i], mm[i]))
            worst_m = max(worst_m, r if r == r else float("inf"))
        if mc is not None:
            for i in range(N):
                for j in range(N):
                    s = max(abs(mc[i * N + j]), math.sqrt(abs(mc[i * N + i] * mc[j * N + j])))
                    r = abs(st["cov"][i * N + j] - mc[i * N + j]) / (tolc * s + 1e-300)
                    if not r <= 1.0 and first is None:
                        first = (k, "cov[%d][%d]: implementation %r, model %r" % (i, j, st["cov"][i * N + j], mc[i * N + j]))
                    worst_c = max(worst_c, r if r == r else float("inf"))
    return first, worst_m, worst_c


# ------------------------------------------------------------------------------------------------------------
# cost conversion

def f32round(fr):
    return struct.unpack("<f", struct.pack("<f", float(fr)))[0]


def cost_checks(costs, chi2_dec):
    """identity on the implementation + exact comparison with the model's value (computed here from the model's
    definition with the decimal constants; the Coq evaluation of the same probes is done in run())"""
    by = {}
    for (ty, db, inv, ob) in costs:
        by.setdefault((ty, db), {})[inv] = ob
    ident_fail = []
    for (ty, db), r in sorted(by.items()):
        if True not in r or False not in r:
            continue
        d = unbits([db])[0]
        direct = unbits([r[False]])[0]
        inverted = unbits([r[True]])[0]
        want = f32round(Fraction(100) - Fraction(direct))
        if inverted != want:
            ident_fail.append((ty, db, d, direct, inverted, want))
    return by, ident_fail


# ------------------------------------------------------------------------------------------------------------

def vec_pointwise_failures(trajs):
    """vector filter (st) vs stand-alone point filter (pst) on every element, bit for bit: mean, covariance,
    distance; and Vec2DKalmanFilter::calculate_cost vs Point2DKalmanFilter::calculate_cost on every distance"""
    bad = []
    cmp = 0
    for t in trajs.values():
        if t["ty"] not in ("vec", "hvec"):
            continue
        for pt, sts in sorted(t["states"].items()):
            ps = {r["step"]: r for r in t["pstates"].get(pt, [])}
            for st in sts:
                cmp += 1
                p = ps.get(st["step"])
                if p is None:
                    bad.append((t, pt, st["step"], "no point-filter record", st, None))
                    break
                what = None
                if st["meanb"] != p["meanb"]:
                    what = "mean"
                elif st["covb"] != p["covb"]:
                    what = "covariance"
                elif st["distb"] != p["distb"]:
                    what = "distance"
                if what:
                    bad.append((t, pt, st["step"], what, st, p))
                    break
        for step, r in sorted(t["vdist"].items()):
            if "pdirect" in r and (r["direct"] != r["pdirect"] or r["inverted"] != r["pinverted"]):
                bad.append((t, -1, step, "calculate_cost", {"mean": None, "dist": None}, None))
    return bad, cmp


def hvec_spec(t, keep, hist_len, njoint):
    """spec line of a heterogeneous vector history restricted to the points `keep`, private histories truncated to
    hist_len[k] operations and the first njoint joint operations"""
    def b(xs):
        return ",".join(str(x) for x in xs)
    def ops_s(ops):
        return ";".join("P" if o is None else "U:" + "|".join(b(p) for p in o) for o in ops) or "-"
    z0 = "|".join(b(t["z0b"][k]) for k in keep)
    hist = "/".join(ops_s(t["histb"][k][:hist_len[k]]) for k in keep)
    joint = [None if o is None else [o[k] for k in keep] for o in t["opsb"][:njoint]]
    return "spec 0 hvec kind=replay wp=%d wv=%d rot=0 z0=%s ops=%s hist=%s" % (t["wpb"], t["wvb"], z0, ops_s(joint), hist)


def shrink_hvec(t, pt):
    """smallest heterogeneous vector (two points, shortest private histories, no joint operations if possible) on
    which the vector filter still differs from the point filters"""
    def fails(spec):
        trajs, _ = replay_spec(spec)
        bad, _ = vec_pointwise_failures(trajs)
        return bad[0] if bad else None
    n = len(t["z0b"])
    full = {k: len(t["histb"][k]) for k in range(n)}
    best = None
    cands = [[0, pt]] if pt not in (0, -1) else [[0, k] for k in range(1, n)]
    cands.append(list(range(n)))
    for keep in cands:
        for nj in (0, len(t["opsb"])):
            spec = hvec_spec(t, keep, full, nj)
            r = fails(spec)
            if r is None:
                continue
            hl = dict(full)
            # shorten the private histories greedily, one point at a time
            for k in keep:
                for L in range(0, full[k]):
                    trial = dict(hl)
                    trial[k] = L
                    r2 = fails(hvec_spec(t, keep, trial, nj))
                    if r2 is not None:
                        hl = trial
                        r = r2
                        break
            best = (hvec_spec(t, keep, hl, nj), r, keep, hl)
            return best
    return best


# ------------------------------------------------------------------------------------------------------------
# make_prediction: several tracker configurations with different weights in ONE process

def parse_mp(out):
    """-> (list of mpspec lines, list of records)"""
    specs = []
    recs = []
    for line in out.split("\n"):
        if line.startswith("mpspec "):
            specs.append(line)
        elif line.startswith("mp "):
            toks = line.split()
            r = {"cfg": int(toks[1]), "kind": toks[2], "run": len(specs) - 1}
            for kv in toks[3:]:
                k, v = kv.split("=", 1)
                if k in ("wp", "wv"):
                    r[k + "b"] = int(v)
                    r[k] = unbits([int(v)])[0]
                elif k == "frame":
                    r["frame"] = int(v)
                elif k == "got" and v.startswith("X"):
                    r["gotb"] = None
                    r["got_err"] = v
                elif k == "got":
                    r["gotb"] = v
                    r["got"] = parse_ro(v)
                elif k == "refraw":
                    r["refrawb"] = ints(v)
                    r["ref"] = expected_readout(unbits(r["refrawb"]))
                else:
                    r[k + "b"] = ints(v)
                    r[k] = unbits(r[k + "b"])
            recs.append(r)
    return specs, recs


def mp_failures(recs):
    """the box returned by make_prediction / SortTrack::predicted_bbox must be, bit for bit, the one of the box
    filter built with the weights of ITS OWN tracker (value comparison: -0.0 == 0.0)"""
    bad = []
    unassoc = 0
    for r in recs:
        if r["gotb"] is None:
            if r.get("got_err", "").startswith("X:panic"):
                bad.append((r, "panicked"))
            else:
                unassoc += 1
            continue
        if any((g is None) != (e is None) or (g is not None and not (g == e)) for g, e in zip(r["got"], r["ref"])):
            bad.append((r, "differs"))
    return bad, unassoc


def mp_cfgs(spec):
    return spec[len("mpspec "):].strip().split("/")


def mp_trunc(cfg, frames):
    kind, wp, wv, obs = cfg.split(":")
    return ":".join([kind, wp, wv, "|".join(obs.split("|")[:frames])])


def shrink_mp(spec, r):
    """smallest process-level sequence: one earlier configuration (1 frame) + the failing one (fewest frames)"""
    cfgs = mp_cfgs(spec)
    j = r["cfg"]
    def fails(line):
        rc, out, err = run_harness_replay(line)
        _, recs = parse_mp(out)
        bad, _ = mp_failures(recs)
        return bad[0] if bad else None
    cands = ["mpspec " + mp_trunc(cfgs[j], r["frame"] + 1)]      # the configuration alone (not a weights problem then)
    for i in list(range(j)):
        for fr in (2, 3, r["frame"] + 1):
            cands.append("mpspec " + mp_trunc(cfgs[i], 1) + "/" + mp_trunc(cfgs[j], fr))
    cands.append("mpspec " + mp_trunc(cfgs[j], r["frame"] + 1))
    cands.append("mpspec " + "/".join(cfgs[:j] + [mp_trunc(cfgs[j], r["frame"] + 1)]))
    for line in cands[:40]:
        b = fails(line)
        if b is not None:
            return line, b
    return None


def run_harness_replay(line):
    path = os.path.join(vlib.ALT or vlib.CACHE, "c07_replay_%d.txt" % os.getpid())
    with open(path, "w") as fh:
        fh.write(line + "\n")
    r = run_harness(["replay", "--file", path])
    os.remove(path)
    return r


def mp_describe(line):
    out = []
    for c in mp_cfgs(line):
        kind, wp, wv, obs = c.split(":")
        out.append({"tracker": {"attrs": "custom TrackAttributesKalmanPrediction implementer", "sort": "Sort (IoU)",
                                "sortm": "Sort (Mahalanobis)", "vsort": "VisualSort (IoU, no features)"}.get(kind, kind),
                    "position_weight": unbits([int(wp)])[0], "velocity_weight": unbits([int(wv)])[0],
                    "observations [xc, yc, angle, aspect, height]": [unbits(ints(o)) for o in obs.split("|")]})
    return out


def run_harness(args):
    rc, out, err = vlib.harness_run("kalman", args)
    return rc, out, err


def replay_spec(spec_line):
    path = os.path.join(vlib.ALT or vlib.CACHE, "c07_replay_%d.txt" % os.getpid())
    with open(path, "w") as fh:
        fh.write(spec_line + "\n")
    rc, out, err = run_harness(["replay", "--file", path])
    os.remove(path)
    trajs, costs = parse_output(out)
    return trajs, costs


def shrink_track(tr, step, key):
    """shortest history (prefix, then dropped leading operations) on which the oracle still reports `key`"""
    def fails(spec):
        trajs, _ = replay_spec(spec)
        ts = tracks_of(trajs)
        if not ts:
            return None
        _, fl, _, _ = oracle_track(ts[0])
        for f in fl:
            if f[1] == key:
                return ts[0], f
        return None
    best = None
    spec = single_spec(tr, nops=step)
    r = fails(spec)
    if r is None:
        return None
    best = (spec, r[0], r[1])
    start = 0
    tries = 0
    L = step
    while tries < 14 and L - start > 1:
        cand = start + max(1, (L - start) // 2)
        spec = single_spec(tr, nops=step, start=cand)
        r = fails(spec)
        tries += 1
        if r is not None:
            best = (spec, r[0], r[1])
            start = cand
        else:
            L = cand if cand > start + 1 else start + 1
            if L <= start + 1:
                break
    return best


def run(chk):
    props = os.path.join(vlib.COQ, "theories", "Props", "C07.v")
    vlib.proof_stage(chk, props)
    if chk.tier == "thorough":
        vlib.coqchk_stage(chk, "Similari.Props.C07")

    ok, out = vlib.harness_build(["kalman"])
    if not ok:
        chk.broken.append("harness build failed:\n" + out[-2000:])
        chk.violation("harness-build", "the correspondence harness does not build against the repository",
                      {"log": out[-4000:]}, found_input=False)
        chk.coverage.update({"evaluations": 0})
        return
    n = 40 if chk.tier == "quick" else 240
    rc, out, err = run_harness(["gen", "--seed", chk.seed, "--n", n])
    trajs, _ = parse_output(out)
    rc2, out2, err2 = run_harness(["costs", "--seed", chk.seed, "--n", 200 if chk.tier == "quick" else 5000])
    _, costs = parse_output(out2)
    mp_specs, mp_recs = [], []
    for k in range(3 if chk.tier == "quick" else 12):
        # every run is ONE process with 8 tracker configurations of different weights (order varies with the seed)
        rcm, outm, errm = run_harness(["mkpred", "--seed", int(chk.seed) * 100 + k, "--n", 8])
        sp, rc_ = parse_mp(outm)
        for r in rc_:
            r["run"] = len(mp_specs)
        mp_specs += sp
        mp_recs += rc_
    tracks = tracks_of(trajs)
    nstates = sum(len(t["states"]) for t in tracks)
    chk.log("implementation ran %d histories (%d tracks, %d states), %d cost probes" % (len(trajs), len(tracks), nstates, len(costs)))

    violations = []     # (key, what, replay)
    hist = Counter()
    for t in trajs.values():
        hist["%s:%s" % (t["ty"], t.get("kind", "?"))] += 1
        L = len(t["opsb"])
        hist["len<=10" if L <= 10 else ("len<=100" if L <= 100 else "len<=400")] += 1
        if t["ty"] == "hvec":
            lens = sorted(len(h) for h in t["histb"])
            hist["hvec:history-spread>=5" if lens[-1] - lens[0] >= 5 else "hvec:history-spread<5"] += 1
        if (t["wpb"], t["wvb"]) == (1028443341, 1003277517):
            hist["default-weights"] += 1

    # ---- panics ------------------------------------------------------------------------------------------
    for t in trajs.values():
        if t["panic"] is not None:
            key = "C07:panic"
            if t["ty"] == "box":
                hs = [unbits(t["z0b"][0])[4]] + [unbits(o[0])[4] for o in t["opsb"][:t["panic"][0]] if o is not None]
                if max(hs) / max(min(hs), 1e-30) > DEEP_SHRINK:
                    key += ":deep-shrink"
            violations.append((key, "a filter call panicked at step %d (%s) on valid measurements" % t["panic"],
                               {"spec": t["spec"], "step": t["panic"][0]}))

    # ---- property oracle on the implementation's raw outputs -----------------------------------------------
    with Pool(vlib.NPROC) as pool:
        ores = pool.map(oracle_track, tracks, chunksize=1)
    worst = {"mean": 0.0, "cov": 0.0, "sym": 0.0, "dist": 0.0, "rel_asym": 0.0}
    offstruct = 0
    oracle_fail = []
    tmap = {t["tid"]: t for t in tracks}
    for tid, fails, w, off in ores:
        offstruct += off
        for k in worst:
            worst[k] = max(worst[k], w[k])
        for f in fails:
            oracle_fail.append((tid, f))
    chk.log("oracle: %d failing tracks; worst error/allowance: %s; off-structure non-zero entries: %d"
            % (len({x[0] for x in oracle_fail}), {k: round(v, 3) for k, v in worst.items()}, offstruct))

    # vector filter = point filters on every element, bit for bit (states, distance, cost), incl. vectors
    # assembled from points with heterogeneous histories
    vec_bad, vec_cmp = vec_pointwise_failures(trajs)
    if vec_bad:
        t, pt, k, what, st, p = vec_bad[0]
        rep = {"spec": t["spec"], "point": pt, "step": k, "differs_in": what,
               "vector_filter": {"mean": st.get("mean"), "distance": st.get("dist")},
               "point_filter": ({"mean": p.get("mean"), "distance": p.get("dist")} if p else None),
               "failing_histories": len({id(x[0]) for x in vec_bad})}
        if t["ty"] == "hvec":
            try:
                sh = shrink_hvec(t, pt)
            except Exception as e:      # noqa: BLE001
                chk.log("hvec shrink failed: %r" % (e,))
                sh = None
            if sh is not None:
                spec, r, keep, hl = sh
                rep.update({"spec": spec, "original_history": t["spec"][:1500], "points_kept": keep,
                            "private_history_lengths": {str(k): v for k, v in hl.items()},
                            "point": r[1], "step": r[2], "differs_in": r[3],
                            "vector_filter": {"mean": r[4].get("mean"), "distance": r[4].get("dist")},
                            "point_filter": ({"mean": r[5].get("mean"), "distance": r[5].get("dist")} if r[5] else None)})
        rep["replay_cmd"] = "./check C07 --replay <this file>"
        violations.append(("C07:vec-not-pointwise",
                           "Vec2DKalmanFilter: %s of element %s at step %s differs from the stand-alone Point2DKalmanFilter on the same state / measurements"
                           % (rep["differs_in"], rep["point"], rep["step"]), rep))

    # make_prediction with the weights of its own tracker
    mp_bad, mp_unassoc = mp_failures(mp_recs)
    if mp_bad:
        r, why = mp_bad[0]
        spec = mp_specs[r["run"]]
        rep = {"mpspec": spec, "configuration": r["cfg"], "frame": r["frame"], "tracker": r["kind"],
               "weights": [r["wp"], r["wv"]], "returned": r.get("got"), "own_filter": r.get("ref"),
               "failing_records": len(mp_bad)}
        try:
            sh = shrink_mp(spec, r)
        except Exception as e:      # noqa: BLE001
            chk.log("make_prediction shrink failed: %r" % (e,))
            sh = None
        if sh is not None:
            line, (r2, _) = sh
            rep.update({"mpspec": line, "configuration": r2["cfg"], "frame": r2["frame"], "tracker": r2["kind"],
                        "weights": [r2["wp"], r2["wv"]], "returned": r2.get("got"), "own_filter": r2.get("ref"),
                        "original_sequence": spec[:1500]})
        rep["sequence_in_one_process"] = mp_describe(rep["mpspec"])
        rep["replay_cmd"] = "./check C07 --replay <this file>"
        got, own = rep.get("returned") or [], rep.get("own_filter") or []
        only_angle = (len(got) == 5 and len(own) == 5 and all(got[i] == own[i] for i in (0, 1, 3, 4)))
        violations.append(("C07:make-prediction-readout" if only_angle else "C07:make-prediction-weights",
                           "make_prediction (%s, weights %r, %r) %s at frame %d: returned %r, the box filter built with these weights gives %r"
                           % (rep["tracker"], rep["weights"][0], rep["weights"][1], "panicked" if why == "panicked" else "differs",
                              rep["frame"], rep["returned"], rep["own_filter"]), rep))

    # cost conversion
    chi2 = [Fraction(x) for x in ["3.8415", "5.9915", "7.8147", "9.4877", "11.070", "12.592", "14.067", "15.507", "16.919"]]
    by, ident_fail = cost_checks(costs, chi2)
    for (ty, db, d, direct, inverted, want) in ident_fail[:1]:
        key = "C07:cost-gate:%s" % ("point" if ty in ("point", "vec") else "box")
        violations.append((key, "%s calculate_cost: inverted cost %r is not the upper bound minus the direct cost %r at distance %r"
                           % (ty, inverted, direct, d),
                           {"cost_d_bits": db, "filter": ty, "distance": d, "direct": direct, "inverted": inverted, "expected_inverted": want,
                            "failing_probes": len(ident_fail),
                            "replay_cmd": "printf 'costq %d\\n' > /tmp/c07.txt && %s replay --file /tmp/c07.txt" % (db, vlib.harness_bin("kalman"))}))

    # ---- model evaluation ---------------------------------------------------------------------------------
    model_vo = os.path.join(vlib.COQ, "theories", "Model", "Kalman.vo")
    disagreements = []
    stats = {"run_tracks": 0, "run_states": 0, "q_tracks": 0, "q_states": 0, "onestep": 0, "dist_probes": 0,
             "cost_compared": 0, "cost_band_skipped": 0, "scalar_agrees": 0}
    wr = {"F_mean": 0.0, "F_cov": 0.0, "Q_mean": 0.0, "Q_cov": 0.0, "step_mean": 0.0, "step_cov": 0.0, "dist_q": 0.0, "dist_f": 0.0}
    if os.path.exists(model_vo):
        try:
            model_stage(chk, tracks, by, stats, wr, disagreements)
            mp_model_stage(mp_specs, mp_recs, stats, wr, disagreements)
        except Exception as e:      # noqa: BLE001 - the oracle's verdict below must be delivered whatever happens here
            import traceback
            chk.broken.append("model evaluation failed: %s" % (traceback.format_exc()[-1500:] if not isinstance(e, RuntimeError) else str(e)[-1500:]))
    else:
        chk.broken.append("model not built: Model/Kalman.vo missing")
    # a track on which the oracle already reports a violation explains its own model disagreements
    failing_tids = {tid for tid, _ in oracle_fail}
    explained = [d for d in disagreements if d.get("tid") in failing_tids]
    disagreements = [d for d in disagreements if d.get("tid") not in failing_tids]
    stats["disagreements_on_tracks_with_oracle_failure"] = len(explained)
    chk.log("model: %s; worst error/allowance %s; disagreements %d" % (stats, {k: round(v, 3) for k, v in wr.items()}, len(disagreements)))

    nontrivial = set()
    for t in tracks:
        if any(o is not None for o in t["ops"]) and not t["kind"].endswith("stationary"):
            nontrivial.add((t["spec"], t["tid"][1]))
    chk.assumptions = [
        "theorems are exact-arithmetic (real-number instance of the model; transfer to the rational instance proved): "
        "f32 rounding of the implementation is observed by the correspondence under the stated tolerances, not proved",
        "side condition of the SPD / textbook theorems: weights non-zero and, at every update, the current height estimate "
        "non-zero (box filter); the generators keep heights >= 1",
        "nalgebra's kernels (matrix product, solve_lower_triangular, cholesky) are modelled mathematically; a zero pivot "
        "(None -> unwrap panics) is outside the side condition",
        "the noise multipliers 2, 10, 1e-2, 1e-5, 1e-1 are part of the specification and pinned in Model/Kalman.v",
    ]
    chk.coverage.update({
        "evaluations": len(tracks) + len(costs) + len({(r["run"], r["cfg"]) for r in mp_recs}),
        "histories": len(trajs), "tracks": len(tracks), "states_checked": nstates, "cost_probes": len(costs),
        "distinct_nontrivial": len(nontrivial),
        "rule": "histories of 1-400 predict/update operations (tracker pattern predict+update, missed detections, random "
                "interleavings) for the box, point and vector filters, plus vectors ASSEMBLED from points with heterogeneous private "
                "histories (initiated at different times, occluded = predict-only gaps, different numbers of updates) on which "
                "distance / calculate_cost / predict / update of the vector filter are compared element-wise with the point filter: stationary, constant velocity, accelerating, jittering, "
                "shrinking/growing, rotating; coordinates and heights 1..1e4; weights: defaults 1/20,1/160 (40%), 0.1/0.1, and "
                "position 1/80..1/4 x velocity 1/640..1/8. non-trivial = a track with at least one update whose measurements "
                "are not all equal to the first one; distinct by (history, point). EVERY state of every track is checked by "
                "the oracle; the model is compared on mean and covariance at ~20 steps per track (whole run), one exact step "
                "and one distance from the implementation's own state at ~5 of them; make_prediction: 3 (thorough 12) process runs of 8 tracker configurations (custom trait implementer, Sort IoU/Mahalanobis, VisualSort) with six different weight pairs in seed-dependent order, 3-10 frames of a moving growing box each, returned boxes vs the box filter of the same weights bit for bit and vs the model; cost: all f32 neighbours (+-4 ulp) of every CHI2INV95 entry and of "
                "100, offsets 1e-6..0.5, a 1/8 grid on [0,20] and random d up to 1e5",
        "samples": [t["spec"][:300] for t in list(trajs.values())[:3]],
        "input_distribution": dict(hist),
        "oracle_worst_error_over_allowance": worst,
        "oracle_failures": len(oracle_fail),
        "offstructure_nonzero_entries_in_implementation": offstruct,
        "vector_states_compared_bitwise": vec_cmp, "vector_pointwise_failures": len(vec_bad),
        "model": stats, "model_worst_error_over_allowance": wr,
        "model_vs_impl_disagreements": len(disagreements),
        "cost_identity_failures": len(ident_fail),
        "make_prediction": {"process_runs": len(mp_specs), "configurations": len({(r["run"], r["cfg"]) for r in mp_recs}),
                            "frames_compared_bitwise": len(mp_recs) - mp_unassoc, "not_one_track": mp_unassoc,
                            "failures": len(mp_bad),
                            "first_weights_are_defaults_in_runs": sum(1 for sp in mp_specs if mp_cfgs(sp)[0].split(":")[1:3] == ["1028443341", "1003277517"])},
        "box_states_with_negative_angle": sum(1 for t in tracks if t["ty"] == "box" for st in t["states"] if st["mean"][2] < 0),
        "deep_shrink_streams": sum(1 for t in trajs.values() if t.get("kind") == "deep-shrink"),
        "tolerances": {"whole_run_mean": TOL_MEAN, "whole_run_cov": TOL_COV, "exact_short_run_mean": TOLQ_MEAN,
                       "exact_short_run_cov": TOLQ_COV, "one_step": "%g * 2^-24 * sum of magnitudes" % ULPS},
    })

    # ---- verdict ------------------------------------------------------------------------------------------
    if oracle_fail:
        # one violation per failure class, shrunk
        seen = set()
        for tid, (step, key, detail) in oracle_fail:
            tr = tmap[tid]
            cls = "C07:%s:%s" % (tr["ty"], key)
            if key in ("cov-not-spd", "cov-not-symmetric", "distance-panics") and shrink_ratio(tr, step) > DEEP_SHRINK:
                cls += ":deep-shrink"
            if cls in seen:
                continue
            seen.add(cls)
            sh = None
            try:
                sh = shrink_track(tr, step, key) if not (tr["hty"] == "hvec" and step in tr.get("must_steps", [])) else None
            except Exception as e:      # noqa: BLE001 - shrinking is best effort
                chk.log("shrink failed: %r" % (e,))
            if sh is not None:
                spec, t2, f2 = sh
                rep = {"spec": spec, "step": f2[0], "oracle": f2[1], "detail": f2[2],
                       "weights": [t2["wp"], t2["wv"]], "first_measurement": t2["z0"],
                       "operations": ["predict" if o is None else {"update": o} for o in t2["ops"]],
                       "implementation_state": {"mean": t2["states"][f2[0]]["mean"], "cov": t2["states"][f2[0]]["cov"]},
                       "original_history": tr["spec"][:2000], "original_step": step}
            else:
                rep = {"spec": (tr["spec"] if tr["hty"] == "hvec" else single_spec(tr, nops=step)), "step": step,
                       "point": tr["tid"][1], "oracle": key, "detail": detail,
                       "note": "not shrunk (vector-filter specific, see the vec-not-pointwise replay) or the shrunk history did not reproduce"}
            rep["replay_cmd"] = "./check C07 --replay <this file>"
            rep["broken"] = chk.broken
            violations.append((cls, "%s filter: %s" % (tr["ty"], detail), rep))
            if len(seen) >= 4:
                break
    for key, what, rep in violations:
        chk.violation(key, what, rep)
    if (disagreements or chk.broken) and not chk.violations:
        what = "proof or correspondence no longer checks: " + "; ".join(b.split("\n")[0][:200] for b in chk.broken)
        rep = {"broken": chk.broken}
        if disagreements:
            rep["correspondence_cases"] = disagreements[:5]
            what += " model and implementation differ on %d comparisons" % len(disagreements)
        chk.violation("C07:tie-broken", what, rep, found_input=False)


def mp_model_stage(mp_specs, mp_recs, stats, wr, disagreements):
    """the boxes returned by the trackers vs the binary64 model run initiate; (predict; update z_i)* with the weights
    of that tracker"""
    groups = {}
    for r in mp_recs:
        groups.setdefault((r["run"], r["cfg"]), []).append(r)
    exprs, meta = [], []
    for key, rs in sorted(groups.items()):
        rs.sort(key=lambda r: r["frame"])
        obs = [r["obs"] for r in rs]
        ops = []
        for z in obs:
            ops += [None, z]
        tr = {"ty": "box", "wp": rs[0]["wp"], "wv": rs[0]["wv"]}
        steps = [2 * (i + 1) for i in range(len(obs))]
        exprs.append("f_case %s %s %s %s%%nat %s" % (filt(tr, "F"), ql(obs[0]), ops_lit(ops), coq_list([str(k) for k in steps]),
                                                    coq_list([ql(obs[0])] * len(steps))))
        meta.append((key, rs, steps))
    if not exprs:
        return
    vals = vlib.coq_eval(PREAMBLE, exprs, shard_size=max(1, len(exprs) // 16 + 1), tag="c07mp")
    stats["make_prediction_frames_vs_model"] = 0
    for (key, rs, steps), v in zip(meta, vals):
        model = decode_case(v, 5, 2 * len(rs) + 1, steps, "F")
        tr = {"ty": "box", "n": 5}
        for r, k in zip(rs, steps):
            if r["gotb"] is None:
                continue
            mm = model[k][0]
            sc = mean_scales(tr, mm)
            stats["make_prediction_frames_vs_model"] += 1
            for i in range(5):
                ratio = abs((r["got"][i] if r["got"][i] is not None else 0.0) - mm[i]) / (TOL_MEAN * sc[i])
                wr["mp_mean"] = max(wr.get("mp_mean", 0.0), ratio)
                if not ratio <= 1.0:
                    disagreements.append({"what": "make_prediction (%s, weights %r, %r) frame %d entry %d: returned %r, model %r"
                                                  % (r["kind"], r["wp"], r["wv"], r["frame"], i, r["got"][i], mm[i]),
                                          "mpspec": mp_specs[r["run"]][:1500], "tid": ("mp",) + key})
                    break


def model_stage(chk, tracks, cost_by, stats, wr, disagreements):
    # (a) whole runs, binary64; (b) short exact runs; (c) one exact step / distance on sampled states; (d) cost
    exprs = []
    meta = []
    for ti, tr in enumerate(tracks):
        L = len(tr["states"]) - 1
        cs = sorted(set(pick_covsteps(L, ti + 1)) | {k for k in tr.get("must_steps", []) if k <= L})
        tr["covsteps"] = cs
        if tr["kind"].startswith("q-"):
            exprs.append(case_expr(tr, "Q", cs))
            meta.append(("Q", ti))
            exprs.append("q_scalar_agrees %s %s %s" % (filt(tr, "Q"), ql(tr["z0"]), ops_lit(tr["ops"][:L])))
            meta.append(("S", ti))
        exprs.append(case_expr(tr, "F", cs))
        meta.append(("F", ti))
    # longest first so that the shards are balanced
    order = sorted(range(len(exprs)), key=lambda i: -len(exprs[i]))
    vals = vlib.coq_eval(PREAMBLE, [exprs[i] for i in order], shard_size=max(1, len(exprs) // 48 + 1), tag="c07run", timeout=1500)
    res = [None] * len(exprs)
    for pos, i in enumerate(order):
        res[i] = vals[pos]
    chk.log("model: %d whole-run evaluations done" % len(exprs))
    for (kind, ti), v in zip(meta, res):
        tr = tracks[ti]
        if kind == "S":
            stats["scalar_agrees"] += 1
            if v.strip() != "true":
                disagreements.append({"what": "exact matrix model and exact scalar model differ", "spec": single_spec(tr), "tid": tr["tid"]})
            continue
        model = decode_case(v, tr["n"], len(tr["states"]), tr["covsteps"], kind)
        if kind == "F":
            first, wm, wc = compare_run(tr, model, TOL_MEAN, TOL_COV)
            wr["F_mean"] = max(wr["F_mean"], wm)
            wr["F_cov"] = max(wr["F_cov"], wc)
            stats["run_tracks"] += 1
            stats["run_states"] += len(model)
        else:
            first, wm, wc = compare_run(tr, model, TOLQ_MEAN, TOLQ_COV)
            wr["Q_mean"] = max(wr["Q_mean"], wm)
            wr["Q_cov"] = max(wr["Q_cov"], wc)
            stats["q_tracks"] += 1
            stats["q_states"] += len(model)
        if first is not None:
            disagreements.append({"what": "whole-run %s model vs implementation at step %d: %s" % ("binary64" if kind == "F" else "exact", first[0], first[1]),
                                  "spec": single_spec(tr, nops=first[0]), "tid": tr["tid"]})
    # (c) one exact step and one distance from the implementation's own state
    exprs = []
    meta = []
    for ti, tr in enumerate(tracks):
        N = 2 * tr["n"]
        for k in sorted(set(tr["covsteps"][::5] + tr["covsteps"][-1:]) | {k for k in tr.get("must_steps", []) if k < len(tr["states"])}):
            st = tr["states"][k]
            if not (finite(st["mean"]) and finite(st["cov"])):
                stats["nonfinite_states_skipped"] = stats.get("nonfinite_states_skipped", 0) + 1
                continue
            mq = ql(st["mean"])
            Pq = coq_list([ql(r) for r in mat(st["cov"], N)])
            exprs.append("(q_dist_on %s %s %s %s, f_dist_on %s %s %s %s)" % (filt(tr, "Q"), mq, Pq, ql(st["probe"]),
                                                                           filt(tr, "F"), mq, Pq, ql(st["probe"])))
            meta.append(("D", ti, k))
            if k >= 1 and finite(tr["states"][k - 1]["mean"]) and finite(tr["states"][k - 1]["cov"]):
                pre = tr["states"][k - 1]
                op = tr["ops"][k - 1]
                exprs.append("q_step_on %s %s %s %s" % (filt(tr, "Q"), ql(pre["mean"]), coq_list([ql(r) for r in mat(pre["cov"], N)]),
                                                       "None" if op is None else "(Some %s)" % ql(op)))
                meta.append(("T", ti, k))
    vals = vlib.coq_eval(PREAMBLE, exprs, shard_size=max(1, len(exprs) // 32 + 1), tag="c07step", timeout=1500)
    chk.log("model: %d one-step / distance evaluations done" % len(exprs))
    tol = ULPS * EPS32
    for (kind, ti, k), v in zip(meta, vals):
        tr = tracks[ti]
        N = 2 * tr["n"]
        st = tr["states"][k]
        ps = pairs_of(v)
        if kind == "D":
            if st["dist"] is None:
                continue
            dq = qval(ps[0])
            dchol, ddiag = fval(ps[1]), fval(ps[2])
            md = mahalanobis(tr["ty"], tr["wp"], tr["wv"], st["mean"], mat(st["cov"], N), st["probe"])
            lim = 4 * tol * (md[1] if md else abs(dq)) + 1e-30
            # the exact model uses the diagonal of S only; the implementation's S has exactly zero off-diagonal
            # entries on every reachable state (counted by the oracle), so both read the same numbers
            r1 = abs(st["dist"] - dq) / lim
            r2 = abs(st["dist"] - dchol) / lim
            wr["dist_q"] = max(wr["dist_q"], r1)
            wr["dist_f"] = max(wr["dist_f"], r2)
            stats["dist_probes"] += 1
            if not (r1 <= 1.0 and r2 <= 1.0):
                disagreements.append({"what": "distance at step %d: implementation %r, exact model %r, binary64 Cholesky model %r" % (k, st["dist"], dq, dchol),
                                      "spec": single_spec(tr, nops=k), "tid": tr["tid"]})
        else:
            exp = step_expect(tr, k)
            if exp is None:
                continue
            _, _, tm, tP = exp
            mm = [qval(p) for p in ps[:N]]
            mc = [qval(p) for p in ps[N:N + N * N]]
            stats["onestep"] += 1
            bad = None
            for i in range(N):
                r = abs(st["mean"][i] - mm[i]) / (tol * tm[i] + 1e-30)
                wr["step_mean"] = max(wr["step_mean"], r)
                if not r <= 1.0 and bad is None:
                    bad = "mean[%d]: implementation %r, exact model step of the previous state %r" % (i, st["mean"][i], mm[i])
            for i in range(N):
                for j in range(N):
                    r = abs(st["cov"][i * N + j] - mc[i * N + j]) / (tol * tP[i][j] + 1e-30)
                    wr["step_cov"] = max(wr["step_cov"], r)
                    if not r <= 1.0 and bad is None:
                        bad = "cov[%d][%d]: implementation %r, exact model step of the previous state %r" % (i, j, st["cov"][i * N + j], mc[i * N + j])
            if bad is not None:
                disagreements.append({"what": "one exact model step at step %d: %s" % (k, bad), "spec": single_spec(tr, nops=k), "tid": tr["tid"]})
    # (c') the TRANSLATED read-out (gen/ScalarKalmanBox.v: TryFrom<KalmanState> for Universal2DBox, regenerated from the
    # source on every run) applied to the implementation's own mean, vs the implementation's read-out, exactly
    exprs, meta = [], []
    for ti, tr in enumerate(tracks):
        if tr["ty"] != "box":
            continue
        ks = set(tr["covsteps"][::4]) | {0, len(tr["states"]) - 1}
        # always include a state with a negative, a positive and a zero angle if the track has one
        for pred in (lambda a: a < 0, lambda a: a > 0, lambda a: a == 0):
            for k, st in enumerate(tr["states"]):
                if pred(st["mean"][2]):
                    ks.add(k)
                    break
        for k in sorted(ks):
            st = tr["states"][k]
            if "ro" not in st or not finite(st["mean"]):
                continue
            exprs.append("ro_out %s" % ql(st["mean"]))
            meta.append((ti, k))
    if exprs:
        pre = PREAMBLE + "From SimilariGen Require Import Scalar ScalarKalmanBox.\n" + \
            "Definition ro_out (m : list Q) : list (Z * Z) := match kalman_state_to_ubox Qops m with None => [] | Some u => " \
            "[qzz (Universal2DBox_xc Qops u); qzz (Universal2DBox_yc Qops u); " \
            "match Universal2DBox_angle Qops u with None => (0, 0)%Z | Some a => qzz a end; " \
            "qzz (Universal2DBox_aspect Qops u); qzz (Universal2DBox_height Qops u)] end.\n"
        vals = vlib.coq_eval(pre, exprs, shard_size=max(1, len(exprs) // 16 + 1), tag="c07ro")
        stats["readouts_vs_translated_conversion"] = 0
        stats["readouts_negative_angle"] = 0
        for (ti, k), v in zip(meta, vals):
            tr = tracks[ti]
            st = tr["states"][k]
            ps = pairs_of(v)
            model = None if len(ps) != 5 else [None if (i == 2 and p[1] == 0) else qval(p) for i, p in enumerate(ps)]
            ro = st["ro"]
            stats["readouts_vs_translated_conversion"] += 1
            if st["mean"][2] < 0:
                stats["readouts_negative_angle"] += 1
            same = (model is not None and ro != "X"
                    and all((a is None) == (b is None) and (a is None or a == b) for a, b in zip(ro, model)))
            if not same:
                disagreements.append({"what": "read-out at step %d: implementation %r, translated conversion of the same mean %r" % (k, ro, model),
                                      "spec": single_spec(tr, nops=k), "tid": tr["tid"]})
    # (d) cost: the model's functions, exact, on every probe
    probes = sorted({db for (ty, db) in cost_by})
    exprs = []
    for db in probes:
        d = q_lit(Fraction(unbits([db])[0]))
        exprs.append("map qzz [box_calculate_cost Qops %s false; box_calculate_cost Qops %s true; "
                     "point_calculate_cost Qops %s false; point_calculate_cost Qops %s true; chi2 Qops 4; chi2 Qops 1]" % (d, d, d, d))
    vals = vlib.coq_eval(PREAMBLE, exprs, shard_size=max(1, len(exprs) // 16 + 1), tag="c07cost")
    for db, v in zip(probes, vals):
        ps = pairs_of(v)
        vs = [Fraction(p[0], p[1]) for p in ps]
        d = Fraction(unbits([db])[0])
        for ty, base, gate in (("box", 0, vs[4]), ("point", 2, vs[5]), ("vec", 2, vs[5])):
            r = cost_by.get((ty, db))
            if not r:
                continue
            g32 = Fraction(f32round(gate))
            # the implementation compares with the f32 constant, the model with the decimal text: skip the probes
            # that lie in the band between the two (inclusive), count them
            if (d > gate) != (d > g32):
                stats["cost_band_skipped"] += 1
                continue
            for inv in (False, True):
                want = f32round(vs[base + (1 if inv else 0)])
                got = unbits([r[inv]])[0]
                stats["cost_compared"] += 1
                if got != want:
                    disagreements.append({"what": "%s calculate_cost(%r, inverted=%s): implementation %r, model %r" % (ty, float(d), inv, got, want),
                                          "cost_d_bits": db})


def replay(chk, path):
    rep = json.load(open(path))
    ok, out = vlib.harness_build(["kalman"])
    if not ok:
        print(out[-2000:])
        return 2
    if "cost_d_bits" in rep and "spec" not in rep:
        tmp = os.path.join(vlib.ALT or vlib.CACHE, "c07_replay.txt")
        open(tmp, "w").write("costq %d\n" % rep["cost_d_bits"])
        rc, out, err = run_harness(["replay", "--file", tmp])
        print(out)
        _, costs = parse_output(out)
        _, ident_fail = cost_checks(costs, None)
        for f in ident_fail:
            print("%s: d=%r direct=%r inverted=%r expected inverted=%r" % (f[0], f[2], f[3], f[4], f[5]))
        print("REPRODUCED" if ident_fail else "not reproduced")
        return 1 if ident_fail else 0
    if "mpspec" in rep and "spec" not in rep:
        rc, out, err = run_harness_replay(rep["mpspec"])
        _, recs = parse_mp(out)
        mb, _ = mp_failures(recs)
        for r, why in mb:
            print("configuration %d (%s, weights %r %r) frame %d: returned %r, own filter %r" % (r["cfg"], r["kind"], r["wp"], r["wv"], r["frame"], r.get("got"), r.get("ref")))
        print("REPRODUCED" if mb else "not reproduced")
        return 1 if mb else 0
    spec = rep.get("spec")
    if not spec:
        print("nothing to replay (no failing input was found): ", rep.get("what"))
        return 0
    trajs, _ = replay_spec(spec)
    bad = False
    for t in trajs.values():
        if t["panic"] is not None:
            print("panic at step %d: %s" % t["panic"])
            bad = True
    vb, _ = vec_pointwise_failures(trajs)
    for (t, pt, k, what, st, p) in vb:
        print("vector filter: %s of element %s differs from the point filter at step %s: %r vs %r"
              % (what, pt, k, st.get("dist") if what == "distance" else st.get("mean"),
                 (p or {}).get("dist") if what == "distance" else (p or {}).get("mean")))
        bad = True
    for tr in tracks_of(trajs):
        _, fails, worst, _ = oracle_track(tr)
        for f in fails:
            print("step %d: %s: %s" % f)
            bad = True
    print("REPRODUCED" if bad else "not reproduced")
    return 1 if bad else 0
