"""C01 - tracker output contract (Sort, BatchSort): proof (Props/C01.v) + exact correspondence of the L0 model
Model/Tracker.v with the real trackers (harness bin `tracker`) + the property oracle on the implementation."""
from . import tracker_common as tc


def run(chk):
    data = tc.common_stage(chk, "C01")
    if data is None:
        return
    tc.coverage_common(
        chk, data,
        "multi-scene histories (1-4 scenes sharing one image region; 0-8 detections per call: crowded, overlapping, exact "
        "duplicates, appearing/disappearing, axis-aligned and rotated) x Sort/BatchSort x IoU(t)/Mahalanobis x shards 1-4 x "
        "history 1-5 x max_idle 0-3 x periodicity {0,1,2,100} x random constraint tables, all nine operations interleaved; "
        "the model replays every history from the oracle tables and must give identical records, lists and store contents "
        "(ids exact for Sort, first-occurrence bijection for BatchSort). non-trivial = some call has >= 2 detections gated to "
        "a common track, or an exact duplicate detection; distinct by hash of (config, history)",
        lambda cl: cl["crowded"] or cl["dup"])
    fails = {}
    n_checked = 0
    for k, (h, r) in enumerate(zip(data["hists"], data["runs"])):
        if r is None:
            continue
        n_checked += 1
        for (p, key, msg, i) in tc.oracle_history(h, r, want=("C01",)):
            fails.setdefault(key, (k, msg))
    chk.coverage["property_oracle"] = {"histories": n_checked, "failing_keys": sorted(fails.keys())}
    found = tc.report_oracle_failures(chk, "C01", data, fails, lambda key: tc.ledger_fails("C01", key))
    # the link to the verified voting model (C02), executed: tracker model with assign_solver vs the implementation
    try:
        link, bad = tc.assign_link(data, 40 if chk.tier == "quick" else 300)
    except RuntimeError as e:
        link, bad = {"error": str(e)[-800:]}, []
        chk.broken.append("assign-link evaluation failed: " + str(e)[-400:])
    chk.coverage["assign_link"] = link
    if bad and not found:
        k, d = bad[0]
        chk.violation("C01:assign-link", "the tracker model run with the voting-model solver (padded matrix + optimum + decode) "
                      "differs from the implementation on a history with unique optima: " + d[:600],
                      tc.replay_obj(data["hists"][k], d[:1500]), found_input=False)
        found = True
    found = tc.visual_report(chk, "C01", data, found)
    tc.report_correspondence(chk, "C01", data, found)
    # the same output contract on the VISUAL trackers (VisualSort, BatchVisualSort): oracle applied directly to the
    # implementation's records, ties included (tools/props/visual_c01.py)
    try:
        from props import visual_c01
        visual_c01.c01_visual_stage(chk)
    except Exception:
        import traceback
        chk.violation("C01:visual-stage-error", "the VisualSort stage of the C01 check failed to run",
                      {"error": traceback.format_exc()[-3000:]}, found_input=False)


def replay(chk, path):
    from props import visual_c01
    r = visual_c01.c01_visual_replay(chk, path)
    if r is not None:
        return r
    return tc.generic_replay(chk, path, "C01")
