"""C01 - tracker output contract (Sort, BatchSort): proof (Props/C01.v) + exact correspondence of the L0 model
Model/Tracker.v with the real trackers (harness bin `tracker`) + the property oracle on the implementation."""
from . import tracker_common as tc


def run(chk):
    data = tc.common_stage(chk, "C01")
    if data is None:
        return
    tc.coverage_common(
        chk, data,
        "multi-scene histories (1-4 scenes sharing one image region; 0-8 detections per call: crowded, overlapping, exact "
        "duplicates, appearing/disappearing, axis-aligned and rotated) x Sort/BatchSort x IoU(t)/Mahalanobis x shards 1-4 x "
        "history 1-5 x max_idle 0-3 x periodicity {0,1,2,100} x random constraint tables, all nine operations interleaved; "
        "the model replays every history from the oracle tables and must give identical records, lists and store contents "
        "(ids exact for Sort, first-occurrence bijection for BatchSort). non-trivial = some call has >= 2 detections gated to "
        "a common track, or an exact duplicate detection; distinct by hash of (config, history)",
        lambda cl: cl["crowded"] or cl["dup"])
    fails = {}
    n_checked = 0
    for k, (h, r) in enumerate(zip(data["hists"], data["runs"])):
        if r is None:
            continue
        n_checked += 1
        for (p, key, msg, i) in tc.oracle_history(h, r, want=("C01",)):
            fails.setdefault(key, (k, msg))
    chk.coverage["property_oracle"] = {"histories": n_checked, "failing_keys": sorted(fails.keys())}
    found = tc.report_oracle_failures(chk, "C01", data, fails, lambda key: tc.ledger_fails("C01", key))
    tc.report_correspondence(chk, "C01", data, found)


def replay(chk, path):
    return tc.generic_replay(chk, path, "C01")
