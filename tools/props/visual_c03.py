"""C03 (track lifecycle) on the VISUAL trackers: VisualSort and BatchVisualSort driven through the `visual` harness
(sub-commands c03 / replay03) with operation histories interleaving predict (INCLUDING empty predicts for VisualSort),
skip_epochs_for_scene, wasted, idle_tracks_with_scene, clear_wasted, set_auto_waste (0/1/2/100), current_epoch_with_scene,
active / wasted shard statistics over 1-3 scenes, max_idle 0-3, with / without features.  Applied to the implementation:

  LEDGER, by the letter of the property text: scene epochs (+1 per predict of the scene, empty or not; +n per skip; others
  untouched), every detection in exactly one track, length = detections attached, a track handed out by wasted() exactly
  when expired and exactly once, expired never continued, idle = unexpired tracks of the scene not updated in the current
  epoch, every track in exactly one place (live store / store of collected expired tracks / handed out / cleared), the
  statistics = what the two stores hold.
  PAIRED RUN: the same history (set_auto_waste operations removed) under two periodicities gives identical observable
  outputs - records, idle lists, wasted lists (until the first clear_wasted, DESIGN.md section 7 C03), epochs; the shard
  statistics are physical and excluded.

    c03_visual_stage(chk)          registered in check's EXTRA_STAGES for C03
    c03_visual_replay(chk, path)   returns None when the replay file is not one of this stage, else 0 / 1
"""
import json
import os
import time
from collections import Counter

import vlib
from props import c13 as base
from props import visual_c04


# ---- histories as text ------------------------------------------------------------------------------------------------
def ops_of(line):
    d = base._kv(line.split())
    o = d.get("ops", "-")
    return [] if o == "-" else [x for x in o.split(";") if x]


def with_ops(line, ops):
    toks = [t for t in line.split() if not t.startswith("ops=") and not t.startswith("calls=")]
    return " ".join(toks) + " ops=" + (";".join(ops) if ops else "-") + " calls="


def with_period(line, p):
    """the same history under auto-waste periodicity p (every set_auto_waste of the history is replaced by one at the start)"""
    return with_ops(line, ["A%d" % p] + [o for o in ops_of(line) if not o.startswith("A")])


def op_dets(op):
    """uids of a predict operation"""
    if not op.startswith("P"):
        return []
    ds = op.split("@", 1)[1]
    return [int(d.split(",")[0]) for d in ds.split("|") if d]


def op_has_feat(op):
    return [d.split(",")[6] != "-" for d in op.split("@", 1)[1].split("|") if d]


# ---- harness output ------------------------------------------------------------------------------------------------------
def _store(s):
    if s == "-":
        return []
    out = []
    for e in s.split(","):
        i, sc, last, ln = e.split(":")
        out.append({"id": int(i), "scene": int(sc), "last": int(last), "len": int(ln)})
    return out


def parse_output(out):
    shared = base.parse_output(out)       # call / fd / pos / trk lines of the predict operations (for tie detection)
    cases = _parse_ops(out)
    if len(shared) == len(cases):
        for c, sc in zip(cases, shared):
            c["calls"] = sc["calls"]
    else:
        for c in cases:
            c["calls"] = None
    return cases


def tie_ops(case):
    """operation indices of the predict calls whose association is not forced: two competing appearance claims within the
    margin, or more than one optimal positional association (decided from the oracle tables, not from the records).
    None when the tables are not available (then nothing is compared)."""
    if case.get("calls") is None:
        return None
    pseudo = {"spec": case["spec"], "calls": case["calls"]}
    pos = visual_c04.tie_calls(pseudo)
    return {case["calls"][ci]["j"] for ci in pos}


def _parse_ops(out):
    cases = []
    cur = None
    for line in out.split("\n"):
        if line.startswith("spec "):
            cur = {"line": line[5:].strip(), "spec": base.parse_spec(line[5:]), "steps": [], "complete": False}
            cases.append(cur)
        elif line.startswith("op "):
            p = line.split()
            d = base._kv(p[4:])
            head = p[3]
            res = d["res"]
            st = {"i": int(p[2]), "head": head, "panic": None, "res": None, "main": _store(d["main"]), "wst": _store(d["wst"])}
            if res.startswith("PANIC"):
                st["panic"] = res.split("@", 1)[1] if "@" in res else "?"
            elif head[0] in "PI":
                st["res"] = [] if res == "-" else [base.parse_rec(x) for x in res.split(",")]
            elif head[0] == "W":
                st["res"] = []
                if res != "-":
                    for e in res.split(","):
                        i, ln, ep, sc, nobs = e.split(":")
                        st["res"].append({"id": int(i), "len": int(ln), "epoch": int(ep), "scene": int(sc), "nobs": int(nobs)})
            elif head[0] == "E":
                st["res"] = int(res)
            elif head in ("a", "w"):
                st["res"] = [int(x) for x in res.split(",")] if res != "-" else []
            cur["steps"].append(st)
        elif line.startswith("end "):
            cur["complete"] = True
    return cases


def run_lines(lines):
    path = os.path.join(vlib.ALT or vlib.CACHE, "visual_replay03_%d.txt" % os.getpid())
    with open(path, "w") as fh:
        for l in lines:
            fh.write(l + "\n")
    rc, out, err = vlib.harness_run("visual", ["replay03", "--file", path], timeout=900)
    try:
        os.remove(path)
    except OSError:
        pass
    return parse_output(out)


# ---- the ledger ------------------------------------------------------------------------------------------------------------
def ledger(case):
    """-> (list of (clause, op index, what), stats)"""
    spec = case["spec"]
    ops = ops_of(case["line"])
    max_idle = spec["idle"]
    batch = spec["trk"] == "bvs"
    fails = []
    stats = Counter()
    epoch = {}
    tracks = {}          # id -> {"scene", "dets", "last"}
    det_track = {}
    delivered, cleared = set(), set()
    prev_main, prev_wst = [], []

    def ep(s):
        return epoch.get(s, 0)

    def expired(t):
        return ep(t["scene"]) - t["last"] > max_idle

    for i, op in enumerate(ops):
        if i >= len(case["steps"]):
            break
        st = case["steps"][i]
        if st["panic"] is not None:
            fails.append(("panic", i, "operation %d (%s) panicked at %s" % (i, st["head"], st["panic"])))
            break
        k = op[0]
        stats["ops"] += 1
        if k == "P":
            scene = int(op[1:].split("@")[0])
            dets = op_dets(op)
            recs = st["res"]
            if batch and not dets:
                continue
            epoch[scene] = ep(scene) + 1
            e = ep(scene)
            stats["predicts"] += 1
            if not dets:
                stats["empty_predicts"] += 1
            if len(recs) != len(dets):
                fails.append(("records", i, "op %d: %d detections, %d records" % (i, len(dets), len(recs))))
                break
            seen = set()
            for u, r in zip(dets, recs):
                if r["epoch"] != e:
                    fails.append(("epoch", i, "op %d: record of detection %d carries epoch %d, scene %d is at epoch %d (one per predict of the scene, empty or not, n per skip)" % (i, u, r["epoch"], scene, e)))
                if r["id"] in seen:
                    fails.append(("one-track-per-detection", i, "op %d: track %d given to two detections of one call" % (i, r["id"])))
                seen.add(r["id"])
                t = tracks.get(r["id"])
                if t is None:
                    tracks[r["id"]] = t = {"scene": scene, "dets": [], "last": e}
                else:
                    if r["id"] in delivered or r["id"] in cleared:
                        fails.append(("one-place", i, "op %d: track %d is continued after having been handed out / cleared" % (i, r["id"])))
                    if e - t["last"] > max_idle:
                        fails.append(("expired-continued", i, "op %d: track %d (last update %d, scene epoch %d, max_idle %d) was expired but is continued by detection %d" % (i, r["id"], t["last"], e, max_idle, u)))
                if u in det_track:
                    fails.append(("one-track-per-detection", i, "op %d: detection %d recorded twice" % (i, u)))
                det_track[u] = r["id"]
                t["dets"].append(u)
                t["last"] = e
                if r["len"] != len(t["dets"]):
                    fails.append(("length", i, "op %d: record of detection %d: track %d length %d, %d detections attached" % (i, u, r["id"], r["len"], len(t["dets"]))))
        elif k == "S":
            sc, n = op[1:].split(":")
            epoch[int(sc)] = ep(int(sc)) + int(n)
        elif k == "E":
            s = int(op[1:])
            if st["res"] != ep(s):
                fails.append(("epoch", i, "op %d: current_epoch(%d) = %d, expected %d (one per predict of the scene, empty or not; n per skip; other scenes untouched)" % (i, s, st["res"], ep(s))))
        elif k == "W":
            got = sorted(t["id"] for t in st["res"])
            exp = sorted(tid for tid, t in tracks.items() if tid not in delivered and tid not in cleared and expired(t))
            if len(set(got)) != len(got) or any(g in delivered for g in got):
                fails.append(("delivered-twice", i, "op %d: wasted() hands out a track a second time: %s" % (i, got)))
            if got != exp:
                fails.append(("expiry", i, "op %d: wasted() returned %s, the expired tracks not yet handed out / cleared are %s (max_idle %d, epochs %s)" % (i, got, exp, max_idle, dict(epoch))))
            for t in st["res"]:
                lt = tracks.get(t["id"])
                if lt is not None and t["len"] != len(lt["dets"]):
                    fails.append(("length", i, "op %d: wasted track %d length %d, %d detections attached" % (i, t["id"], t["len"], len(lt["dets"]))))
            delivered.update(got)
        elif k == "I":
            s = int(op[1:])
            got = sorted(r["id"] for r in st["res"])
            exp = sorted(tid for tid, t in tracks.items() if t["scene"] == s and tid not in delivered and tid not in cleared
                         and not expired(t) and t["last"] != ep(s))
            if got != exp:
                fails.append(("idle", i, "op %d: idle_tracks(%d) = %s, the unexpired tracks of the scene not updated in epoch %d are %s" % (i, s, got, ep(s), exp)))
        elif k == "C":
            cleared.update(t["id"] for t in prev_wst)
        elif k == "a":
            if sum(st["res"]) != len(prev_main):
                fails.append(("stats", i, "op %d: active_shard_stats %s, the live store holds %d tracks" % (i, st["res"], len(prev_main))))
        elif k == "w":
            if sum(st["res"]) != len(prev_wst):
                fails.append(("stats", i, "op %d: wasted_shard_stats %s, the store of collected expired tracks holds %d" % (i, st["res"], len(prev_wst))))
        # places after the operation
        main_ids = [t["id"] for t in st["main"]]
        wst_ids = [t["id"] for t in st["wst"]]
        allp = main_ids + wst_ids + list(delivered) + list(cleared)
        if len(set(allp)) != len(allp):
            c = Counter(allp)
            fails.append(("one-place", i, "op %d: tracks %s are in two places" % (i, [x for x in c if c[x] > 1][:4])))
        if set(allp) != set(tracks.keys()):
            fails.append(("one-place", i, "op %d: tracks %s are nowhere, %s were never created" % (i, sorted(set(tracks) - set(allp))[:4], sorted(set(allp) - set(tracks))[:4])))
        for t in st["main"] + st["wst"]:
            lt = tracks.get(t["id"])
            if lt is not None and (t["len"] != len(lt["dets"]) or t["last"] != lt["last"] or t["scene"] != lt["scene"]):
                fails.append(("length", i, "op %d: stored track %d (scene %d, last %d, length %d) but the ledger has scene %d, last %d, %d detections" % (i, t["id"], t["scene"], t["last"], t["len"], lt["scene"], lt["last"], len(lt["dets"]))))
        # an unexpired track is live; the store of collected tracks holds only expired ones
        for t in st["wst"]:
            lt = tracks.get(t["id"])
            if lt is not None and not expired(lt):
                fails.append(("expiry", i, "op %d: track %d was collected although it is not expired" % (i, t["id"])))
        prev_main, prev_wst = st["main"], st["wst"]
        if len(fails) > 6:
            break
    return fails, stats


# ---- paired runs -------------------------------------------------------------------------------------------------------------
def observable(case, exact_ids):
    ren = {}

    def rid(x):
        if exact_ids:
            return x
        if x not in ren:
            ren[x] = len(ren) + 1
        return ren[x]
    out = []
    ops = ops_of(case["line"])
    after_clear = False
    for i, st in enumerate(case["steps"]):
        k = st["head"][0]
        if st["panic"] is not None:
            out.append(("panic",))
        elif k == "P":
            out.append(("records", [(rid(r["id"]), r["epoch"], r["scene"], r["len"], r["custom"], r["obs"], r["vt"]) for r in st["res"]]))
        elif k == "I":
            out.append(("idle", sorted((rid(r["id"]), r["epoch"], r["scene"], r["len"]) for r in st["res"])))
        elif k == "W":
            out.append(("wasted-after-clear", None) if after_clear else ("wasted", sorted((rid(t["id"]), t["scene"], t["epoch"], t["len"], t["nobs"]) for t in st["res"])))
        elif k == "E":
            out.append(("epoch", st["res"]))
        else:
            out.append((k, None))
            if k == "C":
                after_clear = True
    return out


def compare_pair(ca, cb, p1, p2):
    """-> (fails, tie stop index or None). The runs are compared up to the first predict whose association is not forced
    (in either run): from there on the outputs may legitimately depend on the store's iteration order."""
    exact = ca["spec"]["trk"] == "vs"
    a, b = observable(ca, exact), observable(cb, exact)
    ta, tb = tie_ops(ca), tie_ops(cb)
    if ta is None or tb is None:
        return [], 0
    ties = ta | tb
    stop = min(ties) if ties else None
    n = min(len(a), len(b)) if stop is None else min(len(a), len(b), stop)
    for i in range(n):
        if a[i] != b[i]:
            return [("paired-run", i, "operation %d (%s): periodicity %d gives %s, periodicity %d gives %s" % (i, ca["steps"][i]["head"], p1, str(a[i])[:300], p2, str(b[i])[:300]))], stop
    if stop is None and len(a) != len(b):
        return [("paired-run", min(len(a), len(b)), "the runs have %d and %d operations" % (len(a), len(b)))], stop
    return [], stop


def pair_check(line, p1, p2):
    cs = run_lines([with_period(line, p1), with_period(line, p2)])
    if len(cs) != 2:
        return [("no-output", 0, "harness printed nothing")]
    return compare_pair(cs[0], cs[1], p1, p2)[0]


def shrink(line, fails, budget=70):
    ops = ops_of(line)
    tries = [0]

    def ok(o):
        if tries[0] >= budget or not o:
            return False
        tries[0] += 1
        return fails(with_ops(line, o))
    # cut the tail
    lo, hi = 1, len(ops)
    while lo < hi:
        mid = (lo + hi) // 2
        if ok(ops[:mid]):
            hi = mid
        else:
            lo = mid + 1
    if hi < len(ops) and ok(ops[:hi]):
        ops = ops[:hi]
    changed = True
    while changed and tries[0] < budget:
        changed = False
        for i in range(len(ops) - 1, -1, -1):
            cand = ops[:i] + ops[i + 1:]
            if ok(cand):
                ops = cand
                changed = True
                break
        if changed:
            continue
        for i in range(len(ops)):
            if ops[i].startswith("P"):
                head, ds = ops[i].split("@", 1)
                dl = [d for d in ds.split("|") if d]
                for j in range(len(dl)):
                    cand = ops[:i] + [head + "@" + "|".join(dl[:j] + dl[j + 1:])] + ops[i + 1:]
                    if ok(cand):
                        ops = cand
                        changed = True
                        break
            if changed:
                break
    return with_ops(line, ops)


PAIRS = [(0, 100), (1, 100), (0, 2), (2, 100), (0, 1), (1, 2)]


def c03_visual_stage(chk):
    ok, out = vlib.harness_build(["visual"])
    if not ok:
        chk.broken.append("visual harness build failed:\n" + out[-2000:])
        chk.violation("C03:visual:harness-build", "the `visual` harness does not build against /repo", {"log": out[-4000:]}, found_input=False)
        chk.coverage["visual"] = {"evaluations": 0}
        return
    n = 300 if chk.tier == "quick" else 3000
    t0 = time.time()
    rc, out, err = vlib.harness_run("visual", ["c03", "--seed", chk.seed, "--n", n, "--tier", chk.tier], timeout=1500)
    cases = parse_output(out)
    hist = Counter()
    stats = Counter()
    failing = []
    nontriv = 0
    for i, c in enumerate(cases):
        s = c["spec"]
        hist["tracker=%s" % s["trk"]] += 1
        hist["max_idle=%d" % s["idle"]] += 1
        f, st = ledger(c)
        stats.update(st)
        ops = ops_of(c["line"])
        kinds = {o[0] for o in ops}
        if "W" in kinds and any(stp["head"] == "W" and stp["res"] for stp in c["steps"]) and ("I" in kinds):
            nontriv += 1
        if f:
            failing.append((i, f, None))
    # paired runs: every history under two periodicities, all in one harness run
    plines, meta = [], []
    for i, c in enumerate(cases):
        p1, p2 = PAIRS[(chk.seed + i) % len(PAIRS)]
        plines += [with_period(c["line"], p1), with_period(c["line"], p2)]
        meta.append((i, p1, p2))
    pcs = run_lines(plines) if plines else []
    n_pairs = 0
    if len(pcs) == len(plines):
        for (i, p1, p2), j in zip(meta, range(0, len(pcs), 2)):
            n_pairs += 1
            # each run of the pair also has to satisfy the ledger
            for q in (pcs[j], pcs[j + 1]):
                fq, _ = ledger(q)
                if fq:
                    failing.append((i, fq, q["line"]))
                    break
            fp, stop = compare_pair(pcs[j], pcs[j + 1], p1, p2)
            if stop is not None:
                stats["pair_tie_stops"] += 1
                stats["pair_ops_not_compared_after_tie"] += max(0, len(pcs[j]["steps"]) - stop)
            if fp:
                failing.append((i, fp, (p1, p2)))
    else:
        chk.broken.append("paired runs: %d specifications, %d outputs" % (len(plines), len(pcs)))
    chk.log("visual trackers: %d histories, %d operations, %d paired runs (%.1fs)" % (len(cases), stats["ops"], n_pairs, time.time() - t0))
    chk.coverage["visual"] = {
        "evaluations": len(cases), "operations": stats["ops"], "predicts": stats["predicts"], "empty_predicts": stats["empty_predicts"],
        "paired_runs": n_pairs, "paired_tie_stops": stats["pair_tie_stops"], "paired_ops_not_compared_after_tie": stats["pair_ops_not_compared_after_tie"],
        "distinct_nontrivial": nontriv,
        "rule": "operation histories of 12-51 operations over VisualSort / BatchVisualSort: predict (a quarter of VisualSort's predicts EMPTY), skip 1-4 epochs, "
                "wasted, idle, clear_wasted, set_auto_waste 0/1/2/100, current_epoch, active / wasted statistics; 1-3 scenes, max_idle 0-3, 1-3 stationary objects, "
                "features 100/70/0%; every history additionally under two periodicities (set_auto_waste operations replaced). non-trivial = a wasted() call "
                "handed out at least one track and idle was queried",
        "samples": [c["line"][:300] for c in cases[:3]],
        "input_distribution": dict(hist),
        "oracle_failures": len(failing),
        "wall_s": round(time.time() - t0, 1),
    }
    seen = set()
    for i, f, extra in failing:
        clause, i0, what0 = f[0]
        if clause in seen:
            continue
        seen.add(clause)
        try:
            c = cases[i]
            if clause == "paired-run":
                p1, p2 = extra

                def fails(line, p1=p1, p2=p2):
                    return any(k == "paired-run" for k, _, _ in pair_check(line, p1, p2))
                base_line = c["line"]
            else:
                def fails(line, clause=clause):
                    cs = run_lines([line])
                    return bool(cs) and any(k == clause for k, _, _ in ledger(cs[0])[0])
                base_line = extra if isinstance(extra, str) else c["line"]
            small = shrink(base_line, fails, budget=70)
            if clause == "paired-run":
                f2 = pair_check(small, p1, p2)
                runs = run_lines([with_period(small, p1), with_period(small, p2)])
            else:
                runs = run_lines([small])
                f2 = [x for x in (ledger(runs[0])[0] if runs else []) if x[0] == clause]
            trace = [[(st["head"], st["res"] if not isinstance(st["res"], list) else [(r.get("id"), r.get("len"), r.get("epoch")) for r in st["res"]],
                       [t["id"] for t in st["main"]], [t["id"] for t in st["wst"]]) for st in r["steps"]] for r in runs]
            chk.violation("C03:visual:" + clause, (f2 or f)[0][2],
                          {"stage": "visual_c03", "input": small, "tracker": c["spec"]["trk"], "clause": clause,
                           "periodicities": list(extra) if clause == "paired-run" else None,
                           "operations": ops_of(small) if len(small) < 4000 else None,
                           "oracle_failures": [list(x) for x in (f2 or f)[:6]],
                           "trace (operation, result [(id, length, epoch)], live store ids, collected store ids)": trace,
                           "other_failing_histories": len(failing) - 1,
                           "replay_cmd": "./check C03 --replay <this file>   (runs: visual replay03 --file <spec>)"})
        except Exception as ex:      # the shrinker / re-run must never take the check down: report the unshrunk history
            import traceback
            line0 = cases[i]["spec"]["line"] if "spec" in cases[i] else cases[i].get("line")
            chk.violation("C03:visual:" + clause, what0,
                          {"stage": "visual_c03", "input": line0, "clause": clause, "oracle_failures": [list(x) for x in f[:6]],
                           "note": "not shrunk: " + traceback.format_exc()[-800:]})
        if len(seen) >= 3:
            break


def c03_visual_replay(chk, path):
    rep = json.load(open(path))
    if rep.get("stage") != "visual_c03":
        return None
    vlib.harness_build(["visual"])
    if rep.get("clause") == "paired-run":
        p1, p2 = rep["periodicities"]
        f = pair_check(rep["input"], p1, p2)
    else:
        cs = run_lines([rep["input"]])
        f = ledger(cs[0])[0] if cs else [("no-output", 0, "harness printed nothing")]
        for st in (cs[0]["steps"] if cs else []):
            print("op %d %s ->" % (st["i"], st["head"]), st["res"] if not isinstance(st["res"], list) else [(r.get("id"), r.get("len"), r.get("epoch")) for r in st["res"]],
                  "live", [t["id"] for t in st["main"]], "collected", [t["id"] for t in st["wst"]])
    for x in f[:10]:
        print("oracle failure:", x)
    print("REPRODUCED" if f else "not reproduced")
    return 1 if f else 0
