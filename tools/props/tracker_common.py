"""Shared machinery of the C01 / C03 / C04 (and C20T) checks: positional SORT trackers (Sort, BatchSort).

 * history specs (text, see harness/src/bin/tracker.rs) <-> python dicts;
 * running specs on the REAL code (harness bin `tracker run`);
 * replaying them in the Coq model Model/Tracker.v (`run_case`, vm_compute) from the oracle tables and
   diffing records / lists / store contents exactly;
 * property oracles applied directly to the implementation's outputs (independent of the model);
 * shrinking of failing histories;  a cache so that the three checks share one harness + model run.
"""
import hashlib
import json
import os
import pickle
import time
from collections import Counter
from fractions import Fraction

import vlib
from vlib import f32_bits_to_fraction, q_lit

PREAMBLE = """From Coq Require Import List NArith ZArith QArith.
From Similari Require Import Model.Constraints Model.Tracker.
Import ListNotations.
Open Scope N_scope.
Definition D (u : N) (c : option Z) : detection := {| d_uid := u; d_custom := c |}.
Definition P (s : N) (l : list detection) : xop := XOp (Predict s l).
Definition TB (adds : list Constraints.table) : Constraints.table :=
  match run_adds [] adds with Some t => t | None => [] end.
"""

PERIODS = [0, 1, 2, 100]


# ------------------------------------------------------------------------------------------------
# specs

def parse_det(tok):
    f = tok.split(":")
    return {"uid": int(f[0]), "xc": int(f[1]), "yc": int(f[2]), "angle": None if f[3] == "n" else int(f[3]),
            "aspect": int(f[4]), "height": int(f[5]), "conf": int(f[6]),
            "custom": None if f[7] == "n" else int(f[7])}


def det_text(d):
    return "%d:%d:%d:%s:%d:%d:%d:%s" % (d["uid"], d["xc"], d["yc"], "n" if d["angle"] is None else str(d["angle"]),
                                       d["aspect"], d["height"], d["conf"],
                                       "n" if d["custom"] is None else str(d["custom"]))


def box_key(d):
    a = d["angle"]
    if a is None or a == 0 or a == 0x80000000:
        a = 0
    return (d["xc"], d["yc"], a, d["aspect"], d["height"], d["conf"])


def parse_op(text):
    """text = op line without the leading 'op ' (and without an index)"""
    parts = text.split(" ")
    kind = parts[0]
    kv = {}
    for p in parts[1:]:
        if "=" in p:
            k, v = p.split("=", 1)
            kv[k] = v
    if kind == "predict":
        dets = [parse_det(t) for t in kv.get("dets", "").split(";") if t]
        return {"kind": "predict", "scene": int(kv["scene"]), "dets": dets}
    if kind == "batch":
        scenes = []
        for sc in kv.get("scenes", "").split("|"):
            if not sc:
                continue
            s, ds = sc.split("@", 1)
            scenes.append((int(s), [parse_det(t) for t in ds.split(";") if t]))
        return {"kind": "batch", "scenes": scenes}
    if kind == "skip":
        return {"kind": "skip", "scene": int(kv["scene"]), "n": int(kv["n"])}
    if kind in ("idle", "epoch"):
        return {"kind": kind, "scene": int(kv["scene"])}
    if kind == "setaw":
        return {"kind": "setaw", "p": int(kv["p"])}
    if kind in ("wasted", "clear", "astats", "wstats"):
        return {"kind": kind}
    raise ValueError("bad op " + text)


def op_text(op):
    k = op["kind"]
    if k == "predict":
        return "predict scene=%d dets=%s" % (op["scene"], ";".join(det_text(d) for d in op["dets"]))
    if k == "batch":
        return "batch scenes=%s" % "|".join("%d@%s" % (s, ";".join(det_text(d) for d in ds)) for s, ds in op["scenes"])
    if k == "skip":
        return "skip scene=%d n=%d" % (op["scene"], op["n"])
    if k in ("idle", "epoch"):
        return "%s scene=%d" % (k, op["scene"])
    if k == "setaw":
        return "setaw p=%d" % op["p"]
    return k


def parse_hist_line(line):
    kv = dict(p.split("=", 1) for p in line.split(" ")[1:] if "=" in p)
    cons = None
    if kv["constraints"] != "-":
        cons = []
        for call in kv["constraints"].split("|"):
            cons.append([(int(g), int(b)) for g, b in (e.split(":") for e in call.split(",") if e)])
    m = kv["metric"]
    return {"k": int(kv["k"]), "tracker": kv["tracker"], "shards": int(kv["shards"]), "vshards": int(kv["vshards"]),
            "history": int(kv["history"]), "max_idle": int(kv["max_idle"]),
            "metric": ("maha", None) if m == "maha" else ("iou", int(m.split(":")[1])),
            "minconf": int(kv["minconf"]), "constraints": cons}


def hist_line(h):
    cons = "-" if h["constraints"] is None else "|".join(",".join("%d:%d" % e for e in call) for call in h["constraints"])
    m = "maha" if h["metric"][0] == "maha" else "iou:%d" % h["metric"][1]
    return "hist k=%d tracker=%s shards=%d vshards=%d history=%d max_idle=%d metric=%s minconf=%d constraints=%s" % (
        h["k"], h["tracker"], h["shards"], h["vshards"], h["history"], h["max_idle"], m, h["minconf"], cons)


def parse_specs(text):
    hs = []
    cur = None
    for line in text.split("\n"):
        if line.startswith("hist "):
            cur = parse_hist_line(line)
            cur["ops"] = []
        elif line.startswith("op ") and cur is not None:
            cur["ops"].append(parse_op(line[3:]))
        elif line.startswith("end") and cur is not None:
            hs.append(cur)
            cur = None
    return hs


def spec_text(h):
    return "\n".join([hist_line(h)] + ["op " + op_text(o) for o in h["ops"]] + ["end"]) + "\n"


def clone(h, **kw):
    n = dict(h)
    n["ops"] = [dict(o) for o in h["ops"]]
    n.update(kw)
    return n


def op_dets(op):
    if op["kind"] == "predict":
        return list(op["dets"])
    if op["kind"] == "batch":
        return [d for _, ds in op["scenes"] for d in ds]
    return []


# ------------------------------------------------------------------------------------------------
# implementation runs

def _int_or_none(s):
    return None if s == "n" else int(s)


def parse_rec(tok):
    f = tok.split(",")
    return {"id": int(f[0]), "epoch": int(f[1]), "scene": int(f[2]), "len": int(f[3]), "custom": _int_or_none(f[4]),
            "obs": int(f[5])}


def parse_trk(tok):
    f = tok.split(",")
    return {"id": int(f[0]), "scene": int(f[1]), "epoch": int(f[2]), "len": int(f[3]), "custom": _int_or_none(f[4]),
            "obs": [int(x) for x in f[5].split("/") if x], "npred": int(f[6])}


def parse_results(text):
    """-> list of runs {hist_line, steps:[{optext, tab, res, main, wst}], panic}"""
    runs = []
    cur = None
    step = None
    for line in text.split("\n"):
        if line.startswith("hist "):
            cur = {"hist_line": line, "steps": [], "panic": False}
            step = None
        elif cur is None:
            continue
        elif line.startswith("op "):
            rest = line[3:]
            idx, optext = rest.split(" ", 1)
            step = {"optext": optext, "tab": {}, "res": None, "main": [], "wst": []}
            cur["steps"].append(step)
        elif line.startswith("tab "):
            f = line.split(" ")
            row = {}
            for e in f[2:]:
                if not e:
                    continue
                tid, w, d = e.split(",")
                row[int(tid)] = (None if w == "n" else (w if w == "p" else int(w)), d if d == "p" else int(d))
            step["tab"][f[1] if f[1] == "p" else int(f[1])] = row
        elif line.startswith("res "):
            f = line.split(" ", 2)
            kind = f[1]
            body = f[2] if len(f) > 2 else ""
            if kind == "records" or kind == "idle":
                step["res"] = (kind, [parse_rec(t) for t in body.split(";") if t])
            elif kind == "batch":
                out = []
                for sc in body.split("|"):
                    if not sc:
                        continue
                    s, rs = sc.split("@", 1)
                    out.append((int(s), [parse_rec(t) for t in rs.split(";") if t]))
                step["res"] = ("batch", out)
            elif kind == "wasted":
                step["res"] = ("wasted", [parse_trk(t) for t in body.split(";") if t])
            elif kind == "stats":
                step["res"] = ("stats", [int(x) for x in body.split(",") if x])
            elif kind == "epoch":
                step["res"] = ("epoch", int(body))
            elif kind == "unit":
                step["res"] = ("unit", None)
            else:
                step["res"] = (kind, None)     # panic / hang
                cur["panic"] = True
        elif line.startswith("main"):
            if step is not None:
                step["main"] = [parse_trk(t) for t in line[4:].strip().split(";") if t]
        elif line.startswith("wst"):
            if step is not None:
                step["wst"] = [parse_trk(t) for t in line[3:].strip().split(";") if t]
        elif line.startswith("end"):
            runs.append(cur)
            cur = None
    return runs


_run_counter = [0]


def run_impl(hists, timeout=900):
    """run the specs on the real code; returns list of runs aligned with hists (None when missing)"""
    if not hists:
        return []
    _run_counter[0] += 1
    path = os.path.join(vlib.ALT or vlib.CACHE, "tracker_run_%d_%d.txt" % (os.getpid(), _run_counter[0]))
    with open(path, "w") as fh:
        for h in hists:
            fh.write(spec_text(h))
    rc, out, err = vlib.harness_run("tracker", ["run", "--file", path], timeout=timeout)
    try:
        os.remove(path)
    except OSError:
        pass
    runs = parse_results(out)
    if len(runs) != len(hists):
        runs = runs + [None] * (len(hists) - len(runs))
    return runs


def gen_specs(seed, n, tier):
    rc, out, err = vlib.harness_run("tracker", ["gen", "--seed", seed, "--n", n, "--tier", tier])
    return parse_specs(out)


# ------------------------------------------------------------------------------------------------
# names: a stored track is identified by (custom id, class of its last observed box) = its last detection

class Names:
    def __init__(self):
        self.cls = {}          # box key -> first uid
        self.uid_cls = {}      # uid -> class representative
        self.by_pair = {}      # (custom, cls) -> uid (None if ambiguous)
        self.dets = {}

    def add(self, d):
        k = box_key(d)
        c = self.cls.setdefault(k, d["uid"])
        self.uid_cls[d["uid"]] = c
        p = (d["custom"], c)
        self.by_pair[p] = None if p in self.by_pair else d["uid"]
        self.dets[d["uid"]] = d

    def last_uid(self, trk):
        if not trk["obs"]:
            return None
        return self.by_pair.get((trk["custom"], trk["obs"][-1]))


def thr_of(h):
    if h["metric"][0] == "maha":
        return 1000000
    t = f32_bits_to_fraction(h["metric"][1])
    prod = t * 1000000
    # f32 multiply (round to nearest even), then `as i64` (truncate)
    import struct
    f = struct.unpack("<f", struct.pack("<f", float(prod)))[0]
    return int(f)


def coq_opt_z(x):
    return "None" if x is None else "(Some (%d)%%Z)" % x


def coq_det(d):
    return "D %d %s" % (d["uid"], coq_opt_z(d["custom"]))


def batch_effective(op):
    """what a BatchSort request really contains: scenes without detections cannot be put into a
    PredictionBatchRequest (only add(scene, elt) exists)"""
    if op["kind"] == "predict":
        return [(op["scene"], op["dets"])] if op["dets"] else []
    return [(s, ds) for s, ds in op["scenes"] if ds]


def coq_ops(h):
    out = []
    batch = h["tracker"] == "batch"
    for op in h["ops"]:
        k = op["kind"]
        if k in ("predict", "batch") and batch:
            out.append("XBatch [%s]" % "; ".join("(%d, [%s])" % (s, "; ".join(coq_det(d) for d in ds))
                                                 for s, ds in batch_effective(op)))
        elif k == "predict":
            out.append("P %d [%s]" % (op["scene"], "; ".join(coq_det(d) for d in op["dets"])))
        elif k == "skip":
            out.append("XOp (Skip %d %d)" % (op["scene"], op["n"]))
        elif k == "wasted":
            out.append("XOp Wasted")
        elif k == "idle":
            out.append("XOp (Idle %d)" % op["scene"])
        elif k == "clear":
            out.append("XOp ClearWasted")
        elif k == "setaw":
            out.append("XOp (SetAutoWaste %d)" % op["p"])
        elif k == "astats":
            out.append("XOp ActiveStats")
        elif k == "wstats":
            out.append("XOp WastedStats")
        elif k == "epoch":
            out.append("XOp (CurrentEpoch %d)" % op["scene"])
        else:
            raise ValueError(k)
    return out


def build_case(h, run):
    """-> (coq term, info) or (None, reason).  The oracle table and the tie hints come from the run."""
    names = Names()
    table = []     # (cand uid, [(lastuid, w, d2r)])
    hints = []     # (tag, [lastuid or None per candidate])
    prev_main = []
    problems = []
    nsteps = len(run["steps"])
    for i, op in enumerate(h["ops"]):
        if i >= nsteps:
            break
        st = run["steps"][i]
        dets = op_dets(op)
        for d in dets:
            names.add(d)
        if dets:
            pre = {}
            for t in prev_main:
                lu = names.last_uid(t)
                if lu is None:
                    problems.append("op %d: stored track %d cannot be identified by (custom, last box)" % (i, t["id"]))
                pre[t["id"]] = lu
            for d in dets:
                row = st["tab"].get(d["uid"])
                if row is None:
                    problems.append("op %d: no oracle row for detection %d" % (i, d["uid"]))
                    row = {}
                ents = []
                for tid, (w, d2r) in sorted(row.items()):
                    lu = pre.get(tid)
                    if lu is None or w == "p" or d2r == "p":
                        if tid not in pre:
                            problems.append("op %d: oracle row names unknown track %d" % (i, tid))
                        continue
                    ents.append("(%d, (%s, %s))" % (lu, coq_opt_z(w), q_lit(f32_bits_to_fraction(d2r))))
                table.append("(%d, [%s])" % (d["uid"], "; ".join(ents)))
            # hints: which stored track (by its pre-call name) absorbed each detection, read off the store dump
            post = {}
            for t in st["main"]:
                lu = names.last_uid(t)
                if lu is not None:
                    post[lu] = t["id"]
            groups = [(op["scene"], op["dets"])] if op["kind"] == "predict" else op["scenes"]
            for _, ds in groups:
                if not ds:
                    continue
                hl = []
                for d in ds:
                    tid = post.get(d["uid"])
                    hl.append("None" if tid is None or pre.get(tid) is None else "Some %d" % pre[tid])
                hints.append("(%d, [%s])" % (ds[0]["uid"], "; ".join(hl)))
        prev_main = st["main"]
    adds = "[]" if h["constraints"] is None else "[%s]" % "; ".join(
        "[%s]" % "; ".join("(%d, %s)" % (g, q_lit(f32_bits_to_fraction(b))) for g, b in call) for call in h["constraints"])
    cfg = "{| max_idle := %d; hist_len := %d; shards := %d; thr := (%d)%%Z; table := TB %s |}" % (
        h["max_idle"], h["history"], h["shards"], thr_of(h), adds)
    ops = coq_ops(h)[:nsteps]
    term = "run_case [%s] [%s] %s [%s]" % ("; ".join(table), "; ".join(hints), cfg, "; ".join(ops))
    return term, {"names": names, "problems": problems}


# ------------------------------------------------------------------------------------------------
# comparison model <-> implementation

def _custom(v):
    if v is None:
        return None
    return v[1] if isinstance(v, tuple) else v


def model_rec(t, names):
    return {"id": t[0], "epoch": t[1], "scene": t[2], "len": t[3], "custom": _custom(t[4]),
            "obs": names.uid_cls.get(t[5], 0)}


def model_trk(t, names):
    return {"id": t[0], "scene": t[1], "epoch": t[2], "len": t[3], "custom": _custom(t[4]),
            "obs": [names.uid_cls.get(u, 0) for u in t[5]], "npred": t[6]}


class Bij:
    """implementation id -> model id, built from the predict records (first occurrence)"""
    def __init__(self, exact):
        self.f = {}
        self.g = {}
        self.exact = exact
        self.bad = None

    def add(self, impl_id, model_id):
        if self.exact and impl_id != model_id:
            self.bad = "id %d in the implementation, %d in the model" % (impl_id, model_id)
        if self.f.get(impl_id, model_id) != model_id or self.g.get(model_id, impl_id) != impl_id:
            self.bad = "ids not related by a bijection (%d vs %d)" % (impl_id, model_id)
        self.f[impl_id] = model_id
        self.g[model_id] = impl_id

    def map(self, impl_id):
        return self.f.get(impl_id, -impl_id)


def _strip(r, bij, keys):
    d = {k: r[k] for k in keys}
    d["id"] = bij.map(r["id"])
    return d


REC_KEYS = ["id", "epoch", "scene", "len", "custom", "obs"]
TRK_KEYS = ["id", "scene", "epoch", "len", "custom", "obs", "npred"]


def compare(h, run, mval, names):
    """mval: parsed result of run_case.  Returns (list of difference strings, ties, ncompared)"""
    diffs = []
    bij = Bij(exact=(h["tracker"] == "sort"))
    ties = 0
    n = 0
    for i, st in enumerate(run["steps"]):
        if st["res"] is None or st["res"][0] in ("panic", "hang"):
            diffs.append("op %d (%s): the implementation panicked / hung" % (i, st["optext"][:40]))
            break
        if i >= len(mval):
            diffs.append("op %d: no model result" % i)
            break
        (mo, mt, mmain, mwst) = mval[i]
        if mt > 1:
            ties += 1
        kind, body = st["res"]
        mk = mo[0] if isinstance(mo, tuple) else mo
        margs = mo[1] if isinstance(mo, tuple) and len(mo) > 1 else None
        n += 1

        def recs_cmp(impl, model, what):
            if len(impl) != len(model):
                diffs.append("op %d %s: %d records, model %d" % (i, what, len(impl), len(model)))
                return
            for j, (a, b) in enumerate(zip(impl, model)):
                mb = model_rec(b, names)
                bij.add(a["id"], mb["id"])
                if _strip(a, bij, REC_KEYS) != mb:
                    diffs.append("op %d %s record %d: implementation %s model %s" % (i, what, j, _strip(a, bij, REC_KEYS), mb))

        if kind == "records":
            if mk == "XRecords":
                recs_cmp(body, margs, "predict")
            elif mk == "XBatchOut":
                if len(margs) == 0:
                    if body:
                        diffs.append("op %d: records for an empty request" % i)
                else:
                    recs_cmp(body, margs[0][1], "predict")
            else:
                diffs.append("op %d: kinds differ %s %s" % (i, kind, mk))
        elif kind == "batch":
            md = {s: rs for (s, rs) in (margs or [])} if mk == "XBatchOut" else None
            if md is None:
                diffs.append("op %d: kinds differ %s %s" % (i, kind, mk))
            else:
                for s, rs in body:
                    recs_cmp(rs, md.get(s, []), "batch scene %d" % s)
        elif kind == "idle":
            a = sorted((_strip(r, bij, REC_KEYS) for r in body), key=lambda r: r["id"])
            b = sorted((model_rec(r, names) for r in (margs or [])), key=lambda r: r["id"]) if mk == "XIdle" else None
            if a != b:
                diffs.append("op %d idle: implementation %s model %s" % (i, a, b))
        elif kind == "wasted":
            a = sorted((_strip(r, bij, TRK_KEYS) for r in body), key=lambda r: r["id"])
            b = sorted((model_trk(r, names) for r in (margs or [])), key=lambda r: r["id"]) if mk == "XWasted" else None
            if a != b:
                diffs.append("op %d wasted: implementation %s model %s" % (i, a, b))
        elif kind == "stats":
            if h["tracker"] == "sort":
                if mk != "XStats" or body != margs:
                    diffs.append("op %d stats: implementation %s model %s" % (i, body, mo))
            else:
                # ids are only related by a bijection: the per-shard split is compared through it
                if mk != "XStats" or sum(body) != sum(margs):
                    diffs.append("op %d stats: implementation %s model %s" % (i, body, mo))
        elif kind == "epoch":
            if mk != "XEpoch" or body != margs:
                diffs.append("op %d epoch: implementation %s model %s" % (i, body, mo))
        elif kind == "unit":
            if mk != "XUnit" and not (mk == "XBatchOut"):
                diffs.append("op %d: kinds differ %s %s" % (i, kind, mk))
        for (nm, impl, model) in (("main store", st["main"], mmain), ("wasted store", st["wst"], mwst)):
            a = sorted((_strip(r, bij, TRK_KEYS) for r in impl), key=lambda r: r["id"])
            b = sorted((model_trk(r, names) for r in model), key=lambda r: r["id"])
            if a != b:
                diffs.append("op %d %s: implementation %s model %s" % (i, nm, a, b))
        if bij.bad:
            diffs.append("op %d: %s" % (i, bij.bad))
        if diffs:
            break
    return diffs, ties, n


def model_eval(cases, tag="trk", shard_size=6):
    """cases: list of coq terms; returns parsed values"""
    vals = vlib.coq_eval(PREAMBLE, cases, shard_size=shard_size, tag=tag, timeout=1500)
    return [vlib.parse_coq_value(v) for v in vals]


def correspondence(hists, runs, tag="trk"):
    """Replays the runs in the model.  Returns list of dicts {diffs, ties, n, problems} aligned with hists."""
    terms = []
    infos = []
    idx = []
    res = [None] * len(hists)
    for k, (h, r) in enumerate(zip(hists, runs)):
        if r is None:
            res[k] = {"diffs": ["no implementation run"], "ties": 0, "n": 0, "problems": []}
            continue
        term, info = build_case(h, r)
        terms.append(term)
        infos.append(info)
        idx.append(k)
    n = max(1, min(12, (len(terms) + 15) // 16))
    vals = model_eval(terms, tag=tag, shard_size=n) if terms else []
    for k, v, info in zip(idx, vals, infos):
        diffs, ties, n = compare(hists[k], runs[k], v, info["names"])
        if info["problems"] and not diffs:
            diffs = ["harness/driver could not name a stored track: " + info["problems"][0]]
        res[k] = {"diffs": diffs, "ties": ties, "n": n, "problems": info["problems"]}
    return res


# ------------------------------------------------------------------------------------------------
# the shared base run (cached per seed / tier / binaries)

def _file_hash(p):
    try:
        return hashlib.sha256(open(p, "rb").read()).hexdigest()
    except OSError:
        return "-"


def base_run(chk, n_hist):
    """generate, run the implementation, replay in the model.  Cached: C01/C03/C04 share it."""
    key = hashlib.sha256(("|".join([
        str(chk.seed), chk.tier, str(n_hist),
        _file_hash(vlib.harness_bin("tracker")),
        _file_hash(os.path.join(vlib.COQ, "theories", "Model", "Tracker.vo")),
        _file_hash(os.path.abspath(__file__))])).encode()).hexdigest()[:20]
    cdir = os.path.join(vlib.ALT or vlib.CACHE, "tracker_base")
    os.makedirs(cdir, exist_ok=True)
    path = os.path.join(cdir, key + ".pkl")
    if os.path.exists(path):
        try:
            with open(path, "rb") as fh:
                data = pickle.load(fh)
            chk.log("base run: cache hit (%d histories)" % len(data["hists"]))
            return data
        except Exception:
            pass
    t0 = time.time()
    hists = gen_specs(chk.seed, n_hist, chk.tier)
    runs = run_impl(hists)
    t1 = time.time()
    model_ok = os.path.exists(os.path.join(vlib.COQ, "theories", "Model", "Tracker.vo"))
    corr = None
    err = None
    if model_ok:
        try:
            corr = correspondence(hists, runs, tag="trkbase")
        except RuntimeError as e:
            err = str(e)[-2000:]
    data = {"hists": hists, "runs": runs, "corr": corr, "model_error": err,
            "impl_s": round(t1 - t0, 1), "model_s": round(time.time() - t1, 1)}
    for f in os.listdir(cdir):
        try:
            os.remove(os.path.join(cdir, f))
        except OSError:
            pass
    with open(path, "wb") as fh:
        pickle.dump(data, fh)
    chk.log("base run: %d histories, implementation %.1fs, model %.1fs" % (len(hists), data["impl_s"], data["model_s"]))
    return data
