"""Shared machinery of the C01 / C03 / C04 (and C20T) checks: positional SORT trackers (Sort, BatchSort).

 * history specs (text, see harness/src/bin/tracker.rs) <-> python dicts;
 * running specs on the REAL code (harness bin `tracker run`);
 * replaying them in the Coq model Model/Tracker.v (`run_case`, vm_compute) from the oracle tables and
   diffing records / lists / store contents exactly;
 * property oracles applied directly to the implementation's outputs (independent of the model);
 * shrinking of failing histories;  a cache so that the three checks share one harness + model run.
"""
import hashlib
import json
import os
import pickle
import time
from collections import Counter
from fractions import Fraction

import vlib
from vlib import f32_bits_to_fraction, q_lit

PREAMBLE = """From Coq Require Import List NArith ZArith QArith.
From Similari Require Import Model.Constraints Model.Tracker.
Import ListNotations.
Open Scope N_scope.
Definition D (u : N) (c : option Z) : detection := {| d_uid := u; d_custom := c |}.
Definition P (s : N) (l : list detection) : xop := XOp (Predict s l).
Definition TB (adds : list Constraints.table) : Constraints.table :=
  match run_adds [] adds with Some t => t | None => [] end.
"""

PERIODS = [0, 1, 2, 100]


def is_batch(h):
    return h["tracker"] in ("batch", "batchvisual")


def is_visual(h):
    return h["tracker"] in ("visual", "batchvisual")


def exact_ids(h):
    return h["tracker"] in ("sort", "visual")


# ------------------------------------------------------------------------------------------------
# specs

def parse_det(tok):
    f = tok.split(":")
    d = {"uid": int(f[0]), "xc": int(f[1]), "yc": int(f[2]), "angle": None if f[3] == "n" else int(f[3]),
         "aspect": int(f[4]), "height": int(f[5]), "conf": int(f[6]),
         "custom": None if f[7] == "n" else int(f[7])}
    if len(f) >= 10:          # visual kinds: feature quality and feature vector (kept verbatim)
        d["q"] = f[8]
        d["feat"] = f[9]
    return d


def det_text(d):
    t = "%d:%d:%d:%s:%d:%d:%d:%s" % (d["uid"], d["xc"], d["yc"], "n" if d["angle"] is None else str(d["angle"]),
                                    d["aspect"], d["height"], d["conf"],
                                    "n" if d["custom"] is None else str(d["custom"]))
    if "q" in d:
        t += ":%s:%s" % (d["q"], d["feat"])
    return t


def box_key(d):
    a = d["angle"]
    if a is None or a == 0 or a == 0x80000000:
        a = 0
    return (d["xc"], d["yc"], a, d["aspect"], d["height"], d["conf"])


def parse_op(text):
    """text = op line without the leading 'op ' (and without an index)"""
    parts = text.split(" ")
    kind = parts[0]
    kv = {}
    for p in parts[1:]:
        if "=" in p:
            k, v = p.split("=", 1)
            kv[k] = v
    if kind == "predict":
        dets = [parse_det(t) for t in kv.get("dets", "").split(";") if t]
        return {"kind": "predict", "scene": int(kv["scene"]), "dets": dets}
    if kind == "batch":
        scenes = []
        for sc in kv.get("scenes", "").split("|"):
            if not sc:
                continue
            s, ds = sc.split("@", 1)
            scenes.append((int(s), [parse_det(t) for t in ds.split(";") if t]))
        return {"kind": "batch", "scenes": scenes}
    if kind == "skip":
        return {"kind": "skip", "scene": int(kv["scene"]), "n": int(kv["n"])}
    if kind == "skip0":
        # the scene-less TrackerAPI::skip_epochs(n): documented to act on scene 0 - for the model, the ledger and the
        # projections it IS `skip scene=0 n`; only the harness calls the other entry point
        return {"kind": "skip", "scene": 0, "n": int(kv["n"]), "sceneless": True}
    if kind in ("idle", "epoch"):
        return {"kind": kind, "scene": int(kv["scene"])}
    if kind == "setaw":
        return {"kind": "setaw", "p": int(kv["p"])}
    if kind in ("wasted", "clear", "astats", "wstats"):
        return {"kind": kind}
    raise ValueError("bad op " + text)


def op_text(op):
    k = op["kind"]
    if k == "predict":
        return "predict scene=%d dets=%s" % (op["scene"], ";".join(det_text(d) for d in op["dets"]))
    if k == "batch":
        return "batch scenes=%s" % "|".join("%d@%s" % (s, ";".join(det_text(d) for d in ds)) for s, ds in op["scenes"])
    if k == "skip":
        if op.get("sceneless"):
            return "skip0 n=%d" % op["n"]
        return "skip scene=%d n=%d" % (op["scene"], op["n"])
    if k in ("idle", "epoch"):
        return "%s scene=%d" % (k, op["scene"])
    if k == "setaw":
        return "setaw p=%d" % op["p"]
    return k


def parse_hist_line(line):
    kv = dict(p.split("=", 1) for p in line.split(" ")[1:] if "=" in p)
    cons = None
    if kv["constraints"] != "-":
        cons = []
        for call in kv["constraints"].split("|"):
            cons.append([(int(g), int(b)) for g, b in (e.split(":") for e in call.split(",") if e)])
    m = kv["metric"]
    return {"k": int(kv["k"]), "tracker": kv["tracker"], "shards": int(kv["shards"]), "vshards": int(kv["vshards"]),
            "history": int(kv["history"]), "max_idle": int(kv["max_idle"]),
            "metric": ("maha", None) if m == "maha" else ("iou", int(m.split(":")[1])),
            "minconf": int(kv["minconf"]), "constraints": cons,
            "vopts": [(k, kv[k]) for k in ("vis", "votes", "minlen", "maxobs", "quse", "qcol") if k in kv]}


def hist_line(h):
    cons = "-" if h["constraints"] is None else "|".join(",".join("%d:%d" % e for e in call) for call in h["constraints"])
    m = "maha" if h["metric"][0] == "maha" else "iou:%d" % h["metric"][1]
    t = "hist k=%d tracker=%s shards=%d vshards=%d history=%d max_idle=%d metric=%s minconf=%d constraints=%s" % (
        h["k"], h["tracker"], h["shards"], h["vshards"], h["history"], h["max_idle"], m, h["minconf"], cons)
    for k, v in h.get("vopts", []):
        t += " %s=%s" % (k, v)
    return t


def parse_specs(text):
    hs = []
    cur = None
    for line in text.split("\n"):
        if line.startswith("hist "):
            cur = parse_hist_line(line)
            cur["ops"] = []
        elif line.startswith("op ") and cur is not None:
            cur["ops"].append(parse_op(line[3:]))
        elif line.startswith("end") and cur is not None:
            hs.append(cur)
            cur = None
    return hs


def spec_text(h):
    return "\n".join([hist_line(h)] + ["op " + op_text(o) for o in h["ops"]] + ["end"]) + "\n"


def clone(h, **kw):
    n = dict(h)
    n["ops"] = [dict(o) for o in h["ops"]]
    n.update(kw)
    return n


def op_dets(op):
    if op["kind"] == "predict":
        return list(op["dets"])
    if op["kind"] == "batch":
        return [d for _, ds in op["scenes"] for d in ds]
    return []


# ------------------------------------------------------------------------------------------------
# implementation runs

def _int_or_none(s):
    return None if s == "n" else int(s)


def parse_rec(tok):
    f = tok.split(",")
    return {"id": int(f[0]), "epoch": int(f[1]), "scene": int(f[2]), "len": int(f[3]), "custom": _int_or_none(f[4]),
            "obs": int(f[5])}


def parse_trk(tok):
    f = tok.split(",")
    return {"id": int(f[0]), "scene": int(f[1]), "epoch": int(f[2]), "len": int(f[3]), "custom": _int_or_none(f[4]),
            "obs": [int(x) for x in f[5].split("/") if x], "npred": int(f[6])}


def parse_results(text):
    """-> list of runs {hist_line, steps:[{optext, tab, res, main, wst}], panic}"""
    runs = []
    cur = None
    step = None
    for line in text.split("\n"):
        if line.startswith("hist "):
            cur = {"hist_line": line, "steps": [], "panic": False}
            step = None
        elif cur is None:
            continue
        elif line.startswith("op "):
            rest = line[3:]
            idx, optext = rest.split(" ", 1)
            step = {"optext": optext, "tab": {}, "res": None, "main": [], "wst": []}
            cur["steps"].append(step)
        elif line.startswith("tab "):
            f = line.split(" ")
            row = {}
            for e in f[2:]:
                if not e:
                    continue
                tid, w, d = e.split(",")
                row[int(tid)] = (None if w == "n" else (w if w in ("p", "v") else int(w)), d if d == "p" else int(d))
            step["tab"][f[1] if f[1] == "p" else int(f[1])] = row
        elif line.startswith("res "):
            f = line.split(" ", 2)
            kind = f[1]
            body = f[2] if len(f) > 2 else ""
            if kind == "records" or kind == "idle":
                step["res"] = (kind, [parse_rec(t) for t in body.split(";") if t])
            elif kind == "batch":
                out = []
                for sc in body.split("|"):
                    if not sc:
                        continue
                    s, rs = sc.split("@", 1)
                    out.append((int(s), [parse_rec(t) for t in rs.split(";") if t]))
                step["res"] = ("batch", out)
            elif kind == "wasted":
                step["res"] = ("wasted", [parse_trk(t) for t in body.split(";") if t])
            elif kind == "stats":
                step["res"] = ("stats", [int(x) for x in body.split(",") if x])
            elif kind == "epoch":
                step["res"] = ("epoch", int(body))
            elif kind == "unit":
                step["res"] = ("unit", None)
            else:
                step["res"] = (kind, None)     # panic / hang
                cur["panic"] = True
        elif line.startswith("main"):
            if step is not None:
                step["main"] = [parse_trk(t) for t in line[4:].strip().split(";") if t]
        elif line.startswith("wst"):
            if step is not None:
                step["wst"] = [parse_trk(t) for t in line[3:].strip().split(";") if t]
        elif line.startswith("end"):
            runs.append(cur)
            cur = None
    return runs


_run_counter = [0]


def run_impl(hists, timeout=900):
    """run the specs on the real code; returns list of runs aligned with hists (None when missing)"""
    if not hists:
        return []
    _run_counter[0] += 1
    path = os.path.join(vlib.ALT or vlib.CACHE, "tracker_run_%d_%d.txt" % (os.getpid(), _run_counter[0]))
    with open(path, "w") as fh:
        for h in hists:
            fh.write(spec_text(h))
    rc, out, err = vlib.harness_run("tracker", ["run", "--file", path], timeout=timeout)
    try:
        os.remove(path)
    except OSError:
        pass
    runs = parse_results(out)
    if len(runs) != len(hists):
        runs = runs + [None] * (len(hists) - len(runs))
    return runs


def gen_specs(seed, n, tier, kinds="sort"):
    args = ["gen", "--seed", seed, "--n", n, "--tier", tier]
    if kinds != "sort":
        args += ["--kinds", kinds]
    rc, out, err = vlib.harness_run("tracker", args)
    return parse_specs(out)


# ------------------------------------------------------------------------------------------------
# names: a stored track is identified by (custom id, class of its last observed box) = its last detection

class Names:
    def __init__(self):
        self.cls = {}          # box key -> first uid
        self.uid_cls = {}      # uid -> class representative
        self.by_pair = {}      # (custom, cls) -> uid (None if ambiguous)
        self.dets = {}

    def add(self, d):
        k = box_key(d)
        c = self.cls.setdefault(k, d["uid"])
        self.uid_cls[d["uid"]] = c
        p = (d["custom"], c)
        self.by_pair[p] = None if p in self.by_pair else d["uid"]
        self.dets[d["uid"]] = d

    def last_uid(self, trk):
        if not trk["obs"]:
            return None
        return self.by_pair.get((trk["custom"], trk["obs"][-1]))


def thr_of(h):
    if h["metric"][0] == "maha":
        return 1000000
    t = f32_bits_to_fraction(h["metric"][1])
    prod = t * 1000000
    # f32 multiply (round to nearest even), then `as i64` (truncate)
    import struct
    f = struct.unpack("<f", struct.pack("<f", float(prod)))[0]
    return int(f)


def coq_opt_z(x):
    return "None" if x is None else "(Some (%d)%%Z)" % x


def coq_det(d):
    return "D %d %s" % (d["uid"], coq_opt_z(d["custom"]))


def batch_effective(op):
    """what a BatchSort request really contains: scenes without detections cannot be put into a
    PredictionBatchRequest (only add(scene, elt) exists)"""
    if op["kind"] == "predict":
        return [(op["scene"], op["dets"])] if op["dets"] else []
    return [(s, ds) for s, ds in op["scenes"] if ds]


def coq_ops(h):
    out = []
    batch = is_batch(h)
    for op in h["ops"]:
        k = op["kind"]
        if k in ("predict", "batch") and batch:
            out.append("XBatch [%s]" % "; ".join("(%d, [%s])" % (s, "; ".join(coq_det(d) for d in ds))
                                                 for s, ds in batch_effective(op)))
        elif k == "predict":
            out.append("P %d [%s]" % (op["scene"], "; ".join(coq_det(d) for d in op["dets"])))
        elif k == "skip":
            out.append("XOp (Skip %d %d)" % (op["scene"], op["n"]))
        elif k == "wasted":
            out.append("XOp Wasted")
        elif k == "idle":
            out.append("XOp (Idle %d)" % op["scene"])
        elif k == "clear":
            out.append("XOp ClearWasted")
        elif k == "setaw":
            out.append("XOp (SetAutoWaste %d)" % op["p"])
        elif k == "astats":
            out.append("XOp ActiveStats")
        elif k == "wstats":
            out.append("XOp WastedStats")
        elif k == "epoch":
            out.append("XOp (CurrentEpoch %d)" % op["scene"])
        else:
            raise ValueError(k)
    return out


def build_case(h, run):
    """-> (coq term, info) or (None, reason).  The oracle table and the tie hints come from the run."""
    names = Names()
    table = []     # (cand uid, [(lastuid, w, d2r)])
    hints = []     # (tag, [lastuid or None per candidate])
    prev_main = []
    problems = []
    nsteps = len(run["steps"])
    for i, op in enumerate(h["ops"]):
        if i >= nsteps:
            break
        st = run["steps"][i]
        dets = op_dets(op)
        for d in dets:
            names.add(d)
        if dets:
            pre = {}
            for t in prev_main:
                lu = names.last_uid(t)
                if lu is None:
                    problems.append("op %d: stored track %d cannot be identified by (custom, last box)" % (i, t["id"]))
                pre[t["id"]] = lu
            for d in dets:
                row = st["tab"].get(d["uid"])
                if row is None:
                    problems.append("op %d: no oracle row for detection %d" % (i, d["uid"]))
                    row = {}
                ents = []
                for tid, (w, d2r) in sorted(row.items()):
                    lu = pre.get(tid)
                    if lu is None or w == "p" or d2r == "p":
                        if tid not in pre:
                            problems.append("op %d: oracle row names unknown track %d" % (i, tid))
                        continue
                    if is_visual(h):
                        # "offered": the pair yields some metric (positional or visual); the value is irrelevant
                        w = None if w is None else 0
                    ents.append("(%d, (%s, %s))" % (lu, coq_opt_z(w), q_lit(f32_bits_to_fraction(d2r))))
                table.append("(%d, [%s])" % (d["uid"], "; ".join(ents)))
            # hints: which stored track (by its pre-call name) absorbed each detection, read off the store dump
            post = {}
            for t in st["main"]:
                lu = names.last_uid(t)
                if lu is not None:
                    post[lu] = t["id"]
            groups = [(op["scene"], op["dets"])] if op["kind"] == "predict" else op["scenes"]
            rec_groups = {}
            if is_visual(h) and st["res"]:
                # visual kinds: the association is read from the RECORDS (existing id vs new), as the contract states it
                if st["res"][0] == "records":
                    rec_groups = {op.get("scene"): st["res"][1]}
                elif st["res"][0] == "batch":
                    rec_groups = dict(st["res"][1])
            for sc, ds in groups:
                if not ds:
                    continue
                hl = []
                if is_visual(h):
                    recs = rec_groups.get(sc) or []
                    for j, d in enumerate(ds):
                        tid = recs[j]["id"] if j < len(recs) else None
                        hl.append("Some %d" % pre[tid] if tid in pre and pre[tid] is not None else "None")
                else:
                    for d in ds:
                        tid = post.get(d["uid"])
                        hl.append("None" if tid is None or pre.get(tid) is None else "Some %d" % pre[tid])
                hints.append("(%d, [%s])" % (ds[0]["uid"], "; ".join(hl)))
        prev_main = st["main"]
    adds = "[]" if h["constraints"] is None else "[%s]" % "; ".join(
        "[%s]" % "; ".join("(%d, %s)" % (g, q_lit(f32_bits_to_fraction(b))) for g, b in call) for call in h["constraints"])
    cfg = "{| max_idle := %d; hist_len := %d; shards := %d; thr := (%d)%%Z; table := TB %s |}" % (
        h["max_idle"], h["history"], h["shards"], thr_of(h), adds)
    ops = coq_ops(h)[:nsteps]
    term = "%s [%s] [%s] %s [%s]" % ("run_case_given" if is_visual(h) else "run_case",
                                     "; ".join(table), "; ".join(hints), cfg, "; ".join(ops))
    term_assign = "run_case_assign [%s] %s [%s]" % ("; ".join(table), cfg, "; ".join(ops))
    return term, {"names": names, "problems": problems, "assign_term": term_assign}


# ------------------------------------------------------------------------------------------------
# comparison model <-> implementation

def _custom(v):
    if v is None:
        return None
    return v[1] if isinstance(v, tuple) else v


def model_rec(t, names):
    return {"id": t[0], "epoch": t[1], "scene": t[2], "len": t[3], "custom": _custom(t[4]),
            "obs": names.uid_cls.get(t[5], 0)}


def model_trk(t, names):
    return {"id": t[0], "scene": t[1], "epoch": t[2], "len": t[3], "custom": _custom(t[4]),
            "obs": [names.uid_cls.get(u, 0) for u in t[5]], "npred": t[6]}


class Bij:
    """implementation id -> model id, built from the predict records (first occurrence)"""
    def __init__(self, exact):
        self.f = {}
        self.g = {}
        self.exact = exact
        self.bad = None

    def add(self, impl_id, model_id):
        if self.exact and impl_id != model_id:
            self.bad = "id %d in the implementation, %d in the model" % (impl_id, model_id)
        if self.f.get(impl_id, model_id) != model_id or self.g.get(model_id, impl_id) != impl_id:
            self.bad = "ids not related by a bijection (%d vs %d)" % (impl_id, model_id)
        self.f[impl_id] = model_id
        self.g[model_id] = impl_id

    def map(self, impl_id):
        return self.f.get(impl_id, -impl_id)


def _strip(r, bij, keys):
    d = {k: r[k] for k in keys}
    d["id"] = bij.map(r["id"])
    return d


REC_KEYS = ["id", "epoch", "scene", "len", "custom", "obs"]
TRK_KEYS = ["id", "scene", "epoch", "len", "custom", "obs", "npred"]


def compare(h, run, mval, names):
    """mval: parsed result of run_case.  Returns (list of difference strings, ties, ncompared)"""
    diffs = []
    bij = Bij(exact=exact_ids(h))
    ties = 0
    n = 0
    rejected = []
    for i, st in enumerate(run["steps"]):
        if st["res"] is None or st["res"][0] in ("panic", "hang"):
            diffs.append("op %d (%s): the implementation panicked / hung" % (i, st["optext"][:40]))
            break
        if i >= len(mval):
            diffs.append("op %d: no model result" % i)
            break
        (mo, mt, mmain, mwst) = mval[i]
        if mt > 1:
            ties += 1
        if is_visual(h) and mt == 0:
            # the implementation's association did not pass the interface check of the model (given_solver)
            rejected.append(i)
        kind, body = st["res"]
        mk = mo[0] if isinstance(mo, tuple) else mo
        margs = mo[1] if isinstance(mo, tuple) and len(mo) > 1 else None
        n += 1

        def recs_cmp(impl, model, what):
            if len(impl) != len(model):
                diffs.append("op %d %s: %d records, model %d" % (i, what, len(impl), len(model)))
                return
            for j, (a, b) in enumerate(zip(impl, model)):
                mb = model_rec(b, names)
                bij.add(a["id"], mb["id"])
                if _strip(a, bij, REC_KEYS) != mb:
                    diffs.append("op %d %s record %d: implementation %s model %s" % (i, what, j, _strip(a, bij, REC_KEYS), mb))

        if kind == "records":
            if mk == "XRecords":
                recs_cmp(body, margs, "predict")
            elif mk == "XBatchOut":
                if len(margs) == 0:
                    if body:
                        diffs.append("op %d: records for an empty request" % i)
                else:
                    recs_cmp(body, margs[0][1], "predict")
            else:
                diffs.append("op %d: kinds differ %s %s" % (i, kind, mk))
        elif kind == "batch":
            md = {s: rs for (s, rs) in (margs or [])} if mk == "XBatchOut" else None
            if md is None:
                diffs.append("op %d: kinds differ %s %s" % (i, kind, mk))
            else:
                for s, rs in body:
                    recs_cmp(rs, md.get(s, []), "batch scene %d" % s)
        elif kind == "idle":
            a = sorted((_strip(r, bij, REC_KEYS) for r in body), key=lambda r: r["id"])
            b = sorted((model_rec(r, names) for r in (margs or [])), key=lambda r: r["id"]) if mk == "XIdle" else None
            if a != b:
                diffs.append("op %d idle: implementation %s model %s" % (i, a, b))
        elif kind == "wasted":
            a = sorted((_strip(r, bij, TRK_KEYS) for r in body), key=lambda r: r["id"])
            b = sorted((model_trk(r, names) for r in (margs or [])), key=lambda r: r["id"]) if mk == "XWasted" else None
            if a != b:
                diffs.append("op %d wasted: implementation %s model %s" % (i, a, b))
        elif kind == "stats":
            # totals and shard count (the split over the shards is id mod n in the model; the properties only speak
            # about the number of tracks held, and BatchSort ids are related by a bijection only)
            if mk != "XStats" or sum(body) != sum(margs) or len(body) != len(margs):
                diffs.append("op %d stats: implementation %s model %s" % (i, body, mo))
        elif kind == "epoch":
            if mk != "XEpoch" or body != margs:
                diffs.append("op %d epoch: implementation %s model %s" % (i, body, mo))
        elif kind == "unit":
            if mk != "XUnit" and not (mk == "XBatchOut"):
                diffs.append("op %d: kinds differ %s %s" % (i, kind, mk))
        for (nm, impl, model) in (("main store", st["main"], mmain), ("wasted store", st["wst"], mwst)):
            a = sorted((_strip(r, bij, TRK_KEYS) for r in impl), key=lambda r: r["id"])
            b = sorted((model_trk(r, names) for r in model), key=lambda r: r["id"])
            if a != b:
                diffs.append("op %d %s: implementation %s model %s" % (i, nm, a, b))
        if bij.bad:
            diffs.append("op %d: %s" % (i, bij.bad))
        if diffs:
            break
    compare.last_rejected = rejected
    return diffs, ties, n


def model_eval(cases, tag="trk", shard_size=6):
    """cases: list of coq terms; returns parsed values"""
    vals = vlib.coq_eval(PREAMBLE, cases, shard_size=shard_size, tag=tag, timeout=1500)
    return [vlib.parse_coq_value(v) for v in vals]


def correspondence(hists, runs, tag="trk"):
    """Replays the runs in the model.  Returns list of dicts {diffs, ties, n, problems} aligned with hists."""
    terms = []
    infos = []
    idx = []
    res = [None] * len(hists)
    for k, (h, r) in enumerate(zip(hists, runs)):
        if r is None:
            res[k] = {"diffs": ["no implementation run"], "ties": 0, "n": 0, "problems": [], "rejected": []}
            continue
        term, info = build_case(h, r)
        terms.append(term)
        infos.append(info)
        idx.append(k)
    n = max(1, min(12, (len(terms) + 15) // 16))
    vals = model_eval(terms, tag=tag, shard_size=n) if terms else []
    for k, v, info in zip(idx, vals, infos):
        diffs, ties, n = compare(hists[k], runs[k], v, info["names"])
        rej = list(compare.last_rejected)
        if info["problems"] and not diffs:
            diffs = ["harness/driver could not name a stored track: " + info["problems"][0]]
        res[k] = {"diffs": diffs, "ties": ties, "n": n, "problems": info["problems"], "rejected": rej}
    return res


# ------------------------------------------------------------------------------------------------
# the shared base run (cached per seed / tier / binaries)

def _file_hash(p):
    try:
        return hashlib.sha256(open(p, "rb").read()).hexdigest()
    except OSError:
        return "-"


def base_run(chk, n_hist):
    """generate, run the implementation, replay in the model.  Cached: C01/C03/C04 share it."""
    key = hashlib.sha256(("|".join([
        str(chk.seed), chk.tier, str(n_hist),
        _file_hash(vlib.harness_bin("tracker")),
        _file_hash(os.path.join(vlib.COQ, "theories", "Model", "Tracker.vo")),
        _file_hash(os.path.abspath(__file__))])).encode()).hexdigest()[:20]
    cdir = os.path.join(vlib.ALT or vlib.CACHE, "tracker_base")
    os.makedirs(cdir, exist_ok=True)
    path = os.path.join(cdir, key + ".pkl")
    if os.path.exists(path):
        try:
            with open(path, "rb") as fh:
                data = pickle.load(fh)
            chk.log("base run: cache hit (%d histories)" % len(data["hists"]))
            return data
        except Exception:
            pass
    t0 = time.time()
    hists = gen_specs(chk.seed, n_hist, chk.tier)
    n_vis = 60 if chk.tier == "quick" else 400
    vh = gen_specs(chk.seed, n_vis, chk.tier, kinds="visual")
    for h in vh:
        h["k"] += 100000          # distinct labels: the visual family
    hists = hists + vh
    runs = run_impl(hists)
    t1 = time.time()
    model_ok = os.path.exists(os.path.join(vlib.COQ, "theories", "Model", "Tracker.vo"))
    corr = None
    err = None
    if model_ok:
        try:
            corr = correspondence(hists, runs, tag="trkbase")
        except RuntimeError as e:
            err = str(e)[-2000:]
    data = {"hists": hists, "runs": runs, "corr": corr, "model_error": err,
            "impl_s": round(t1 - t0, 1), "model_s": round(time.time() - t1, 1)}
    for f in os.listdir(cdir):
        try:
            os.remove(os.path.join(cdir, f))
        except OSError:
            pass
    with open(path, "wb") as fh:
        pickle.dump(data, fh)
    chk.log("base run: %d histories, implementation %.1fs, model %.1fs" % (len(hists), data["impl_s"], data["model_s"]))
    return data


# ------------------------------------------------------------------------------------------------
# property oracles applied DIRECTLY to the implementation's outputs (independent of the Coq model)

class Ledger:
    """Bookkeeping by the letter of the property texts: epochs, tracks, places."""

    def __init__(self, h):
        self.h = h
        self.batch = is_batch(h)
        self.epoch = {}            # scene -> epoch
        self.tracks = {}           # id -> {"scene", "dets": [uids], "last": epoch}
        self.det_track = {}        # uid -> id
        self.delivered = set()
        self.cleared = set()
        self.collected = set()     # expired tracks moved to the store of collected tracks, not yet handed out / cleared
        self.aw_cnt = 100          # AutoWaste.counter / .periodicity (DEFAULT_AUTO_WASTE_PERIODICITY)
        self.aw_per = 100
        self.names = Names()

    def collect(self, max_idle):
        """a collection pass (skip_epochs, wasted(), the periodic pass of predict): every expired track still live is
        moved to the store of collected expired tracks"""
        for tid, t in self.tracks.items():
            if tid in self.collected or tid in self.delivered or tid in self.cleared:
                continue
            if self.ep(t["scene"]) - t["last"] > max_idle:
                self.collected.add(tid)

    def prologue(self, max_idle):
        if self.aw_cnt == 0:
            self.collect(max_idle)
            self.aw_cnt = self.aw_per
        else:
            self.aw_cnt -= 1

    def ep(self, s):
        return self.epoch.get(s, 0)


def oracle_history(h, run, want=("C01", "C03", "C04")):
    """Returns list of (prop, key, message, step index).  Sound: only flags what the property texts forbid."""
    out = []
    L = Ledger(h)
    max_idle = h["max_idle"]
    prev_main, prev_wst = [], []
    cleared_seen = False

    def flag(prop, key, msg, i):
        if prop in want:
            out.append((prop, key, msg, i))

    for i, op in enumerate(h["ops"]):
        if i >= len(run["steps"]):
            break
        st = run["steps"][i]
        kind, body = st["res"] if st["res"] else ("none", None)
        if kind in ("panic", "hang", "none"):
            flag("C01", "panic", "op %d (%s) panicked or hung" % (i, op["kind"]), i)
            flag("C03", "panic", "op %d (%s) panicked or hung" % (i, op["kind"]), i)
            break
        k = op["kind"]
        for d in op_dets(op):
            L.names.add(d)
        if k in ("predict", "batch"):
            if k == "predict":
                groups = [(op["scene"], op["dets"], body if kind == "records" else None)]
            else:
                bd = dict(body) if kind == "batch" else {}
                groups = [(s, ds, bd.get(s, [] if not ds else None)) for s, ds in op["scenes"]]
            seen_ids = set()
            L.prologue(max_idle)
            for scene, dets, recs in groups:
                if L.batch and not dets:
                    # a BatchSort request cannot carry a scene without detections: nothing was submitted
                    if recs:
                        flag("C01", "count", "op %d: records returned for a scene without detections" % i, i)
                    continue
                L.epoch[scene] = L.ep(scene) + 1
                e = L.ep(scene)
                if recs is None:
                    flag("C01", "count", "op %d scene %d: no result for the scene" % (i, scene), i)
                    continue
                if len(recs) != len(dets):
                    flag("C01", "count", "op %d scene %d: %d detections, %d records" % (i, scene, len(dets), len(recs)), i)
                for j, (d, r) in enumerate(zip(dets, recs)):
                    if r["obs"] != L.names.uid_cls[d["uid"]]:
                        flag("C01", "echo-box", "op %d: record %d does not echo the observed box of detection %d (in submission order)" % (i, j, d["uid"]), i)
                    if r["custom"] != d["custom"]:
                        flag("C01", "echo-custom", "op %d: record %d custom id %s, detection %s" % (i, j, r["custom"], d["custom"]), i)
                    if r["scene"] != scene:
                        flag("C01", "echo-scene", "op %d: record %d scene %d, call scene %d" % (i, j, r["scene"], scene), i)
                        flag("C04", "cross-scene", "op %d: detection of scene %d got a record of scene %d" % (i, scene, r["scene"]), i)
                    if r["epoch"] != e:
                        flag("C01", "epoch", "op %d: record %d epoch %d, scene epoch %d" % (i, j, r["epoch"], e), i)
                    if r["id"] in seen_ids:
                        flag("C01", "dup-id", "op %d: track id %d given to two detections of one call" % (i, r["id"]), i)
                    seen_ids.add(r["id"])
                    t = L.tracks.get(r["id"])
                    if t is None:
                        L.tracks[r["id"]] = t = {"scene": scene, "dets": [], "last": e}
                    else:
                        # continuing an existing id
                        if r["id"] in L.delivered or r["id"] in L.cleared:
                            flag("C01", "id-reuse", "op %d: id %d was issued before (that track was already handed out / cleared)" % (i, r["id"]), i)
                            flag("C03", "one-place", "op %d: id %d is live again after having been handed out / cleared" % (i, r["id"]), i)
                        if t["scene"] != scene:
                            flag("C04", "cross-scene", "op %d: detection %d of scene %d attached to track %d of scene %d" % (i, d["uid"], scene, r["id"], t["scene"]), i)
                        if e - t["last"] > max_idle:
                            flag("C03", "expired-continued", "op %d: track %d (last update %d, scene epoch %d, max_idle %d) was expired but continued" % (i, r["id"], t["last"], e, max_idle), i)
                    t["dets"].append(d["uid"])
                    t["last"] = e
                    L.det_track[d["uid"]] = r["id"]
                    if r["len"] != len(t["dets"]):
                        if len(t["dets"]) == 1 and r["len"] > 1:
                            flag("C01", "id-reuse", "op %d: new track got id %d whose stored length is %d" % (i, r["id"], r["len"]), i)
                        flag("C01", "length", "op %d: record %d length %d, %d detections attached to track %d" % (i, j, r["len"], len(t["dets"]), r["id"]), i)
        elif k == "skip":
            L.epoch[op["scene"]] = L.ep(op["scene"]) + op["n"]
            L.collect(max_idle)        # skip_epochs forces a collection pass
        elif k == "setaw":
            L.aw_per = op["p"]
            L.aw_cnt = 0
        elif k == "epoch":
            if body != L.ep(op["scene"]):
                flag("C03", "epoch", "op %d: current_epoch(%d) = %d, expected %d (one per predict, n per skip)" % (i, op["scene"], body, L.ep(op["scene"])), i)
        elif k == "wasted":
            got = sorted(t["id"] for t in body)
            pool = {t["id"]: t for t in prev_main + prev_wst}
            exp = sorted(tid for tid in pool if tid in L.tracks and L.ep(L.tracks[tid]["scene"]) - L.tracks[tid]["last"] > max_idle)
            if len(set(got)) != len(got) or any(g in L.delivered for g in got):
                flag("C03", "delivered-twice", "op %d: wasted() hands out a track a second time: %s" % (i, got), i)
            if got != exp:
                flag("C03", "expiry", "op %d: wasted() returned %s, the expired tracks are %s (max_idle %d)" % (i, got, exp, max_idle), i)
            L.collect(max_idle)
            if any(g in L.cleared for g in got):
                flag("C03", "cleared-delivered", "op %d: wasted() hands out tracks %s that clear_wasted() had already discarded" % (
                    i, sorted(g for g in got if g in L.cleared)), i)
            elif got != sorted(L.collected):
                flag("C03", "expiry", "op %d: wasted() returned %s, the expired tracks not yet handed out or cleared are %s (max_idle %d)" % (
                    i, got, sorted(L.collected), max_idle), i)
            L.collected = set()
            for t in body:
                lt = L.tracks.get(t["id"])
                if lt is not None and t["len"] != len(lt["dets"]):
                    flag("C03", "length", "op %d: wasted track %d length %d, %d detections attached" % (i, t["id"], t["len"], len(lt["dets"])), i)
            L.delivered.update(got)
        elif k == "idle":
            got = sorted(r["id"] for r in body)
            s = op["scene"]
            exp = sorted(t["id"] for t in prev_main if t["id"] in L.tracks and L.tracks[t["id"]]["scene"] == s
                         and L.ep(s) - L.tracks[t["id"]]["last"] <= max_idle and L.tracks[t["id"]]["last"] != L.ep(s))
            if got != exp:
                flag("C03", "idle", "op %d: idle_tracks(%d) = %s, expected the unexpired tracks not updated in epoch %d: %s" % (i, s, got, L.ep(s), exp), i)
        elif k == "clear":
            # clear_wasted() discards the collected expired tracks (collection passes: skip_epochs, wasted(), the periodic
            # pass of predict by the auto-waste counter)
            L.cleared.update(L.collected)
            L.collected = set()
            cleared_seen = True
        elif k == "astats":
            # the property speaks about the NUMBER of tracks held; how they are spread over the shards is not part of it
            if sum(body) != len(prev_main) or len(body) != h["shards"]:
                flag("C03", "stats-active", "op %d: active_shard_stats %s (sum %d), the live store holds %d tracks" % (i, body, sum(body), len(prev_main)), i)
            live_n = len(L.tracks) - len(L.collected) - len(L.delivered) - len(L.cleared)
            if sum(body) != live_n:
                flag("C03", "stats-active", "op %d: active_shard_stats %s (sum %d), but %d tracks are live (created %d, collected %d, handed out %d, cleared %d)" % (
                    i, body, sum(body), live_n, len(L.tracks), len(L.collected), len(L.delivered), len(L.cleared)), i)
        elif k == "wstats":
            if sum(body) != len(prev_wst) or len(body) != h["shards"]:
                flag("C03", "stats-wasted", "op %d: wasted_shard_stats %s (sum %d), the store of collected expired tracks holds %d" % (i, body, sum(body), len(prev_wst)), i)
            if sum(body) != len(L.collected):
                flag("C03", "stats-wasted", "op %d: wasted_shard_stats %s (sum %d), but %d expired tracks were collected and not yet handed out or cleared: %s" % (
                    i, body, sum(body), len(L.collected), sorted(L.collected)[:6]), i)
        # places after the op
        main_ids = [t["id"] for t in st["main"]]
        wst_ids = [t["id"] for t in st["wst"]]
        allp = main_ids + wst_ids + list(L.delivered) + list(L.cleared)
        if len(set(allp)) != len(allp):
            c = Counter(allp)
            flag("C03", "one-place", "op %d: tracks %s are in two places" % (i, [x for x in c if c[x] > 1][:4]), i)
        if set(allp) != set(L.tracks.keys()):
            miss = sorted(set(L.tracks.keys()) - set(allp))
            extra = sorted(set(allp) - set(L.tracks.keys()))
            flag("C03", "one-place", "op %d: tracks %s are nowhere, %s were never created" % (i, miss[:4], extra[:4]), i)
        for t in st["main"] + st["wst"]:
            lt = L.tracks.get(t["id"])
            if lt is not None and t["len"] != len(lt["dets"]):
                flag("C03", "length", "op %d: stored track %d length %d, %d detections attached" % (i, t["id"], t["len"], len(lt["dets"])), i)
        # every submitted detection sits in exactly one track (the ledger is a function uid -> id by construction;
        # the totals must agree)
        if sum(len(t["dets"]) for t in L.tracks.values()) != len(L.det_track):
            flag("C03", "conservation", "op %d: a detection is recorded in two tracks" % i, i)
        prev_main, prev_wst = st["main"], st["wst"]
        if out and len(out) > 6:
            break
    return out


def observable(h, run, bij_exact):
    """The observable outputs of a run for paired comparisons: per op a canonical value, ids mapped by the
    first-occurrence bijection of the predict records (ids of Sort are compared exactly)."""
    ren = {}
    obs = []
    after_clear = False

    def rid(x):
        if bij_exact:
            return x
        if x not in ren:
            ren[x] = len(ren) + 1
        return ren[x]

    def rec(r):
        return (rid(r["id"]), r["epoch"], r["scene"], r["len"], r["custom"], r["obs"])
    for i, st in enumerate(run["steps"]):
        kind, body = st["res"] if st["res"] else ("none", None)
        if kind == "records":
            obs.append(("records", [rec(r) for r in body]))
        elif kind == "batch":
            obs.append(("batch", [(s, [rec(r) for r in rs]) for s, rs in sorted(body, key=lambda x: x[0])]))
        elif kind == "idle":
            obs.append(("idle", sorted(rec(r) for r in body)))
        elif kind == "wasted":
            if after_clear:
                obs.append(("wasted-after-clear", None))
            else:
                obs.append(("wasted", sorted((rid(t["id"]), t["scene"], t["epoch"], t["len"], t["custom"], tuple(t["obs"]), t["npred"]) for t in body)))
        elif kind == "epoch":
            obs.append(("epoch", body))
        elif kind == "stats":
            obs.append(("stats", None))       # physical, timing dependent by definition
        elif kind == "unit":
            obs.append(("unit", None))
            if i < len(h["ops"]) and h["ops"][i]["kind"] == "clear":
                after_clear = True
        else:
            obs.append((kind, None))
    return obs


def with_period(h, p):
    """the same history under auto-waste periodicity p (every set_auto_waste of the history is replaced)"""
    ops = [o for o in h["ops"] if o["kind"] != "setaw"]
    return clone(h, ops=[{"kind": "setaw", "p": p}] + [dict(o) for o in ops])


def project(h, s):
    """the calls of scene s only"""
    ops = []
    for o in h["ops"]:
        k = o["kind"]
        if k in ("predict", "skip", "idle", "epoch") and o["scene"] == s:
            ops.append(dict(o))
        elif k == "batch":
            for sc, ds in o["scenes"]:
                if sc == s and (ds or not is_batch(h)):
                    ops.append({"kind": "predict", "scene": s, "dets": ds})
    return clone(h, ops=ops)


def scene_outputs(h, run, s):
    """canonical outputs of the scene-s calls of a run (ids by first occurrence within the scene)"""
    ren = {}

    def rid(x):
        if x not in ren:
            ren[x] = len(ren) + 1
        return ren[x]

    # box tokens are class representatives WITHIN a run (first detection of the run with that box); the interleaved run
    # may contain the same box in another scene earlier, so tokens are re-based on the detections of scene s only
    key_of = {}
    first_in_scene = {}
    for o in h["ops"]:
        groups = [(o["scene"], o["dets"])] if o["kind"] == "predict" else (o["scenes"] if o["kind"] == "batch" else [])
        for sc, ds in groups:
            for d in ds:
                key_of[d["uid"]] = box_key(d)
                if sc == s:
                    first_in_scene.setdefault(box_key(d), d["uid"])

    def tok(u):
        return first_in_scene.get(key_of.get(u), u)

    def rec(r):
        return (rid(r["id"]), r["epoch"], r["scene"], r["len"], r["custom"], tok(r["obs"]))
    out = []
    for i, st in enumerate(run["steps"]):
        if i >= len(h["ops"]):
            break
        o = h["ops"][i]
        kind, body = st["res"] if st["res"] else ("none", None)
        if kind in ("panic", "hang", "none"):
            out.append(("panic", None))
            break
        k = o["kind"]
        if k == "predict" and o["scene"] == s:
            if is_batch(h) and not o["dets"]:
                continue
            out.append(("records", [rec(r) for r in body]))
        elif k == "batch":
            for sc, rs in body:
                if sc == s:
                    ds = dict(o["scenes"]).get(s, [])
                    if is_batch(h) and not ds:
                        continue
                    out.append(("records", [rec(r) for r in rs]))
        elif k == "idle" and o["scene"] == s:
            out.append(("idle", sorted(rec(r) for r in body)))
        elif k == "epoch" and o["scene"] == s:
            out.append(("epoch", body))
    return out


def scenes_of(h):
    sc = set()
    for o in h["ops"]:
        if "scene" in o:
            sc.add(o["scene"])
        if o["kind"] == "batch":
            sc.update(s for s, _ in o["scenes"])
    return sorted(sc)


def without_constraints(h):
    return clone(h, constraints=None)


def applicable_limit(h, gap):
    """C20 by the letter: the limit configured FIRST for the LEAST configured gap >= the epoch gap (None: none)"""
    if h["constraints"] is None:
        return None
    allc = [e for call in h["constraints"] for e in call]
    gaps = [g for g, _ in allc if g >= gap]
    if not gaps:
        return None
    g = min(gaps)
    return next(f32_bits_to_fraction(b) for gg, b in allc if gg == g)


def constraint_facts(h, run):
    """-> (binding_pairs, violations): binding_pairs = number of (candidate, same-scene track within max_idle)
    pairs whose dist_in_2r exceeds the applicable limit; violations = continued records beyond the limit."""
    L = Ledger(h)
    binding = 0
    viol = []
    for i, op in enumerate(h["ops"]):
        if i >= len(run["steps"]):
            break
        st = run["steps"][i]
        kind, body = st["res"] if st["res"] else ("none", None)
        if kind in ("panic", "hang", "none"):
            break
        k = op["kind"]
        if k in ("predict", "batch"):
            if k == "predict":
                groups = [(op["scene"], op["dets"], body if kind == "records" else [])]
            else:
                bd = dict(body) if kind == "batch" else {}
                groups = [(s, ds, bd.get(s, [])) for s, ds in op["scenes"]]
            for scene, dets, recs in groups:
                if L.batch and not dets:
                    continue
                L.epoch[scene] = L.ep(scene) + 1
                e = L.ep(scene)
                for d in dets:
                    row = st["tab"].get(d["uid"], {})
                    for tid, (w, d2r) in row.items():
                        t = L.tracks.get(tid)
                        if t is None or t["scene"] != scene or e - t["last"] > h["max_idle"] or d2r == "p":
                            continue
                        lim = applicable_limit(h, e - t["last"])
                        if lim is not None and f32_bits_to_fraction(d2r) > lim:
                            binding += 1
                for d, r in zip(dets, recs or []):
                    t = L.tracks.get(r["id"])
                    if t is None:
                        L.tracks[r["id"]] = {"scene": scene, "dets": [d["uid"]], "last": e, "pending": e}
                    else:
                        row = st["tab"].get(d["uid"], {})
                        ent = row.get(r["id"])
                        gap = e - t["last"]
                        lim = applicable_limit(h, gap)
                        if ent is not None and ent[1] != "p" and lim is not None and f32_bits_to_fraction(ent[1]) > lim:
                            viol.append((i, d["uid"], r["id"], gap, float(f32_bits_to_fraction(ent[1])), float(lim)))
                        t["dets"].append(d["uid"])
                        t["pending"] = e
                for t in L.tracks.values():
                    if "pending" in t:
                        t["last"] = t.pop("pending")
        elif k == "skip":
            L.epoch[op["scene"]] = L.ep(op["scene"]) + op["n"]
    return binding, viol


# ------------------------------------------------------------------------------------------------
# shrinking

def shrink_history(h, fails, budget=120):
    """greedy delta debugging: drop operations (suffix first), then single detections, while fails(h)"""
    cur = h
    calls = [0]

    def ok(c):
        if calls[0] >= budget:
            return False
        calls[0] += 1
        try:
            return fails(c)
        except Exception:
            return False
    # cut the suffix
    lo = 1
    n = len(cur["ops"])
    for cut in range(1, n):
        c = clone(cur, ops=cur["ops"][:cut])
        if ok(c):
            cur = c
            break
    changed = True
    while changed and calls[0] < budget:
        changed = False
        for i in range(len(cur["ops"]) - 1, -1, -1):
            c = clone(cur, ops=cur["ops"][:i] + cur["ops"][i + 1:])
            if c["ops"] and ok(c):
                cur = c
                changed = True
                break
        if changed:
            continue
        for i, o in enumerate(cur["ops"]):
            if o["kind"] == "predict" and o["dets"]:
                for j in range(len(o["dets"])):
                    c = clone(cur)
                    c["ops"][i] = dict(o, dets=o["dets"][:j] + o["dets"][j + 1:])
                    if ok(c):
                        cur = c
                        changed = True
                        break
            if changed:
                break
    return cur


def describe(h):
    """human-readable decoded history for replay files"""
    out = {"config": {k: h[k] for k in ("tracker", "shards", "vshards", "history", "max_idle")},
           "metric": h["metric"][0] + ("" if h["metric"][1] is None else "(%g)" % float(f32_bits_to_fraction(h["metric"][1]))),
           "constraints": None if h["constraints"] is None else [[(g, float(f32_bits_to_fraction(b))) for g, b in call] for call in h["constraints"]],
           "ops": []}
    for o in h["ops"]:
        if o["kind"] == "predict":
            out["ops"].append("predict scene=%d [%s]" % (o["scene"], "; ".join(
                "#%d (xc=%g yc=%g angle=%s aspect=%g h=%g conf=%g custom=%s)" % (
                    d["uid"], float(f32_bits_to_fraction(d["xc"])), float(f32_bits_to_fraction(d["yc"])),
                    "None" if d["angle"] is None else "%g" % float(f32_bits_to_fraction(d["angle"])),
                    float(f32_bits_to_fraction(d["aspect"])), float(f32_bits_to_fraction(d["height"])),
                    float(f32_bits_to_fraction(d["conf"])), d["custom"]) for d in o["dets"])))
        else:
            out["ops"].append(op_text(o)[:400])
    return out


def replay_obj(h, what, extra=None):
    o = {"spec": spec_text(h), "decoded": describe(h), "what": what,
         "replay_cmd": "save the 'spec' text to /tmp/h.txt ; %s run --file /tmp/h.txt" % vlib.harness_bin("tracker")}
    if extra:
        o.update(extra)
    return o


# ------------------------------------------------------------------------------------------------
# classification of histories (evidence: what counts as non-trivial, DESIGN.md appendix B)

def classify(h, run):
    """-> dict of flags measured on the implementation run"""
    thr = thr_of(h)
    crowded = False
    dup = False
    expired_uncollected_observed = False
    L = Ledger(h)
    prev_main = []
    pending_expired = False
    for i, op in enumerate(h["ops"]):
        if i >= len(run["steps"]):
            break
        st = run["steps"][i]
        k = op["kind"]
        if pending_expired and k in ("idle", "wasted", "predict", "batch", "astats", "wstats"):
            expired_uncollected_observed = True
        if k in ("predict", "batch"):
            groups = [(op["scene"], op["dets"])] if k == "predict" else op["scenes"]
            scene_of = {t["id"]: t["scene"] for t in prev_main}
            for scene, dets in groups:
                if L.batch and not dets:
                    continue
                L.epoch[scene] = L.ep(scene) + 1
                keys = [box_key(d) for d in dets]
                if len(set(keys)) < len(keys):
                    dup = True
                cnt = Counter()
                for d in dets:
                    for tid, (w, _) in st["tab"].get(d["uid"], {}).items():
                        if isinstance(w, int) and w >= thr and scene_of.get(tid) == scene:
                            cnt[tid] += 1
                if any(v >= 2 for v in cnt.values()):
                    crowded = True
        elif k == "skip":
            L.epoch[op["scene"]] = L.ep(op["scene"]) + op["n"]
        pending_expired = any(L.ep(t["scene"]) - t["epoch"] > h["max_idle"] for t in st["main"])
        prev_main = st["main"]
    return {"crowded": crowded, "dup": dup, "gc_observed": expired_uncollected_observed}


def config_key(h):
    return "%s/sh%d/h%d/mi%d/%s/%s" % (h["tracker"], h["shards"], h["history"], h["max_idle"], h["metric"][0],
                                       "cons" if h["constraints"] else "nocons")


def hist_hash(h):
    return hashlib.sha256(spec_text(h).encode()).hexdigest()[:16]


def common_stage(chk, pid, n_quick=240, n_thorough=1500):
    """proof stage + harness build + shared base run.  Returns data or None (harness did not build)."""
    props = os.path.join(vlib.COQ, "theories", "Props", "%s.v" % pid)
    vlib.proof_stage(chk, props)
    if chk.tier == "thorough":
        vlib.coqchk_stage(chk, "Similari.Props.%s" % pid)
    ok, out = vlib.harness_build(["tracker"])
    if not ok:
        chk.broken.append("harness build failed:\n" + out[-2000:])
        chk.violation("harness-build", "the correspondence harness (bin tracker) does not build against the repository",
                      {"log": out[-4000:]}, found_input=False)
        chk.coverage.update({"evaluations": 0})
        return None
    n = n_quick if chk.tier == "quick" else n_thorough
    data = base_run(chk, n)
    if data["model_error"]:
        chk.broken.append("model evaluation failed: " + data["model_error"])
    return data


def coverage_common(chk, data, rule, nontrivial_flag):
    hists, runs, corr = data["hists"], data["runs"], data["corr"]
    hist = Counter()
    nontrivial = set()
    ncalls = 0
    ties = 0
    diffs = 0
    for k, (h, r) in enumerate(zip(hists, runs)):
        if r is None:
            continue
        hist[config_key(h)] += 1
        for o in h["ops"]:
            hist["op:" + o["kind"]] += 1
            if o["kind"] == "predict":
                hist["dets=%d" % len(o["dets"])] += 1
        ncalls += len(r["steps"])
        cl = classify(h, r)
        for f, v in cl.items():
            if v:
                hist["flag:" + f] += 1
        if nontrivial_flag(cl):
            nontrivial.add(hist_hash(h))
        if corr and corr[k]:
            ties += corr[k]["ties"]
            if corr[k]["diffs"]:
                diffs += 1
    chk.coverage.update({
        "evaluations": len(hists),
        "operations_compared": ncalls,
        "distinct_nontrivial": len(nontrivial),
        "rule": rule,
        "samples": [spec_text(h)[:600] for h in hists[:2]],
        "input_distribution": dict(hist),
        "model_vs_impl_disagreements": diffs,
        "calls_with_tied_optimum": ties,
        "base_run_wall_s": {"implementation": data["impl_s"], "model": data["model_s"]},
    })
    return diffs


def report_correspondence(chk, pid, data, oracle_found):
    """if the model and the code differ (or a proof broke) and no oracle found a failing input: tie broken"""
    corr = data["corr"]
    bad = [k for k, cr in enumerate(corr or []) if cr and cr["diffs"]]
    if (bad or chk.broken) and not oracle_found:
        what = "proof or correspondence no longer checks"
        if chk.broken:
            what += ": " + "; ".join(b.split("\n")[0][:200] for b in chk.broken)
        rep = {"broken": chk.broken}
        if bad:
            k = bad[0]
            h = data["hists"][k]
            what += "; model and implementation differ on %d of %d histories" % (len(bad), len(corr))
            rep.update(replay_obj(h, what, {"first_difference": corr[k]["diffs"][0][:1500]}))
        chk.violation("%s:tie-broken" % pid, what, rep, found_input=False)


def report_oracle_failures(chk, pid, data, fails_by_key, make_fails):
    """fails_by_key: key -> (history index, message).  Shrinks and reports one violation per key."""
    found = False
    for key, (k, msg) in sorted(fails_by_key.items())[:6]:
        h = data["hists"][k]
        f = make_fails(key)
        small = h
        try:
            if f(h):
                small = shrink_history(h, f)
        except Exception:
            pass
        r = run_impl([small])[0]
        msgs = [m for (p, kk, m, _) in oracle_history(small, r, want=(pid,)) if kk == key] if r else []
        chk.violation("%s:%s" % (pid, key), msg if not msgs else msgs[0],
                      replay_obj(small, msgs[0] if msgs else msg,
                                 {"oracle": key, "original_history": h["k"], "seed": chk.seed,
                                  "implementation_output": [(s["optext"][:80], s["res"]) for s in (r["steps"] if r else [])][-6:]}))
        found = True
    return found


def ledger_fails(pid, key):
    def f(h):
        r = run_impl([h])[0]
        if r is None:
            return False
        return any(p == pid and kk == key for (p, kk, _, _) in oracle_history(h, r, want=(pid,)))
    return f


def generic_replay(chk, path, pid):
    rep = json.load(open(path))
    ok, out = vlib.harness_build(["tracker"])
    if "spec" not in rep:
        print("replay file has no history (proof / correspondence breakage): %s" % rep.get("what"))
        return 1
    hs = parse_specs(rep["spec"])
    if not hs:
        print("cannot parse the stored history")
        return 1
    h = hs[0]
    r = run_impl([h])[0]
    print(spec_text(h))
    for s in (r["steps"] if r else []):
        print("op", s["optext"][:120], "->", s["res"])
    key = rep.get("oracle")
    fl = oracle_history(h, r, want=(pid,)) if r else []
    hit = [m for (p, kk, m, _) in fl if key is None or kk == key]
    for m in hit[:5]:
        print("ORACLE:", m)
    if key == "visual-association" and r is not None:
        res = correspondence([h], [r], tag="trkreplay")[0]
        hit = ["association rejected at op %d: %s" % (i, "; ".join(rejection_reasons(h, r, i)[:3])) for i in res.get("rejected", [])]
        hit += res["diffs"][:1]
        for m in hit:
            print("MODEL:", m[:400])
    extra = rep.get("pair")
    if extra and not hit:
        hit = pair_replay(h, extra)
    print("REPRODUCED" if hit else "not reproduced")
    return 1 if hit else 0


def pair_replay(h, extra):
    kind = extra.get("kind")
    if kind == "period":
        a, b = with_period(h, extra["p1"]), with_period(h, extra["p2"])
        ra, rb = run_impl([a, b])
        oa, ob = observable(a, ra, exact_ids(h)), observable(b, rb, exact_ids(h))
        for i, (x, y) in enumerate(zip(oa, ob)):
            if x != y:
                print("periodicity %d vs %d differ at op %d: %s / %s" % (extra["p1"], extra["p2"], i, x, y))
                return [1]
    if kind == "project":
        s = extra["scene"]
        p = project(h, s)
        ra, rb = run_impl([h, p])
        x, y = scene_outputs(h, ra, s), scene_outputs(p, rb, s)
        if x != y:
            print("scene %d: interleaved %s / alone %s" % (s, x[:6], y[:6]))
            return [1]
    if kind == "noconstraints":
        b = without_constraints(h)
        ra, rb = run_impl([h, b])
        x, y = observable(h, ra, exact_ids(h)), observable(b, rb, exact_ids(h))
        if x != y:
            print("with / without the non-binding table differ")
            return [1]
    return []


# ------------------------------------------------------------------------------------------------
# C20, tracker level (to be called from the C20 check: tracker_common.c20t_run(chk))

def f32_bits(x):
    import struct
    return struct.unpack("<I", struct.pack("<f", x))[0]


def gap_family(seed):
    """C20, tracker level: constructed histories in which an object is tracked, stays away for m frames - completely EMPTY
    predict calls of its scene (simple APIs; skip_epochs for the batch API, which cannot submit an empty scene) - and
    re-appears inside max_idle, displaced so that dist_in_2r lies BETWEEN the limits the table configures for a small and
    for a large epoch gap.  The limit of the TRUE gap (one epoch per predict call of the scene, empty or not) decides."""
    one = f32_bits(1.0)
    out = []
    k = 0
    lims = [(0.2, 3.0), (0.15, 2.0)]
    for tracker in ("visual", "sort", "batch", "batchvisual"):
        for m in (1, 2):
            for (small, big) in lims:
                for order in (0, 1):
                    for dx in (12.0, 16.0, 20.0):
                        for metric in (("iou", f32_bits(0.1)), ("maha", None)):
                            # order 0: the larger gap has the tighter limit; order 1: the smaller gap has it
                            table = [[(1, f32_bits(big)), (3, f32_bits(small))]] if order == 0 else [[(1, f32_bits(small))], [(3, f32_bits(big))]]
                            scene = (k * 7 + seed) % 4
                            hgt = [40.0, 60.0][k % 2]
                            x0 = 100.0 + 4.0 * ((k + seed) % 9)

                            def det(uid, x):
                                d = {"uid": uid, "xc": f32_bits(x), "yc": f32_bits(120.0), "angle": None, "aspect": one,
                                     "height": f32_bits(hgt), "conf": one, "custom": uid}
                                if tracker in ("visual", "batchvisual"):
                                    d["q"] = str(one)
                                    d["feat"] = "%d/0/0/%d" % (one, f32_bits(0.5))
                                return d
                            ops = [{"kind": "predict", "scene": scene, "dets": [det(1, x0)]},
                                   {"kind": "predict", "scene": scene, "dets": [det(2, x0)]}]
                            for _ in range(m):
                                if tracker in ("batch", "batchvisual"):
                                    ops.append({"kind": "skip", "scene": scene, "n": 1})
                                else:
                                    ops.append({"kind": "predict", "scene": scene, "dets": []})
                            ops.append({"kind": "predict", "scene": scene, "dets": [det(3, x0 + dx * hgt / 40.0)]})
                            ops.append({"kind": "epoch", "scene": scene})
                            h = {"k": 200000 + k, "tracker": tracker, "shards": 1 + k % 3, "vshards": 1 + k % 2, "history": 2 + k % 3,
                                 "max_idle": 3, "metric": metric, "minconf": f32_bits(0.05), "constraints": table, "ops": ops,
                                 "vopts": ([("vis", "euc:%d" % one), ("votes", "1"), ("minlen", "1"), ("maxobs", "3"), ("quse", "0"), ("qcol", "0")]
                                           if tracker in ("visual", "batchvisual") else [])}
                            out.append(h)
                            k += 1
    return out


def drift_family(seed):
    """C20, tracker level: ONE slowly drifting object tracked for many more frames than the kept box history, with a
    constraints table whose limit the per-frame displacement never comes near.  Such a table is non-binding BY
    CONSTRUCTION (see drift_nonbinding), so the run must equal the run without constraints."""
    one = f32_bits(1.0)
    out = []
    k = 0
    for tracker in ("sort", "batch"):
        for hist in (2, 3, 4):
            for frames in (14, 18):
                for lim in (0.4, 0.5):
                    for metric in (("iou", f32_bits(0.3)), ("maha", None)):
                        hgt = [40.0, 60.0][k % 2]
                        step = 3.0 * hgt / 40.0              # ~0.053 of the radius sum per frame
                        scene = (k + seed) % 3
                        x0 = 80.0 + 4.0 * ((k + seed) % 7)
                        ops = []
                        for fidx in range(frames):
                            d = {"uid": fidx + 1, "xc": f32_bits(x0 + step * fidx), "yc": f32_bits(150.0), "angle": None,
                                 "aspect": one, "height": f32_bits(hgt), "conf": one, "custom": fidx + 1}
                            ops.append({"kind": "predict", "scene": scene, "dets": [d]})
                        h = {"k": 300000 + k, "tracker": tracker, "shards": 1 + k % 3, "vshards": 1 + k % 2, "history": hist,
                             "max_idle": 2, "metric": metric, "minconf": f32_bits(0.05),
                             "constraints": [[(1, f32_bits(lim)), (3, f32_bits(lim))]], "ops": ops, "vopts": []}
                        out.append(h)
                        k += 1
    return out


def drift_nonbinding(h):
    """by construction: every call submits one box; consecutive boxes of the scene are displaced by less than a fifth of
    every configured limit (in units of the sum of the bounding radii), so no admissible pair can reach a limit"""
    import math
    if not h["constraints"]:
        return False
    lim = min(f32_bits_to_fraction(b) for call in h["constraints"] for _, b in call)
    prev = None
    for o in h["ops"]:
        if o["kind"] != "predict" or len(o["dets"]) != 1:
            return False
        d = o["dets"][0]
        x, y = float(f32_bits_to_fraction(d["xc"])), float(f32_bits_to_fraction(d["yc"]))
        hg, asp = float(f32_bits_to_fraction(d["height"])), float(f32_bits_to_fraction(d["aspect"]))
        rad = math.hypot(asp * hg / 2.0, hg / 2.0)
        if prev is not None:
            if prev[3] != o["scene"]:
                return False
            dist = math.hypot(x - prev[0], y - prev[1]) / (rad + prev[2])
            if dist * 5.0 >= float(lim):
                return False
        prev = (x, y, rad, o["scene"])
    return True


def c20t_run(chk, pid="C20T", max_hist=200):
    """proof stage for Props/C20T.v + the two tracker-level oracles on the implementation:
    (a) a table that no considered pair violates is a no-op (run with the table == run without),
    (b) with a binding table no record continues a track beyond the limit for their epoch gap."""
    data = common_stage(chk, pid)
    if data is None:
        return
    hists, runs, corr = data["hists"], data["runs"], data["corr"]
    found = False
    # (b) binding tables
    nb_hist = 0
    binding_pairs = 0
    viol = {}
    for k, (h, r) in enumerate(zip(hists, runs)):
        if r is None or h["constraints"] is None:
            continue
        b, v = constraint_facts(h, r)
        binding_pairs += b
        if b:
            nb_hist += 1
        if v:
            viol.setdefault("tracker-binding", (h, v[0]))
    # constructed family: disappear / empty frames / re-appear between the limits of a small and a large epoch gap
    gh = gap_family(chk.seed)
    gr = run_impl(gh)
    gap_stats = Counter()
    for h, r in zip(gh, gr):
        if r is None:
            continue
        b, v = constraint_facts(h, r)
        binding_pairs += b
        gap_stats[h["tracker"]] += 1
        # the re-appearing detection: continued (same id as before) or started a new track
        last = [st["res"][1] for st in r["steps"] if st["res"] and st["res"][0] == "records" and st["res"][1]]
        if last and last[-1][0]["len"] > 1:
            gap_stats["continued"] += 1
        if b:
            gap_stats["binding"] += 1
        if v:
            viol.setdefault("tracker-binding-gap:" + h["tracker"], (h, v[0]))
    for key, (h, v) in viol.items():

        def f(hh):
            rr = run_impl([hh])[0]
            return bool(rr and constraint_facts(hh, rr)[1])
        small = shrink_history(h, f) if f(h) else h
        rs_small = run_impl([small])[0]
        vs = constraint_facts(small, rs_small)[1] if rs_small else []
        msg = ("op %d: detection %d was attached to track %d at epoch gap %d (one epoch per predict call of the scene, empty or "
               "not, n per skip) although dist_in_2r %.4f exceeds the limit %.4f configured for that gap" % (vs[0] if vs else v))
        chk.violation("C20:" + key, msg, replay_obj(small, msg, {"oracle": key, "original_history": h["k"], "seed": chk.seed}))
        found = True
    # (a) non-binding tables: the history's own table when no considered pair violates it, and a huge-limit table
    cand = [k for k, h in enumerate(hists) if tie_free(h, runs[k])][:max_hist]
    pairs = []
    big = [[(0, f32_bits(1.0e6)), (2, f32_bits(2.0e6))], [(1, f32_bits(1.5e6))]]
    for k in cand:
        h = hists[k]
        if h["constraints"] is not None and constraint_facts(h, runs[k])[0] == 0:
            pairs.append((k, h, without_constraints(h), "own"))
        pairs.append((k, clone(h, constraints=big), without_constraints(h), "huge"))
    rs = run_impl([x for p in pairs for x in (p[1], p[2])])
    compared = 0
    nfail = {}
    for j, (k, a, b, kind) in enumerate(pairs):
        ra, rb = rs[2 * j], rs[2 * j + 1]
        if ra is None or rb is None or not tie_free(a, ra) or not tie_free(b, rb):
            continue
        compared += 1
        ex = exact_ids(a)
        if observable(a, ra, ex) != observable(b, rb, ex):
            nfail.setdefault("tracker-nonbinding-" + kind, (k, a))
    for key, (k, a) in nfail.items():
        def f(hh):
            bb = without_constraints(hh)
            ra, rb = run_impl([hh, bb])
            if ra is None or rb is None or not tie_free(hh, ra) or not tie_free(bb, rb):
                return False
            if constraint_facts(hh, ra)[0] != 0:
                return False
            ex = exact_ids(hh)
            return observable(hh, ra, ex) != observable(bb, rb, ex)
        small = shrink_history(a, f) if f(a) else a
        msg = "a tracker with a constraints table that no considered pair violates behaves differently from one without constraints"
        chk.violation("C20:" + key, msg, replay_obj(small, msg, {"pair": {"kind": "noconstraints"}, "original_history": k, "seed": chk.seed}))
        found = True
    # constructed family: long slow drift, table non-binding by construction -> must equal the unconstrained run
    dh = [h for h in drift_family(chk.seed) if drift_nonbinding(h)]
    dr = run_impl([x for h in dh for x in (h, without_constraints(h))])
    drift_stats = Counter()
    dfail = {}
    for j, h in enumerate(dh):
        ra, rb = dr[2 * j], dr[2 * j + 1]
        if ra is None or rb is None:
            continue
        drift_stats[h["tracker"]] += 1
        ex = exact_ids(h)
        if observable(h, ra, ex) != observable(without_constraints(h), rb, ex):
            dfail.setdefault("tracker-nonbinding-drift:" + h["tracker"], h)
    for key, h in dfail.items():
        def f(hh):
            if not drift_nonbinding(hh):
                return False
            bb = without_constraints(hh)
            ra, rb = run_impl([hh, bb])
            if ra is None or rb is None:
                return False
            ex = exact_ids(hh)
            return observable(hh, ra, ex) != observable(bb, rb, ex)
        small = shrink_history(h, f) if f(h) else h
        bb = without_constraints(small)
        ra, rb = run_impl([small, bb])
        oa, ob = observable(small, ra, exact_ids(small)), observable(bb, rb, exact_ids(small))
        i = next((j for j, (x, y) in enumerate(zip(oa, ob)) if x != y), 0)
        msg = ("one object drifting by < 1/5 of the configured limit per frame (history %d, %d frames): with the constraints table "
               "op %d gives %s, without any table %s - a table that no pair violates must behave like none"
               % (small["history"], len(small["ops"]), i, str(oa[i])[:160] if i < len(oa) else "-", str(ob[i])[:160] if i < len(ob) else "-"))
        chk.violation("C20:" + key, msg, replay_obj(small, msg, {"pair": {"kind": "noconstraints"}, "original_history": h["k"], "seed": chk.seed}))
        nfail[key] = (h["k"], h)
        found = True
    chk.coverage["tracker_level"] = {"histories_with_binding_pairs": nb_hist, "binding_pairs": binding_pairs,
                                     "nonbinding_run_pairs_compared": compared,
                                     "drift_family": dict(drift_stats, histories=len(dh),
                                                          rule="one object drifting ~0.05 of the radius sum per frame for 14-18 frames, kept history 2-4, "
                                                               "limit 0.4-0.5 for every gap: non-binding by construction, run with table == run without"),
                                     "gap_family": dict(gap_stats, histories=len(gh),
                                                        rule="object away for 1-2 empty frames (skip for the batch API), re-appears with "
                                                             "dist_in_2r between the limits of gap 1 and gap 3; both table orders; all four trackers"),
                                     "failing_keys": sorted(list(viol.keys()) + list(nfail.keys()))}
    report_correspondence(chk, pid, data, found)


# ------------------------------------------------------------------------------------------------
# ties (DESIGN.md 2.3): when the optimal assignment of a call is not unique the implementation may pick any optimum
# (hash-map / channel order), so two runs may legitimately diverge.  Paired-run oracles only compare histories
# all of whose calls have a unique optimum.  Decided here by brute force from the oracle table, gating by the
# letter of the properties (same scene, gap <= max_idle, constraint table); independent of the Coq model.

def _count_optimal(n, pairs, thr, limit=200000):
    by_i = {}
    for (i, j, w) in pairs:
        by_i.setdefault(i, []).append((j, w))
    best = [None]
    count = [0]
    nodes = [0]

    def rec(i, used, val):
        nodes[0] += 1
        if nodes[0] > limit:
            raise OverflowError
        if i == n:
            if best[0] is None or val > best[0]:
                best[0] = val
                count[0] = 1
            elif val == best[0]:
                count[0] += 1
            return
        rec(i + 1, used, val + thr)
        for (j, w) in by_i.get(i, ()):
            if j not in used:
                used.add(j)
                rec(i + 1, used, val + w)
                used.discard(j)
    try:
        rec(0, set(), 0)
    except OverflowError:
        return None
    return count[0]


def ties_in_run(h, run):
    """number of calls whose optimum is not unique (or could not be decided)"""
    thr = thr_of(h)
    ep = {}
    prev_main = []
    ties = 0
    batch = is_batch(h)
    for i, op in enumerate(h["ops"]):
        if i >= len(run["steps"]):
            break
        st = run["steps"][i]
        k = op["kind"]
        if k in ("predict", "batch"):
            groups = [(op["scene"], op["dets"])] if k == "predict" else op["scenes"]
            info = {t["id"]: t for t in prev_main}
            for scene, dets in groups:
                if batch and not dets:
                    continue
                ep[scene] = ep.get(scene, 0) + 1
                e = ep[scene]
                pairs = []
                for ci, d in enumerate(dets):
                    for tid, (w, d2r) in st["tab"].get(d["uid"], {}).items():
                        t = info.get(tid)
                        if t is None or t["scene"] != scene or not isinstance(w, int) or w < thr or d2r == "p":
                            continue
                        gap = e - t["epoch"]
                        if gap > h["max_idle"] or gap < 0:
                            continue
                        lim = applicable_limit(h, gap)
                        if lim is not None and f32_bits_to_fraction(d2r) > lim:
                            continue
                        pairs.append((ci, tid, w))
                c = _count_optimal(len(dets), pairs, thr)
                if c is None or c > 1:
                    ties += 1
        elif k == "skip":
            ep[op["scene"]] = ep.get(op["scene"], 0) + op["n"]
        prev_main = st["main"]
    return ties


def visual_tie_prone(h, run):
    """appearance-voting ties (equal accumulated feature weights) need bit-identical feature vectors: two detections of one
    call with the same feature vector, or the same feature vector held by two different tracks of a scene"""
    owner = {}
    for i, o in enumerate(h["ops"]):
        if i >= len(run["steps"]):
            break
        st = run["steps"][i]
        kind, body = st["res"] if st["res"] else ("none", None)
        if o["kind"] == "predict":
            groups = [(o["scene"], o["dets"], body if kind == "records" else [])]
        elif o["kind"] == "batch":
            bd = dict(body) if kind == "batch" else {}
            groups = [(sc, ds, bd.get(sc, [])) for sc, ds in o["scenes"]]
        else:
            continue
        for sc, ds, recs in groups:
            feats = [d.get("feat", "n") for d in ds if d.get("feat", "n") != "n"]
            if len(set(feats)) < len(feats):
                return True
            for d, r in zip(ds, recs or []):
                f = d.get("feat", "n")
                if f == "n":
                    continue
                if owner.setdefault((sc, f), r["id"]) != r["id"]:
                    return True
    return False


def tie_free(h, run):
    if run is None:
        return False
    if is_visual(h) and visual_tie_prone(h, run):
        return False
    return ties_in_run(h, run) == 0



# ------------------------------------------------------------------------------------------------
# executing the link to the verified voting model (Proofs/TrackerAssign.v): the tracker model run with
# assign_solver (padded matrix + brute-force optimum standing in for kuhn_munkres + decode) must reproduce the
# implementation on histories whose calls are small (the brute force is exponential) and have a unique optimum

PREAMBLE_ASSIGN = PREAMBLE.replace("From Similari Require Import Model.Constraints Model.Tracker.",
                                   "From Similari Require Import Model.Constraints Model.Tracker Proofs.TrackerAssign.")


def small_history(h, run, max_dets=5, max_tracks=6):
    for i, op in enumerate(h["ops"]):
        if i >= len(run["steps"]):
            break
        groups = [op["dets"]] if op["kind"] == "predict" else ([ds for _, ds in op["scenes"]] if op["kind"] == "batch" else [])
        if any(len(ds) > max_dets for ds in groups):
            return False
        if len(run["steps"][i]["main"]) > max_tracks:
            return False
    return True


def assign_link(data, max_hist=40):
    hists, runs = data["hists"], data["runs"]
    if not os.path.exists(os.path.join(vlib.COQ, "theories", "Proofs", "TrackerAssign.vo")):
        return {"histories": 0, "note": "Proofs/TrackerAssign.vo not built"}, []
    # only the positional trackers: the visual kinds associate by appearance voting first (their oracle weights are a mere
    # "offered" flag), so the Hungarian step alone does not describe them
    sel = [k for k, h in enumerate(hists) if runs[k] is not None and not is_visual(h)
           and small_history(h, runs[k]) and tie_free(h, runs[k])][:max_hist]
    terms, infos = [], []
    for k in sel:
        t, info = build_case(hists[k], runs[k])
        terms.append(info["assign_term"])
        infos.append(info)
    if not terms:
        return {"histories": 0}, []
    t0 = time.time()
    vals = [vlib.parse_coq_value(v) for v in vlib.coq_eval(PREAMBLE_ASSIGN, terms, shard_size=max(1, (len(terms) + 15) // 16), tag="trkassign", timeout=900)]
    bad = []
    ncalls = 0
    for k, v, info in zip(sel, vals, infos):
        diffs, ties, n = compare(hists[k], runs[k], v, info["names"])
        ncalls += n
        if diffs:
            bad.append((k, diffs[0]))
    return {"histories": len(sel), "operations_compared": ncalls, "disagreements": len(bad), "wall_s": round(time.time() - t0, 1)}, bad


# ------------------------------------------------------------------------------------------------
# the visual trackers through the model route (given_solver): evidence + findings

def rejection_reasons(h, run, i):
    """why the association of step i does not pass the interface check, by the letter of the properties"""
    op = h["ops"][i]
    st = run["steps"][i]
    prev = run["steps"][i - 1]["main"] if i > 0 else []
    info = {t["id"]: t for t in prev}
    ep = {}
    batch = is_batch(h)
    for j, o in enumerate(h["ops"][:i]):
        if o["kind"] == "predict" and (o["dets"] or not batch):
            ep[o["scene"]] = ep.get(o["scene"], 0) + 1
        elif o["kind"] == "batch":
            for sc, ds in o["scenes"]:
                if ds or not batch:
                    ep[sc] = ep.get(sc, 0) + 1
        elif o["kind"] == "skip":
            ep[o["scene"]] = ep.get(o["scene"], 0) + o["n"]
    kind, body = st["res"]
    groups = [(op["scene"], op["dets"], body)] if op["kind"] == "predict" else \
        [(s, ds, dict(body).get(s, [])) for s, ds in op["scenes"]]
    out = []
    for scene, dets, recs in groups:
        e = ep.get(scene, 0) + 1
        seen = {}
        for d, r in zip(dets, recs or []):
            t = info.get(r["id"])
            if t is None:
                continue
            if r["id"] in seen:
                out.append("detections %d and %d of one call were both attached to track %d" % (seen[r["id"]], d["uid"], r["id"]))
            seen[r["id"]] = d["uid"]
            if t["scene"] != scene:
                out.append("detection %d of scene %d was attached to track %d of scene %d" % (d["uid"], scene, r["id"], t["scene"]))
            elif e - t["epoch"] > h["max_idle"]:
                out.append("detection %d was attached to track %d, idle for %d > max_idle %d epochs" % (d["uid"], r["id"], e - t["epoch"], h["max_idle"]))
            else:
                ent = st["tab"].get(d["uid"], {}).get(r["id"])
                lim = applicable_limit(h, e - t["epoch"])
                if ent is not None and ent[1] != "p" and lim is not None and f32_bits_to_fraction(ent[1]) > lim:
                    out.append("detection %d was attached to track %d beyond the constraint limit (%.4f > %.4f at gap %d)" % (
                        d["uid"], r["id"], float(f32_bits_to_fraction(ent[1])), float(lim), e - t["epoch"]))
                elif ent is not None and ent[0] is None:
                    out.append("detection %d was attached to track %d although the pair yields no metric" % (d["uid"], r["id"]))
    return out or ["the association of the call is not a one-to-one choice among the offered (same scene, gap <= max_idle, constraint-admitted, metric-bearing) pairs"]


def visual_report(chk, pid, data, found):
    """evidence for the visual kinds (model replay with given_solver) + findings: rejected associations"""
    hists, runs, corr = data["hists"], data["runs"], data["corr"]
    idx = [k for k, h in enumerate(hists) if is_visual(h)]
    kinds = Counter(hists[k]["tracker"] for k in idx)
    nops = sum(corr[k]["n"] for k in idx if corr and corr[k])
    dis = [k for k in idx if corr and corr[k] and corr[k]["diffs"]]
    rej = [k for k in idx if corr and corr[k] and corr[k].get("rejected")]
    cont = 0
    nrec = 0
    for k in idx:
        r = runs[k]
        if r is None:
            continue
        for st in r["steps"]:
            if st["res"] and st["res"][0] == "records":
                nrec += len(st["res"][1])
                cont += sum(1 for x in st["res"][1] if x["len"] > 1)
            elif st["res"] and st["res"][0] == "batch":
                for _, rs in st["res"][1]:
                    nrec += len(rs)
                    cont += sum(1 for x in rs if x["len"] > 1)
    chk.coverage["visual_model"] = {
        "histories": len(idx), "by_kind": dict(kinds), "operations_compared": nops,
        "records": nrec, "records_continuing_a_track": cont,
        "model_vs_impl_disagreements": len(dis), "associations_rejected_by_interface_check": len(rej),
        "route": "VisualSort / BatchVisualSort replayed in Model/Tracker.v by tstep_visual / batch_step_with prologue_batch_visual "
                 "with given_solver fed the implementation's own association (read off the store dumps); records, lists and "
                 "both stores compared after every op; ledger, paired-run and run-pair oracles are applied to these kinds too",
    }
    for k in rej[:2]:
        h, r = hists[k], runs[k]
        i = corr[k]["rejected"][0]
        small = clone(h, ops=h["ops"][:i + 1])
        why = rejection_reasons(h, r, i)
        msg = "op %d (%s): %s" % (i, op_text(h["ops"][i])[:50], "; ".join(why[:3]))
        chk.violation("%s:visual-association-rejected" % pid, msg,
                      replay_obj(small, msg, {"oracle": "visual-association", "original_history": h["k"], "seed": chk.seed,
                                              "implementation_output": [(s["optext"][:80], s["res"]) for s in r["steps"][:i + 1]][-3:]}))
        found = True
    return found



def with_sceneless_skips(h, seed):
    """variant of a history with two scene-less skip_epochs(n) calls inserted after predicts (C04: a scene-0 maintenance
    call must not change what other scenes report)"""
    idx = [i for i, o in enumerate(h["ops"]) if o["kind"] in ("predict", "batch")]
    if len(idx) < 3:
        return None
    x = (h["k"] * 2654435761 + seed * 97) & 0xFFFFFFFF
    a = idx[1 + x % max(1, len(idx) // 2)]
    b = idx[min(len(idx) - 2, len(idx) // 2 + (x >> 8) % max(1, len(idx) // 2))]
    ops = []
    for i, o in enumerate(h["ops"]):
        ops.append(dict(o))
        if i == a:
            ops.append({"kind": "skip", "scene": 0, "n": 1 + (x >> 4) % 3, "sceneless": True})
        if i == b and b != a:
            ops.append({"kind": "skip", "scene": 0, "n": 1 + (x >> 12) % 2, "sceneless": True})
    return clone(h, ops=ops)
