"""C19 - box representations convert and render consistently; equality is a symmetric tolerance relation.

proof            Props/C19.v over the Gallina that tools/rs2v.py generates from /repo/src/utils/bbox.rs on this run
correspondence   every translated function (gen/ScalarBox.v, ScalarCost.v, ScalarGate.v) evaluated in Coq on exact
                 rationals (f32/f64 bit patterns) next to the real Rust function (harness bin `boxes`); decisions are
                 compared exactly outside a stated rounding band, numbers under a stated tolerance
property oracle  an independent reading of the property text applied to the real ==, as_xyaah/try_from, get_vertices,
                 area, get_radius, normalize_angle
"""
import json
import math
import os
from collections import Counter
from fractions import Fraction as Fr

import vlib
from vlib import f32_bits_to_fraction as f32q, f64_bits_to_fraction as f64q, q_lit, n_lit

EPS = Fr(1, 100000)                 # the documented library epsilon (src/lib.rs; checked against gen/Consts.v below)
EPS_BAND = Fr(1, 2 ** 39)           # 2 ulp_f32(EPS): f32(1e-5) differs from 1e-5 by 0.28 ulp, one subtraction rounds by <= 0.5 ulp
PI32 = f32q(0x40490FDB)             # std::f32::consts::PI, exactly
U32 = Fr(1, 2 ** 23)                # relative spacing of f32

COMMON = """From Coq Require Import List ZArith NArith QArith.
From Similari Require Import Base.Num.
Import ListNotations.
Open Scope Q_scope.
(* printable results: sign/numerator/denominator as N, tuples as constructor applications (never nested pairs) *)
Inductive QZ := QZc (neg : bool) (n d : N).
Definition qz (q : Q) : QZ := QZc (Z.ltb (Qnum q) 0) (Z.abs_N (Qnum q)) (Npos (Qden q)).
Definition oqz (o : option Q) : option QZ := match o with Some q => Some (qz q) | None => None end.
Inductive T2 (A B : Type) := t2 (a : A) (b : B).
Inductive T3 (A B C : Type) := t3 (a : A) (b : B) (c : C).
Inductive T4 (A B C D : Type) := t4 (a : A) (b : B) (c : C) (d : D).
Inductive T5 (A B C D E : Type) := t5 (a : A) (b : B) (c : C) (d : D) (e : E).
Arguments t2 {A B}. Arguments t3 {A B C}. Arguments t4 {A B C D}. Arguments t5 {A B C D E}.
"""

PREAMBLE_BOX = COMMON + """From Similari Require Import Proofs.BoxProofs.
From SimilariGen Require Import Consts Scalar ScalarBox ScalarKalmanBox.
Definition BBq := Build_BoundingBox Qops.
Definition UBq := Build_Universal2DBox Qops.
Inductive UBZ := UBz (xc yc : QZ) (a : option QZ) (asp h c : QZ).
Definition bbz (b : BoundingBox Qops) : list QZ := [qz (BoundingBox_left Qops b); qz (BoundingBox_top Qops b); qz (BoundingBox_width Qops b); qz (BoundingBox_height Qops b); qz (BoundingBox_confidence Qops b)].
Definition ubz (u : Universal2DBox Qops) := UBz (qz (Universal2DBox_xc Qops u)) (qz (Universal2DBox_yc Qops u)) (oqz (Universal2DBox_angle Qops u)) (qz (Universal2DBox_aspect Qops u)) (qz (Universal2DBox_height Qops u)) (qz (Universal2DBox_confidence Qops u)).
Definition obbz (o : option (BoundingBox Qops)) := match o with Some b => Some (bbz b) | None => None end.
Definition cz (v : Coord Qops) : list QZ := [qz (Coord_x Qops v); qz (Coord_y Qops v)].
Definition m_kst (u : Universal2DBox Qops) (mean : list Q) := t2 (map qz (kalman_initiate_mean Qops u)) (match kalman_state_to_ubox Qops mean with Some v => Some (ubz v) | None => None end).
Definition m_eqb a b := t2 (bbox_eq Qops a b) (bbox_eq Qops b a).
Definition m_equ a b := t2 (ubox_eq Qops a b) (ubox_eq Qops b a).
Definition m_conv (a : BoundingBox Qops) := t2 (ubz (bbox_to_ubox Qops a)) (obbz (ubox_to_bbox Qops (bbox_to_ubox Qops a))).
Definition m_convu (u : Universal2DBox Qops) := t2 (obbz (ubox_to_bbox Qops u)) (match ubox_to_bbox Qops u with Some b => Some (ubz (bbox_to_ubox Qops b)) | None => None end).
Definition m_poly (u : Universal2DBox Qops) (c s : Q) := t3 (map cz (ubox_vertices Qops u c s)) (qz (ubox_area Qops u)) (qz (ubox_radius_sq Qops u)).
"""

PREAMBLE_BOXX = COMMON + """From Similari Require Import Proofs.BoxExtraProofs.
From SimilariGen Require Import Consts Scalar ScalarBox.
Definition BBq := Build_BoundingBox Qops.
Definition UBq := Build_Universal2DBox Qops.
Definition m_inter a b := t2 (bbox_intersection_pre Qops a b) (qz (bbox_intersection Qops a b)).
Definition m_far (a b : Universal2DBox Qops) (ra rb : Q) := t5 (ubox_too_far_r_pre Qops a b ra rb) (ubox_too_far_sq Qops a b) (qz (ubox_dist_in_2r_sq_r Qops a b ra rb)) (qz (ubox_radius_sq Qops a)) (qz (ubox_radius_sq Qops b)).
"""

PREAMBLE_VIS = COMMON + """From SimilariGen Require Import Consts Scalar ScalarVisual.
Definition m_vis k d := t2 (visual_is_ok Qops k d) (qz (visual_distance_to_weight Qops k d)).
"""

PREAMBLE_EXTRA = COMMON + """From SimilariGen Require Import Consts Scalar ScalarBox ScalarCost ScalarGate.
Definition UBq := Build_Universal2DBox Qops.
Definition m_cost (d : Q) := [qz (box_calculate_cost Qops d false); qz (box_calculate_cost Qops d true); qz (point_calculate_cost Qops d false); qz (point_calculate_cost Qops d true)].
Definition m_gate mc m a b far d iou := match sort_metric Qops mc m a b far d iou with None => None | Some (w, f) => Some (t2 (oqz w) (oqz f)) end.
"""


# ------------------------------------------------------------------------------------------------------------
# records

def parse_line(line):
    toks = line.split()
    d = {"kind": toks[0], "raw": line}
    for t in toks[1:]:
        k, v = t.split("=", 1)
        d["kind_" if k == "kind" else k] = v
    return d


def bits_list(s):
    return [None if x == "N" else int(x) for x in s.split(",")]


def bbq(s):
    return [f32q(x) for x in bits_list(s)]


def ubq(s):
    return [None if x is None else f32q(x) for x in bits_list(s)]


def coq_bb(v):
    return "(BBq %s)" % " ".join(q_lit(x) for x in v)


def coq_ub(v):
    return "(UBq %s %s %s %s %s %s)" % (q_lit(v[0]), q_lit(v[1]), "None" if v[2] is None else "(Some %s)" % q_lit(v[2]),
                                         q_lit(v[3]), q_lit(v[4]), q_lit(v[5]))


def zq(p):
    """QZc neg n d as printed by qz -> Fraction"""
    assert p[0] == "QZc", p
    return Fr(-p[2] if p[1] else p[2], p[3])


def ozq(p):
    if p is None:
        return None
    assert p[0] == "Some"
    return zq(p[1])


def ulp32(x):
    """spacing of f32 at magnitude |x| (x a Fraction / float)"""
    x = abs(float(x))
    if x == 0.0 or x < 2.0 ** -126:
        return Fr(1, 2 ** 149)
    e = math.floor(math.log2(x))
    if 2.0 ** e > x:
        e -= 1
    return Fr(2) ** (e - 23)


def close(a, b, tol):
    return abs(Fr(a) - Fr(b)) <= tol


# ------------------------------------------------------------------------------------------------------------
# model expressions

def box_expr(c):
    k = c["kind"]
    if k == "eqb":
        a, b = coq_bb(bbq(c["a"])), coq_bb(bbq(c["b"]))
        return "m_eqb %s %s" % (a, b)
    if k == "equ":
        a, b = coq_ub(ubq(c["a"])), coq_ub(ubq(c["b"]))
        return "m_equ %s %s" % (a, b)
    if k == "conv":
        return "m_conv %s" % coq_bb(bbq(c["a"]))
    if k == "convu":
        return "m_convu %s" % coq_ub(ubq(c["a"]))
    if k == "poly":
        cs = [f64q(int(x)) for x in c["cs"].split(",")]
        return "m_poly %s %s %s" % (coq_ub(ubq(c["a"])), q_lit(cs[0]), q_lit(cs[1]))
    if k == "norm":
        return "qz (normalize_angle Qops %s %s)" % (q_lit(f32q(int(c["a"]))), q_lit(PI32))
    if k == "kst":
        mean = [f32q(int(x)) for x in c["mean"].split(",")]
        return "m_kst %s [%s]" % (coq_ub(ubq(c["a"])), "; ".join(q_lit(x) for x in mean))
    return None


def boxx_expr(c):
    k = c["kind"]
    if k == "inter":
        a, b = coq_bb(bbq(c["a"])), coq_bb(bbq(c["b"]))
        return "m_inter %s %s" % (a, b)
    if k == "far":
        return "m_far %s %s %s %s" % (coq_ub(ubq(c["a"])), coq_ub(ubq(c["b"])), q_lit(f32q(int(c["ra"]))), q_lit(f32q(int(c["rb"]))))
    return None


def vis_expr(c):
    if c["kind"] != "vis":
        return None
    ctor = "VisualSortMetricType_Euclidean" if c["kind_"] == "E" else "VisualSortMetricType_Cosine"
    return "m_vis (%s Qops %s) %s" % (ctor, q_lit(f32q(int(c["t"]))), q_lit(f32q(int(c["d"]))))


def corr_vis(c, m):
    _, ok_m, w_m = m
    if (c["ok"] == "1") != ok_m:
        return "is_ok(%s, t=%r, d=%r): implementation %s, model %s" % (c["kind_"], float(f32q(int(c["t"]))), float(f32q(int(c["d"]))), c["ok"], ok_m)
    wi, wm = f32q(int(c["w"])), zq(w_m)
    if not close(wi, wm, 2 * ulp32(max(abs(wm), 1))):
        return "distance_to_weight(%s, d=%r): implementation %r, model %r" % (c["kind_"], float(f32q(int(c["d"]))), float(wi), float(wm))
    return None


def extra_expr(c):
    k = c["kind"]
    if k == "cost":
        return "m_cost %s" % q_lit(f32q(int(c["d"])))
    if k == "gate":
        if c["far"] == "P" or c["res"] == "P":
            return None
        if c["mode"] == "iou":
            m = "(PositionalMetricType_IoU Qops %s)" % q_lit(f32q(int(c["thr"])))
            d = "(0 # 1)"
            iou = "None" if c["iou"] in ("N", "-") else "(Some %s)" % q_lit(f32q(int(c["iou"])))
        else:
            if c["dist"] == "-" and c["far"] == "0":
                return None
            m = "(PositionalMetricType_Mahalanobis Qops)"
            d = "(0 # 1)" if c["dist"] == "-" else q_lit(f32q(int(c["dist"])))
            iou = "None"
        return "m_gate %s %s %s %s %s %s %s" % (q_lit(f32q(int(c["mc"]))), m, coq_ub(ubq(c["a"])), coq_ub(ubq(c["b"])),
                                                 "true" if c["far"] == "1" else "false", d, iou)
    if k == "baked":
        if c["db"] != "1":
            return None
        return "baked_wasted_cmp Qops %s %s %s" % (n_lit(int(c["lu"])), n_lit(int(c["mi"])), "None" if c["ep"] == "N" else "(Some %s)" % n_lit(int(c["ep"])))
    return None


# ------------------------------------------------------------------------------------------------------------
# correspondence: model value vs implementation record.  returns None (agree), "skip:<why>" or a message

def eq_margin(c):
    """exact |difference| of the varied coordinate and whether it lies inside the rounding band around EPS"""
    if c["kind"] == "eqb":
        a, b = bbq(c["a"]), bbq(c["b"])
        diffs = [abs(x - y) for x, y in zip(a, b)]
    else:
        a, b = ubq(c["a"]), ubq(c["b"])
        a2 = [a[0], a[1], a[2] if a[2] is not None else Fr(0), a[3], a[4]]
        b2 = [b[0], b[1], b[2] if b[2] is not None else Fr(0), b[3], b[4]]
        diffs = [abs(x - y) for x, y in zip(a2, b2)]
    near = any(abs(d - EPS) <= EPS_BAND for d in diffs)
    return diffs, near


def corr_box(c, m):
    k = c["kind"]
    if k in ("eqb", "equ"):
        diffs, near = eq_margin(c)
        if near:
            return "skip:eps-band"
        impl = (c["ab"] == "1", c["ba"] == "1")
        if tuple(m[1:]) != impl:
            return "== : implementation %s, translated model %s (coordinate differences %s)" % (impl, tuple(m[1:]), [float(d) for d in diffs])
        return None
    if k == "conv":
        a = bbq(c["a"])
        _, u_m, back_m = m
        u_m = u_m[1:]
        u_i = ubq(c["u"])
        sx, sy = max(abs(a[0]), abs(a[2])), max(abs(a[1]), abs(a[3]))
        um = [zq(u_m[0]), zq(u_m[1]), ozq(u_m[2]), zq(u_m[3]), zq(u_m[4]), zq(u_m[5])]
        tols = [4 * U32 * sx, 4 * U32 * sy, None, 4 * U32 * abs(um[3]), 0, 0]
        for i in (0, 1, 3, 4, 5):
            if not close(u_i[i], um[i], tols[i]):
                return "as_xyaah field %d: implementation %s, model %s" % (i, float(u_i[i]), float(um[i]))
        if (u_i[2] is None) != (um[2] is None):
            return "as_xyaah angle: implementation %s, model %s" % (u_i[2], um[2])
        if (c["back"] == "E") != (back_m is None):
            return "try_from(as_xyaah): implementation %s, model %s" % (c["back"], back_m)
        if back_m is not None:
            bi = bbq(c["back"])
            bm = [zq(x) for x in back_m[1]]
            tb = [8 * U32 * sx, 8 * U32 * sy, 8 * U32 * abs(bm[2]), 0, 0]
            for i in range(5):
                if not close(bi[i], bm[i], tb[i]):
                    return "round trip field %d: implementation %s, model %s" % (i, float(bi[i]), float(bm[i]))
        return None
    if k == "convu":
        u = ubq(c["a"])
        _, b_m, back_m = m
        if (c["b"] == "E") != (b_m is None):
            return "try_from: implementation %s, model %s" % (c["b"], b_m)
        if b_m is None:
            return None
        bi = bbq(c["b"])
        bm = [zq(x) for x in b_m[1]]
        w = abs(u[3] * u[4])
        sx, sy = max(abs(u[0]), w), max(abs(u[1]), abs(u[4]))
        tb = [8 * U32 * sx, 8 * U32 * sy, 8 * U32 * w, 0, 0]
        for i in range(5):
            if not close(bi[i], bm[i], tb[i]):
                return "try_from field %d: implementation %s, model %s" % (i, float(bi[i]), float(bm[i]))
        ui = ubq(c["back"])
        um = back_m[1][1:]
        umq = [zq(um[0]), zq(um[1]), ozq(um[2]), zq(um[3]), zq(um[4]), zq(um[5])]
        tu = [16 * U32 * sx, 16 * U32 * sy, None, 16 * U32 * abs(u[3]), 0, 0]
        for i in (0, 1, 3, 4, 5):
            if not close(ui[i], umq[i], tu[i]):
                return "as_xyaah(try_from) field %d: implementation %s, model %s" % (i, float(ui[i]), float(umq[i]))
        return None
    if k == "poly":
        u = ubq(c["a"])
        _, vs_m, area_m, r2_m = m
        vi = [f64q(int(x)) for x in c["v"].split(",")]
        scale = max(abs(u[0]), abs(u[1]), abs(u[4]), abs(u[4] * u[3]), Fr(1, 1000))
        if len(vs_m) != 4:
            return "model polygon has %d vertices" % len(vs_m)
        for i, vm in enumerate(vs_m):
            for j in (0, 1):
                if not close(vi[2 * i + j], zq(vm[j]), Fr(1, 10 ** 12) * scale):
                    return "vertex %d.%s: implementation %r, model %r" % (i, "xy"[j], float(vi[2 * i + j]), float(zq(vm[j])))
        am = zq(area_m)
        if not close(f32q(int(c["area"])), am, 4 * U32 * abs(am)):
            return "area: implementation %r, model %r" % (float(f32q(int(c["area"]))), float(am))
        ri = f32q(int(c["radius"]))
        if not close(ri * ri, zq(r2_m), 8 * U32 * zq(r2_m)):
            return "radius^2: implementation %r, model %r" % (float(ri * ri), float(zq(r2_m)))
        return None
    if k == "kst":
        _, mean_m, u_m = m
        mean_i = [f32q(int(x)) for x in c["mean"].split(",")]
        if [zq(x) for x in mean_m] != mean_i:
            return "initiate mean: implementation %s, model %s" % ([float(x) for x in mean_i], [float(zq(x)) for x in mean_m])
        if (c["u"] == "E") != (u_m is None):
            return "Universal2DBox::try_from(state): implementation %s, model %s" % (c["u"], u_m)
        if u_m is not None:
            ui = ubq(c["u"])
            um = u_m[1][1:]
            umq = [zq(um[0]), zq(um[1]), ozq(um[2]), zq(um[3]), zq(um[4]), zq(um[5])]
            if ui != umq:
                return "Universal2DBox::try_from(state): implementation %s, model %s" % ([None if x is None else float(x) for x in ui], [None if x is None else float(x) for x in umq])
        return None
    if k == "norm":
        a = f32q(int(c["a"]))
        rm, ri = zq(m), f32q(int(c["r"]))
        tol = 4 * ulp32(max(abs(a), 7))
        if close(ri, rm, tol):
            return None
        if close(abs(ri - rm), 2 * PI32, tol):
            return "skip:wrap-boundary"
        return "normalize_angle(%r): implementation %r, model %r" % (float(a), float(ri), float(rm))
    if k == "inter":
        a, b = bbq(c["a"]), bbq(c["b"])
        _, pre, val = m
        if (c["i"] == "P") != (not pre):
            return "intersection precondition: implementation %s, model pre=%s" % (c["i"], pre)
        if not pre:
            return None
        iw = min(a[0] + a[2], b[0] + b[2]) - max(a[0], b[0])
        ih = min(a[1] + a[3], b[1] + b[3]) - max(a[1], b[1])
        mx = max(abs(a[0]) + a[2], abs(b[0]) + b[2])
        my = max(abs(a[1]) + a[3], abs(b[1]) + b[3])
        ex, ey = 2 * ulp32(mx), 2 * ulp32(my)
        ii = f64q(int(c["i"]))
        if abs(iw) <= ex or abs(ih) <= ey:
            return "skip:touching"
        tol = ex * abs(ih) + ey * abs(iw) + ex * ey + 4 * U32 * abs(zq(val))
        if not close(ii, zq(val), tol):
            return "intersection: implementation %r, model %r" % (float(ii), float(zq(val)))
        return None
    if k == "far":
        _, pre, far_m, d2_m, ra2_m, rb2_m = m
        if (c["far"] == "P") != (not pre):
            return "too_far precondition: implementation %s, model pre=%s" % (c["far"], pre)
        ra, rb = f32q(int(c["ra"])), f32q(int(c["rb"]))
        for (ri, r2m, nm) in ((ra, zq(ra2_m), "a"), (rb, zq(rb2_m), "b")):
            if not close(ri * ri, r2m, 8 * U32 * r2m):
                return "get_radius(%s)^2: implementation %r, model %r" % (nm, float(ri * ri), float(r2m))
        if not pre:
            return None
        a, b = ubq(c["a"]), ubq(c["b"])
        d2 = (a[0] - b[0]) ** 2 + (a[1] - b[1]) ** 2
        rs = (math.sqrt(zq(ra2_m)) + math.sqrt(zq(rb2_m))) ** 2
        rel = abs(float(d2) - rs) / max(float(d2), rs, 1e-300)
        res = None
        if rel < 2.0 ** -19:
            res = "skip:too_far-boundary"
        elif (c["far"] == "1") != far_m:
            return "too_far: implementation %s, model %s (d^2=%r, (r1+r2)^2=%r)" % (c["far"], far_m, float(d2), rs)
        di = f32q(int(c["d2r"]))
        if not close(di * di, zq(d2_m), 16 * U32 * zq(d2_m) + Fr(1, 10 ** 30)):
            return "dist_in_2r^2: implementation %r, model %r" % (float(di * di), float(zq(d2_m)))
        return res
    return "unknown kind %s" % k


def corr_extra(c, m, consts):
    k = c["kind"]
    if k == "cost":
        d = f32q(int(c["d"]))
        t4, t1, ub = consts["chi"][4], consts["chi"][1], consts["ub"]
        impl = [f32q(int(c[x])) for x in ("bd", "bi", "pd", "pi")]
        mod = [zq(x) for x in m]
        out = None
        for (idx, t) in ((0, t4), (1, t4), (2, t1), (3, t1)):
            if abs(d - t) <= 2 * ulp32(t):
                out = "skip:gate-boundary"
                continue
            if not close(impl[idx], mod[idx], 4 * U32 * ub):
                return "calculate_cost[%s](%r): implementation %r, model %r" % (("box", "box-inv", "point", "point-inv")[idx], float(d), float(impl[idx]), float(mod[idx]))
        return out
    if k == "gate":
        res = c["res"]
        if res == "X":
            return None if m is None else "metric: implementation None, model %s" % (m,)
        if m is None:
            return "metric: implementation %s, model None" % res
        _, w_i, f_i = res.split(":")
        w_m, f_m = ozq(m[1][1]), ozq(m[1][2])
        if f_i != "N" or f_m is not None:
            return "metric: feature distance component is not None"
        mc = f32q(int(c["mc"]))
        conf = max(ubq(c["a"])[5], mc)
        if c["mode"] == "iou":
            if c["iou"] in ("N", "-"):
                return None if (w_i == "N" and w_m is None) else "metric(IoU) without IoU: implementation %s, model %s" % (w_i, w_m)
            iou, thr = f32q(int(c["iou"])), f32q(int(c["thr"]))
            if abs(iou * conf - thr) <= 4 * U32 * thr:
                return "skip:iou-threshold"
            if (w_i == "N") != (w_m is None):
                return "metric(IoU) gate: implementation %s, model %s" % (w_i, w_m)
            if w_m is not None and not close(f32q(int(w_i)), w_m, 4 * U32 * abs(w_m)):
                return "metric(IoU) weight: implementation %r, model %r" % (float(f32q(int(w_i))), float(w_m))
            return None
        d = f32q(int(c["dist"]))
        if abs(d - consts["chi"][4]) <= 2 * ulp32(consts["chi"][4]):
            return "skip:gate-boundary"
        if w_i == "N" or w_m is None:
            return "metric(Mahalanobis): implementation %s, model %s" % (w_i, w_m)
        if not close(f32q(int(w_i)), w_m, 8 * U32 * max(abs(w_m), consts["ub"] / conf)):
            return "metric(Mahalanobis) weight: implementation %r, model %r" % (float(f32q(int(w_i))), float(w_m))
        return None
    if k == "baked":
        exp = "W" if m else "P"
        return None if c["st"] == exp else "baked: implementation %s, model %s" % (c["st"], exp)
    return "unknown kind %s" % k


# ------------------------------------------------------------------------------------------------------------
# property oracle: the property text applied to the implementation's answers. returns list of (key, message)

def oracle(c):
    k = c["kind"]
    out = []
    if k in ("eqb", "equ"):
        ab, ba, aa, bb = (c[x] == "1" for x in ("ab", "ba", "aa", "bb"))
        if not aa or not bb:
            out.append(("C19:eq:not-reflexive", "a box is not == to itself"))
        if ab != ba:
            out.append(("C19:eq:asymmetric", "a == b is %s but b == a is %s" % (ab, ba)))
        diffs, near = eq_margin(c)
        fk = int(c["k"])
        if k == "equ" and fk == 5:
            return out          # confidence is not one of the universal box's coordinates
        big = [d for d in diffs if d > EPS + EPS_BAND]
        allsmall = all(d < EPS - EPS_BAND for d in diffs)
        if big and (ab or ba):
            out.append(("C19:eq:beyond-eps-equal", "a coordinate differs by %r > EPS but the boxes compare equal (a==b %s, b==a %s)" % (float(max(big)), ab, ba)))
        if allsmall and not (ab and ba):
            out.append(("C19:eq:within-eps-unequal", "all coordinates differ by less than EPS (max %r) but the boxes compare unequal (a==b %s, b==a %s)" % (float(max(diffs)), ab, ba)))
        return out
    if k == "conv":
        a = bbq(c["a"])
        u = ubq(c["u"])
        sx, sy = max(abs(a[0]), abs(a[2])), max(abs(a[1]), abs(a[3]))
        # universal form = centre / aspect / height
        exp = [a[0] + a[2] / 2, a[1] + a[3] / 2, None, a[2] / a[3], a[3], a[4]]
        tol = [8 * U32 * sx, 8 * U32 * sy, None, 8 * U32 * abs(exp[3]), 0, 0]
        for i in (0, 1, 3, 4, 5):
            if not close(u[i], exp[i], tol[i]):
                out.append(("C19:convert:universal-form", "as_xyaah field %s is %r, centre/aspect/height form requires %r" % (("xc", "yc", "angle", "aspect", "height", "confidence")[i], float(u[i]), float(exp[i]))))
        if u[2] is not None:
            out.append(("C19:convert:universal-form", "as_xyaah of an axis-aligned box carries an angle"))
        if c["back"] == "E":
            out.append(("C19:roundtrip:ltwh", "ltwh -> universal -> ltwh fails with an error"))
        else:
            bk = bbq(c["back"])
            tb = [16 * U32 * sx, 16 * U32 * sy, 16 * U32 * abs(a[2]), 16 * U32 * abs(a[3]), 0]
            for i in range(5):
                if not close(bk[i], a[i], tb[i]):
                    out.append(("C19:roundtrip:ltwh", "ltwh -> universal -> ltwh changes %s from %r to %r" % (("left", "top", "width", "height", "confidence")[i], float(a[i]), float(bk[i]))))
        return out
    if k == "convu":
        u = ubq(c["a"])
        if u[2] is not None:
            return out          # rotated: no ltwh form, nothing required of the round trip
        if c["b"] == "E":
            out.append(("C19:roundtrip:xyaah", "universal (no angle) -> ltwh fails with an error"))
            return out
        bk = ubq(c["back"])
        w = abs(u[3] * u[4])
        sx, sy = max(abs(u[0]), w), max(abs(u[1]), abs(u[4]))
        tb = [16 * U32 * sx, 16 * U32 * sy, None, 16 * U32 * abs(u[3]), 0, 0]
        for i in (0, 1, 3, 4, 5):
            if not close(bk[i], u[i], tb[i]):
                out.append(("C19:roundtrip:xyaah", "universal -> ltwh -> universal changes %s from %r to %r" % (("xc", "yc", "angle", "aspect", "height", "confidence")[i], float(u[i]), float(bk[i]))))
        if bk[2] is not None:
            out.append(("C19:roundtrip:xyaah", "universal -> ltwh -> universal introduces an angle"))
        return out
    if k == "poly":
        u = ubq(c["a"])
        xc, yc, ang, asp, h = float(u[0]), float(u[1]), float(u[2] or 0), float(u[3]), float(u[4])
        v = [float(f64q(int(x))) for x in c["v"].split(",")]
        pts = [(v[2 * i], v[2 * i + 1]) for i in range(4)]
        if int(c["n"]) != 5:
            out.append(("C19:polygon:vertices", "the polygon ring has %s points (4 corners + closing point expected)" % c["n"]))
        # independently computed rotated rectangle (python double precision)
        cs, sn = math.cos(ang), math.sin(ang)
        hw, hh = asp * h / 2.0, h / 2.0
        scale = max(abs(xc), abs(yc), abs(h), abs(asp * h), 1e-3)
        tol = 1e-9 * scale
        corners = [(-hw, hh), (hw, hh), (hw, -hh), (-hw, -hh)]
        for i, (dx, dy) in enumerate(corners):
            ex, ey = xc + cs * dx - sn * dy, yc + sn * dx + cs * dy
            if abs(pts[i][0] - ex) > tol or abs(pts[i][1] - ey) > tol:
                out.append(("C19:polygon:vertices", "vertex %d is (%r, %r); the rectangle %rx%r rotated by %r about (%r, %r) has (%r, %r)" % (i, pts[i][0], pts[i][1], 2 * hw, 2 * hh, ang, xc, yc, ex, ey)))
                break
        # shoelace area = aspect*h^2 = area()
        sh = 0.0
        for i in range(4):
            x1, y1 = pts[i][0] - xc, pts[i][1] - yc
            x2, y2 = pts[(i + 1) % 4][0] - xc, pts[(i + 1) % 4][1] - yc
            sh += x1 * y2 - x2 * y1
        parea = abs(sh) / 2.0
        area_i = float(f32q(int(c["area"])))
        area_t = asp * h * h
        if abs(area_i - area_t) > 1e-6 * abs(area_t):
            out.append(("C19:polygon:area", "area() is %r, aspect*height^2 is %r" % (area_i, area_t)))
        if abs(parea - area_t) > 1e-6 * abs(area_t) + 1e-9 * scale * scale:
            out.append(("C19:polygon:area", "the polygon's shoelace area is %r, the box's area is %r" % (parea, area_t)))
        mx, my = sum(p[0] for p in pts) / 4.0, sum(p[1] for p in pts) / 4.0
        if abs(mx - xc) > tol or abs(my - yc) > tol:
            out.append(("C19:polygon:centre", "the polygon's centre is (%r, %r), the box's is (%r, %r)" % (mx, my, xc, yc)))
        rad_i = float(f32q(int(c["radius"])))
        rad_t = math.sqrt(hw * hw + hh * hh)
        if abs(rad_i - rad_t) > 1e-6 * rad_t:
            out.append(("C19:polygon:radius", "get_radius() is %r, half the diagonal is %r" % (rad_i, rad_t)))
        for i, p in enumerate(pts):
            dist = math.hypot(p[0] - xc, p[1] - yc)
            if abs(dist - rad_i) > 1e-6 * rad_t + tol:
                out.append(("C19:polygon:radius", "vertex %d lies at distance %r from the centre, get_radius() is %r" % (i, dist, rad_i)))
                break
        return out
    if k == "seq":
        cur = ubq(c["cur"])
        ops = c.get("ops", "")
        names = ("xc", "yc", "angle", "aspect", "height", "confidence")
        fl = lambda v: [None if x is None else float(x) for x in v]
        if "exp" in c:
            # queries and cache fills (gen_vertices, clone, intersection, clip, try_from) must not change any public field,
            # incl. angle None vs Some(0.0): the fields are the initial ones with only the explicit writes applied
            cb, eb = bits_list(c["cur"]), bits_list(c["exp"])
            for i in range(6):
                if cb[i] != eb[i]:
                    out.append(("C19:seq:impure-call", "after [%s] field %s of the box is %s, but only the explicit writes were applied to a box that had %s: it must be %s" % (
                        ops, names[i], fl(cur)[i], fl(ubq(c["a"]))[i], fl(ubq(c["exp"]))[i])))
            for (got, want, call) in (("tb", "tbf", "BoundingBox::try_from(&box)"), ("tv", "tvf", "BoundingBox::try_from(box)")):
                if c[got] != c[want]:
                    out.append(("C19:convert:after-sequence", "after [%s] %s gives %s, on a fresh box with the fields %s it gives %s" % (
                        ops, call, "an error" if c[got] == "E" else fl(bbq(c[got])), fl(ubq(c["exp"])), "an error" if c[want] == "E" else fl(bbq(c[want])))))
            if c["area"] != c["areaf"] or c["radius"] != c["radiusf"]:
                out.append(("C19:seq:impure-call", "after [%s] area()/get_radius() differ from those of a fresh box with the fields %s" % (ops, fl(ubq(c["exp"])))))
            if c["eq"] != "11":
                out.append(("C19:seq:impure-call", "after [%s] the box is not == to a fresh box with the fields %s (orders: %s)" % (ops, fl(ubq(c["exp"])), c["eq"])))
            cur = ubq(c["exp"])
        for (got, want, call) in (("gv", "fv", "get_vertices()"), ("pf", "ff", "Polygon::from(&box)")):
            if c[got] != c[want]:
                out.append(("C19:polygon:stale-cache", "after [%s] the box has fields %s but %s returns a polygon that differs from the one of a fresh box with the same fields (first vertex (%r, %r) instead of (%r, %r))" % (
                    ops, [None if x is None else float(x) for x in cur], call,
                    float(f64q(int(c[got].split(",")[0]))), float(f64q(int(c[got].split(",")[1]))),
                    float(f64q(int(c[want].split(",")[0]))), float(f64q(int(c[want].split(",")[1]))))))
        if cur[2] is not None and c["gc"] != c["fc"]:
            out.append(("C19:polygon:stale-cache", "after [%s] and a new gen_vertices() the cached polygon of the box with fields %s differs from the one of a fresh box with the same fields" % (ops, [None if x is None else float(x) for x in cur])))
        # the polygon returned now must be the rotated rectangle of the CURRENT fields (same oracle as for fresh boxes)
        pseudo = {"kind": "poly", "a": c.get("exp", c["cur"]), "v": c["gv"], "n": c["n"], "area": c["area"], "radius": c["radius"]}
        for (key, msg) in oracle(pseudo):
            out.append((key, "after [%s]: %s" % (ops, msg)))
        return out
    if k == "kst":
        ab = bits_list(c["a"])
        a = ubq(c["a"])
        nonzero = a[2] is not None and a[2] != 0
        names = ("xc", "yc", "angle", "aspect", "height", "confidence")
        if c["u"] == "E":
            out.append(("C19:kalman:state-to-box", "a box stored in a Kalman state (initiate) cannot be read back: Universal2DBox::try_from(state) fails"))
        else:
            ub = bits_list(c["u"])
            u = ubq(c["u"])
            for i in (0, 1, 3, 4):
                if ub[i] != ab[i]:
                    out.append(("C19:kalman:state-to-box", "box -> Kalman state -> box changes %s from %r to %r" % (names[i], float(a[i]), float(u[i]))))
            if nonzero and (u[2] is None or ub[2] != ab[2]):
                out.append(("C19:kalman:state-to-box", "box -> Kalman state -> box changes the angle from %r to %s" % (float(a[2]), None if u[2] is None else float(u[2]))))
            if not nonzero and u[2] is not None and u[2] != 0:
                out.append(("C19:kalman:state-to-box", "box -> Kalman state -> box invents the angle %r" % float(u[2])))
            if c["ua"] != "1" or c["au"] != "1":
                out.append(("C19:kalman:state-to-box", "the box read back from the Kalman state is not == to the original (read-back == original: %s, original == read-back: %s)" % (c["ua"], c["au"])))
        if nonzero and c["bb"] != "E":
            out.append(("C19:kalman:state-to-ltwh", "BoundingBox::try_from(state) succeeds for a state that holds the non-zero angle %r (the angle is silently dropped)" % float(a[2])))
        if not nonzero:
            if c["bb"] == "E":
                out.append(("C19:kalman:state-to-ltwh", "BoundingBox::try_from(state) fails for a state without an angle"))
            else:
                bb = bbq(c["bb"])
                w = a[3] * a[4]
                exp = [a[0] - w / 2, a[1] - a[4] / 2, w, a[4]]
                tol = [16 * U32 * max(abs(a[0]), abs(w)), 16 * U32 * max(abs(a[1]), abs(a[4])), 16 * U32 * abs(w), 0]
                for i in range(4):
                    if not close(bb[i], exp[i], tol[i]):
                        out.append(("C19:kalman:state-to-ltwh", "BoundingBox::try_from(state) field %s is %r, the box has %r" % (("left", "top", "width", "height")[i], float(bb[i]), float(exp[i]))))
        return out
    if k == "norm":
        a, r = f32q(int(c["a"])), f32q(int(c["r"]))
        two_pi = 2 * math.pi
        tol = float(4 * ulp32(max(abs(a), 7)))
        kf = (float(a) - float(r)) / two_pi
        kk = round(kf)
        tol_c = tol + abs(kk) * abs(float(2 * PI32) - two_pi)
        if float(r) < -tol or float(r) > two_pi + tol:
            out.append(("C19:normalize:range", "normalize_angle(%r) = %r is outside [0, 2*pi]" % (float(a), float(r))))
        if abs(float(a) - float(r) - kk * two_pi) > tol_c:
            out.append(("C19:normalize:congruence", "normalize_angle(%r) = %r is not congruent to its argument modulo 2*pi (off by %r)" % (float(a), float(r), float(a) - float(r) - kk * two_pi)))
        return out
    return out


# ------------------------------------------------------------------------------------------------------------

def read_consts():
    """EPS / CHI2INV95 / CHI2_UPPER_BOUND as the translator read them (gen/manifest.json)"""
    man = json.load(open(os.path.join(vlib.COQ, "gen", "manifest.json")))
    cs = man.get("consts", {})
    return {"eps": Fr(cs["EPS"]["value"]), "chi": [Fr(x) for x in cs["CHI2INV95"]], "ub": Fr(cs["CHI2_UPPER_BOUND"]["value"]),
            "errors_by_file": man.get("errors_by_file", {}), "items": man.get("items", {})}


C19_GEN = {"Consts", "Scalar", "ScalarBox"}


def run_harness_on(lines):
    path = os.path.join(vlib.ALT or vlib.CACHE, "c19_replay_%d.txt" % os.getpid())
    with open(path, "w") as fh:
        fh.write("\n".join(lines) + "\n")
    rc, out, err = vlib.harness_run("boxes", ["replay", "--file", path])
    os.remove(path)
    return [parse_line(l) for l in out.split("\n") if l and not l.startswith("#")]


def input_part(c):
    k = c["kind"]
    keys = {"eqb": ("a", "b", "k"), "equ": ("a", "b", "k"), "conv": ("a",), "convu": ("a",), "poly": ("a",), "norm": ("a",),
            "inter": ("a", "b"), "far": ("a", "b"), "cost": ("d",), "gate": ("mode", "mc", "thr", "a", "b", "hist"),
            "baked": ("lu", "mi", "ep", "db"), "vis": ("kind_", "t", "d"), "kst": ("a",), "seq": ("a", "ops")}[k]
    return k + " " + " ".join("%s=%s" % ("kind" if x == "kind_" else x, c[x]) for x in keys)


F32_ONE = 0x3F800000


def shrink_seq(c, key):
    """drop operations one at a time, then simplify their arguments and the box, while the same key still fires"""
    def fires(cand):
        try:
            res = run_harness_on([input_part(cand)])
        except Exception:       # noqa: BLE001
            return None
        if res and res[0].get("kind") == "seq" and any(kk == key for kk, _ in oracle(res[0])):
            return res[0]
        return None
    cur = c
    changed = True
    while changed:
        changed = False
        ops = [o for o in cur["ops"].split(";") if o]
        for i in range(len(ops)):
            cand = dict(cur)
            cand["ops"] = ";".join(ops[:i] + ops[i + 1:])
            r = fires(cand)
            if r is not None:
                cur, changed = r, True
                break
    ops = [o for o in cur["ops"].split(";") if o]
    for i, o in enumerate(ops):
        if ":" in o and not o.endswith(":N"):
            for val in (str(F32_ONE), "1073741824"):       # 1.0, 2.0
                cand = dict(cur)
                cand["ops"] = ";".join(ops[:i] + [o.split(":")[0] + ":" + val] + ops[i + 1:])
                r = fires(cand)
                if r is not None:
                    cur = r
                    ops = [x for x in cur["ops"].split(";") if x]
                    break
    v = cur["a"].split(",")
    for i in range(len(v)):
        cand = dict(cur)
        w = list(v)
        w[i] = str(F32_ONE)
        cand["a"] = ",".join(w)
        r = fires(cand)
        if r is not None:
            cur, v = r, w
    return cur


def shrink(c, key):
    """make the other fields of a failing case simple (1.0 / no angle) as long as the same oracle key still fires"""
    k = c["kind"]
    if k == "seq":
        return shrink_seq(c, key)
    if k not in ("eqb", "equ", "conv", "convu", "poly", "kst"):
        return c
    cur = c
    fields = ["a", "b"] if k in ("eqb", "equ") else ["a"]
    nf = len(cur["a"].split(","))
    for i in range(nf):
        if k in ("eqb", "equ") and i == int(cur["k"]):
            continue
        if k == "kst" and i == 2:
            continue        # the angle is what the stream is about
        for repl in ("N", str(F32_ONE)) if (k in ("equ", "convu", "poly") and i == 2) else (str(F32_ONE),):
            cand = dict(cur)
            for f in fields:
                v = cand[f].split(",")
                v[i] = repl
                cand[f] = ",".join(v)
            try:
                res = run_harness_on([input_part(cand)])
            except Exception:
                continue
            if res and any(kk == key for kk, _ in oracle(res[0])):
                cur = res[0]
                break
    return cur


def decode(c):
    d = {}
    for f in ("a", "b", "u", "back"):
        if f in c and c[f] not in ("E", "-"):
            d[f] = [None if x is None else float(f32q(x)) for x in bits_list(c[f])]
    for f in ("ab", "ba", "aa", "bb", "k", "r", "area", "radius", "n"):
        if f in c:
            d[f] = c[f] if f in ("ab", "ba", "aa", "bb", "k", "n") else float(f32q(int(c[f])))
    if c["kind"] == "norm":
        d["a"] = float(f32q(int(c["a"])))
    if c["kind"] == "seq":
        d["ops"] = [o if ":" not in o or o.endswith(":N") else "%s:%r" % (o.split(":")[0], float(f32q(int(o.split(":")[1])))) for o in c["ops"].split(";") if o]
        d["current_fields"] = [None if x is None else float(x) for x in ubq(c["cur"])]
        if "exp" in c:
            d["expected_fields"] = [None if x is None else float(x) for x in ubq(c["exp"])]
            d["try_from_ref"], d["fresh_try_from_ref"] = c["tb"], c["tbf"]
        d["get_vertices"] = [float(f64q(int(x))) for x in c["gv"].split(",")]
        d["fresh_box_get_vertices"] = [float(f64q(int(x))) for x in c["fv"].split(",")]
    return d


def run(chk):
    props = os.path.join(vlib.COQ, "theories", "Props", "C19.v")
    nbroken0 = len(chk.broken)
    vlib.proof_stage(chk, props)
    if chk.tier == "thorough":
        vlib.coqchk_stage(chk, "Similari.Props.C19")
    consts = None
    try:
        consts = read_consts()
    except Exception as e:          # noqa: BLE001
        chk.broken.append("gen/manifest.json unreadable: %s" % e)
    # translator errors about items outside this property's cone (Kalman cost, SortMetric, clipping) are reported by
    # the properties that use them; they do not concern C19
    if consts is not None:
        ebf = consts["errors_by_file"]
        outside = {f: e for f, e in ebf.items() if f not in C19_GEN}
        inside = {f: e for f, e in ebf.items() if f in C19_GEN}
        if outside and not inside:
            chk.broken[:] = [b for i, b in enumerate(chk.broken) if not (i >= nbroken0 and b.startswith("translator:"))]
        if outside:
            chk.coverage["translator_errors_outside_cone"] = outside
        if consts["eps"] != EPS:
            chk.log("note: EPS in the sources is now %s" % consts["eps"])

    ok, out = vlib.harness_build(["boxes"])
    if not ok:
        chk.broken.append("harness build failed:\n" + out[-2000:])
        chk.violation("harness-build", "the correspondence harness does not build against /repo", {"log": out[-4000:]}, found_input=False)
        chk.coverage.update({"evaluations": 0})
        return
    n = 40 if chk.tier == "quick" else 600
    rc, out, err = vlib.harness_run("boxes", ["gen", "--seed", chk.seed, "--n", n])
    cases = [parse_line(l) for l in out.split("\n") if l and not l.startswith("#")]
    chk.log("implementation ran %d cases (rc=%s)" % (len(cases), rc))
    if rc != 0 or not cases:
        chk.broken.append("harness run failed rc=%s: %s" % (rc, err[-1500:]))

    # ---- model side ----------------------------------------------------------------------------------
    hist = Counter(c["kind"] for c in cases)
    disagreements = []          # (case, message)
    skipped = Counter()
    compared = Counter()
    box_idx = [i for i, c in enumerate(cases) if box_expr(c) is not None]
    extra_idx = [i for i, c in enumerate(cases) if c["kind"] in ("cost", "gate", "baked") and extra_expr(c) is not None]
    box_vo = os.path.join(vlib.COQ, "theories", "Proofs", "BoxProofs.vo")
    if os.path.exists(box_vo):
        try:
            vals = vlib.coq_eval(PREAMBLE_BOX, [box_expr(cases[i]) for i in box_idx], shard_size=200, tag="c19")
            for i, v in zip(box_idx, vals):
                msg = corr_box(cases[i], vlib.parse_coq_value(v))
                if msg is None:
                    compared[cases[i]["kind"]] += 1
                elif msg.startswith("skip:"):
                    skipped[msg[5:]] += 1
                else:
                    disagreements.append((cases[i], msg))
        except (RuntimeError, AssertionError) as e:
            chk.broken.append("model evaluation (ScalarBox) failed: %s" % str(e)[-1500:])
    else:
        chk.broken.append("model not built: Proofs/BoxProofs.vo missing")
    extra_dis = []
    # functions of bbox.rs that C19 does not speak about (pre-filter, distance, axis-aligned intersection) and the visual
    # metric kinds: translator spot validation only
    for (tag, pre, fexpr, fcorr, targets) in (
            ("c19bx", PREAMBLE_BOXX, boxx_expr, corr_box, ["theories/Proofs/BoxExtraProofs.vo"]),
            ("c19vs", PREAMBLE_VIS, vis_expr, corr_vis, ["gen/ScalarVisual.vo"])):
        idx = [i for i, c in enumerate(cases) if fexpr(c) is not None]
        if not idx:
            continue
        okx, outx = vlib.coq_build(targets)
        if not okx:
            chk.coverage.setdefault("extra_items_not_evaluated", {})[tag] = "%s does not build (reported by the properties that use it)" % targets
            continue
        try:
            vals = vlib.coq_eval(pre, [fexpr(cases[i]) for i in idx], shard_size=200, tag=tag)
            for i, v in zip(idx, vals):
                msg = fcorr(cases[i], vlib.parse_coq_value(v))
                if msg is None:
                    compared[cases[i]["kind"]] += 1
                elif msg.startswith("skip:"):
                    skipped[msg[5:]] += 1
                else:
                    extra_dis.append((cases[i], msg))
        except (RuntimeError, AssertionError) as e:
            chk.coverage.setdefault("extra_items_not_evaluated", {})[tag] = str(e)[-600:]
    if extra_idx and consts is not None:
        okx, outx = vlib.coq_build(["gen/ScalarGate.vo", "gen/ScalarCost.vo"])
        if okx:
            try:
                vals = vlib.coq_eval(PREAMBLE_EXTRA, [extra_expr(cases[i]) for i in extra_idx], shard_size=200, tag="c19x")
                for i, v in zip(extra_idx, vals):
                    msg = corr_extra(cases[i], vlib.parse_coq_value(v), consts)
                    if msg is None:
                        compared[cases[i]["kind"]] += 1
                    elif msg.startswith("skip:"):
                        skipped[msg[5:]] += 1
                    else:
                        extra_dis.append((cases[i], msg))
            except (RuntimeError, AssertionError) as e:
                chk.coverage.setdefault("extra_items_not_evaluated", {})["c19x"] = str(e)[-600:]
        else:
            chk.coverage.setdefault("extra_items_not_evaluated", {})["c19x"] = "gen/ScalarCost.v / gen/ScalarGate.v do not build (reported by C02/C07)"

    # ---- property oracle on the implementation --------------------------------------------------------
    fails = []
    nontrivial = set()
    eq_classes = Counter()
    for c in cases:
        for (key, msg) in oracle(c):
            fails.append((key, msg, c))
        if c["kind"] in ("eqb", "equ"):
            diffs, near = eq_margin(c)
            d = max(diffs)
            cls = "identical" if d == 0 else "near-band" if near else "within" if d < EPS else "beyond"
            eq_classes[cls] += 1
            if d != 0:
                nontrivial.add(input_part(c))
        elif c["kind"] in ("conv", "convu", "poly", "norm", "kst", "seq"):
            nontrivial.add(input_part(c))
    chk.coverage.update({
        "evaluations": len(cases),
        "distinct_nontrivial": len(nontrivial),
        "rule": "equality: pairs that differ in exactly one coordinate (every field in turn; base magnitudes 1e-2..1e4, both signs, "
                "angle none/0/k*pi/2/|a|>2pi/random) by +-delta, delta in EPS*{0..9.9e6}, n ulps with n*ulp straddling EPS, the f32 EPS and its "
                "neighbours, and +-99; both argument orders and self-comparison; non-trivial = the two boxes differ. conversions / polygon / "
                "normalisation: one case per generated box or angle (angles incl. k*2pi +-2 ulps, k*pi/2, +-1e5, +-1e-30). distinct by input bits",
        "samples": [c["raw"][:300] for c in (cases[:1] + [c for c in cases if c["kind"] == "equ"][:1] + [c for c in cases if c["kind"] == "poly"][:1] + [c for c in cases if c["kind"] == "norm"][5:6])],
        "input_distribution": dict(hist),
        "equality_delta_classes": dict(eq_classes),
        "model_vs_impl_compared": dict(compared),
        "model_vs_impl_skipped_in_rounding_band": dict(skipped),
        "model_vs_impl_disagreements": len(disagreements),
        "other_translated_items_disagreements": len(extra_dis),
        "spec_oracle_failures": len(fails),
        "tolerances": "== exact outside |diff-EPS| <= 2^-39; f32 results 4-16 ulp of the operand scale; f64 vertices 1e-12 (model) / 1e-9 (oracle) of the box scale; "
                      "too_far exact outside relative margin 2^-19; cost/gate exact outside 2 ulp of the chi-square entry",
    })

    # ---- verdict ----------------------------------------------------------------------------------------
    seen = set()
    for (key, msg, c) in fails:
        if key in seen:
            continue
        seen.add(key)
        small = shrink(c, key)
        msgs = [m for kk, m in oracle(small) if kk == key] or [msg]
        chk.violation(key, msgs[0], {
            "input": input_part(small), "record": small["raw"] if "raw" in small else None, "decoded": decode(small),
            "count_of_failing_cases_with_this_key": sum(1 for f in fails if f[0] == key),
            "replay_cmd": "printf '%s\\n' '" + input_part(small) + "' > /tmp/c19.txt && " + vlib.harness_bin("boxes") + " replay --file /tmp/c19.txt",
            "broken": chk.broken})
    if extra_dis:
        chk.coverage["other_translated_items_first_disagreement"] = {"case": input_part(extra_dis[0][0]), "what": extra_dis[0][1]}
    if not fails and (disagreements or extra_dis or chk.broken):
        what = "proof or correspondence no longer checks: " + "; ".join(b.split("\n")[0][:200] for b in chk.broken)
        rep = {"broken": chk.broken}
        dis = disagreements or extra_dis
        if dis:
            c, msg = dis[0]
            rep["correspondence_case"] = input_part(c)
            rep["disagreement"] = msg
            rep["decoded"] = decode(c)
            what += " translated model and implementation differ on %d cases (first: %s)" % (len(disagreements) + len(extra_dis), msg)
        chk.violation("C19:tie-broken", what, rep, found_input=False)


def replay(chk, path):
    rep = json.load(open(path))
    ok, out = vlib.harness_build(["boxes"])
    line = rep.get("input") or rep.get("correspondence_case")
    if not line:
        print("nothing to replay: ", rep.get("what"))
        return 0
    res = run_harness_on([line])
    if not res:
        print("the harness produced no record")
        return 0
    c = res[0]
    print(c["raw"])
    print("decoded:", decode(c))
    fl = oracle(c)
    for key, msg in fl:
        print("oracle:", key, msg)
    want = rep.get("key")
    hit = [1 for key, _ in fl if key == want] if want and want != "C19:tie-broken" else fl
    print("REPRODUCED" if hit else "not reproduced")
    return 1 if hit else 0
