"""C04 - scene isolation (Sort, BatchSort): proof (Props/C04.v) + exact correspondence (shared with C01/C03) +
RUN-PAIR oracle on the implementation: the interleaved run vs the run of one scene's calls alone."""
from . import tracker_common as tc


def run_pairs(chk, data, max_hist):
    hists, runs, corr = data["hists"], data["runs"], data["corr"]
    cand = [k for k, h in enumerate(hists) if len(tc.scenes_of(h)) >= 2 and tc.tie_free(h, runs[k])]
    cand = [k for k in cand if not tc.is_visual(hists[k])][:max_hist] + [k for k in cand if tc.is_visual(hists[k])][:max(40, max_hist // 4)]
    variants = []
    for k in cand:
        for s in tc.scenes_of(hists[k]):
            variants.append((k, s, tc.project(hists[k], s)))
    # the same histories with scene-less skip_epochs(n) calls (all four trackers): they act on scene 0 only
    extra = []
    for k in cand[: max(60, max_hist // 3)] + [k for k in cand if tc.is_visual(hists[k])][:30]:
        hv = tc.with_sceneless_skips(hists[k], chk.seed)
        if hv is not None:
            extra.append(hv)
    eruns = tc.run_impl(extra)
    hists = list(hists)
    runs = list(runs)
    for hv, rv in zip(extra, eruns):
        if rv is None or not tc.tie_free(hv, rv):
            continue
        hists.append(hv)
        runs.append(rv)
        for s in tc.scenes_of(hv):
            variants.append((len(hists) - 1, s, tc.project(hv, s)))
    run_pairs.sceneless = len(extra)
    vruns = tc.run_impl([v for _, _, v in variants])
    fails = {}
    compared = 0
    for (k, s, v), r in zip(variants, vruns):
        if r is None or not tc.tie_free(v, r):
            continue
        compared += 1
        a = tc.scene_outputs(hists[k], runs[k], s)
        b = tc.scene_outputs(v, r, s)
        if a != b:
            i = next((j for j, (x, y) in enumerate(zip(a, b)) if x != y), min(len(a), len(b)))
            key = "interference:" + (a[i][0] if i < len(a) else "length")
            msg = ("scene %d: its %d-th call gives %s when calls of other scenes are interleaved and %s alone"
                   % (s, i, str(a[i])[:300] if i < len(a) else "-", str(b[i])[:300] if i < len(b) else "-"))
            fails.setdefault(key, (hists[k], msg, s))
    return fails, compared, len(cand)


def run(chk):
    data = tc.common_stage(chk, "C04")
    if data is None:
        return
    tc.coverage_common(
        chk, data,
        "multi-scene histories whose scenes deliberately occupy the same image region (same anchors), Sort and BatchSort "
        "(incl. multi-scene batch requests); exact model replay of the interleaved run + run-pair oracle: interleaved run "
        "vs the calls of each scene alone, compared up to the first-occurrence id bijection. non-trivial = >= 2 scenes and "
        "some call has >= 2 detections gated to a common track or an exact duplicate; distinct by hash of (config, history)",
        lambda cl: cl["crowded"] or cl["dup"])
    fails = {}
    for k, (h, r) in enumerate(zip(data["hists"], data["runs"])):
        if r is None:
            continue
        for (p, key, msg, i) in tc.oracle_history(h, r, want=("C04",)):
            fails.setdefault(key, (k, msg))
    found = tc.report_oracle_failures(chk, "C04", data, fails, lambda key: tc.ledger_fails("C04", key))
    pf, compared, nh = run_pairs(chk, data, 200 if chk.tier == "quick" else 2000)
    chk.coverage["run_pairs"] = {"histories": nh, "histories_with_sceneless_skip_epochs": getattr(run_pairs, "sceneless", 0), "scene_projections_compared": compared, "failing_keys": sorted(pf.keys()),
                                 "ledger_failing_keys": sorted(fails.keys())}
    for key, (h, msg, s) in sorted(pf.items())[:4]:

        def f(hh, s=s):
            p = tc.project(hh, s)
            ra, rb = tc.run_impl([hh, p])
            if ra is None or rb is None or not tc.tie_free(hh, ra) or not tc.tie_free(p, rb):
                return False
            return tc.scene_outputs(hh, ra, s) != tc.scene_outputs(p, rb, s)
        small = tc.shrink_history(h, f) if f(h) else h
        chk.violation("C04:" + key, msg, tc.replay_obj(small, msg, {"pair": {"kind": "project", "scene": s},
                                                                    "original_history": h["k"], "seed": chk.seed}))
        found = True
    found = tc.visual_report(chk, "C04", data, found)
    tc.report_correspondence(chk, "C04", data, found)
    # scene isolation on the VISUAL trackers: oracles applied directly to real VisualSort / BatchVisualSort runs
    # (no cross-scene attachment; interleaved run vs per-scene projected run), tools/props/visual_c04.py
    try:
        from props import visual_c04
        visual_c04.c04_visual_stage(chk)
    except Exception:
        import traceback
        chk.violation("C04:visual-stage-error", "the VisualSort stage of the C04 check failed to run",
                      {"error": traceback.format_exc()[-3000:]}, found_input=False)


def replay(chk, path):
    from props import visual_c04
    r = visual_c04.c04_visual_replay(chk, path)
    if r is not None:
        return r
    return tc.generic_replay(chk, path, "C04")
