"""C13 - bounded galleries and histories: proof (Props/C13.v) + exact correspondence with the real VisualSort / Sort
(harness bin `visual`) + direct property oracles on the implementation's galleries, histories and records.

The parsing helpers of the `visual` harness output live here and are shared with props/c12.py."""
import json
import os
import time
from collections import Counter, defaultdict
from fractions import Fraction

import vlib
from vlib import q_lit, n_lit, coq_list, coq_bool, f32_bits_to_fraction

PREAMBLE = """From Coq Require Import List NArith QArith Bool.
From Similari Require Import Model.VisualAttrs.
Import ListNotations.
Open Scope Q_scope.
"""


# ------------------------------------------------------------------------------------------------------------
# parsing of the harness output (shared with c12)

def _kv(tokens):
    d = {}
    for t in tokens:
        if "=" in t:
            a, b = t.split("=", 1)
            d[a] = b
    return d


def fb(s):
    return f32_bits_to_fraction(int(s))


def parse_spec(line):
    d = _kv(line.split())
    pos = d["pos"]
    vk, vt = d["vis"].split(":")
    return {
        "line": line.strip(),
        "k": int(d["k"]), "trk": d["trk"], "shards": int(d["shards"]), "hist": int(d["hist"]), "idle": int(d["idle"]),
        "maxobs": int(d["maxobs"]), "minlen": int(d["minlen"]), "votes": int(d["votes"]),
        "quse": fb(d["quse"]), "qcol": fb(d["qcol"]), "minarea": fb(d["minarea"]), "ownuse": fb(d["ownuse"]),
        "owncol": fb(d["owncol"]), "pos_iou": None if pos == "maha" else fb(pos.split(":")[1]),
        "pos_iou_bits": None if pos == "maha" else int(pos.split(":")[1]),
        "minconf": fb(d["minconf"]), "vis_cos": vk == "cos", "vis_thr": fb(vt), "vis_thr_bits": int(vt),
        "calls_txt": d.get("calls", ""),
    }


def _uid(s):
    return None if s == "?" else int(s)


def parse_det(s):
    u, q, f, a, o = s.split(":")
    return {"uid": int(u), "q": fb(q), "qbits": int(q), "feat": f == "1", "area": fb(a), "own": None if o == "-" else fb(o)}


def parse_rec(s):
    p = s.split(":")
    i, ln, ep, vt, ou, pu, sc = p[:7]
    cu = None if len(p) < 8 or p[7] == "-" else int(p[7])
    return {"id": int(i), "len": int(ln), "epoch": int(ep), "vt": vt, "obs": _uid(ou), "pred": _uid(pu), "scene": int(sc), "custom": cu}


def parse_trk(tokens):
    d = _kv(tokens)
    gal = []
    for e in [x for x in d.get("gal", "").split(",") if x]:
        q, f, u, b = e.split(":")
        gal.append({"q": fb(q), "qbits": int(q), "feat": f == "1", "uid": _uid(u), "box": b == "1"})
    fh = []
    for e in [x for x in d.get("feat", "").split(",") if x]:
        u, f = e.split(":")
        fh.append((_uid(u), f == "1"))
    return {
        "id": int(d["id"]), "scene": int(d.get("scene", 0)), "epoch": int(d["epoch"]), "vt": d.get("vt", "N"),
        "coll": int(d.get("coll", 0)), "len": int(d["len"]), "gal": gal,
        "obs": [_uid(x) for x in d.get("obs", "").split(",") if x],
        "pred": [_uid(x) for x in d.get("pred", "").split(",") if x],
        "feat": fh,
        "robs": [_uid(x) for x in d.get("robs", "").split(",") if x],
        "rpred": [_uid(x) for x in d.get("rpred", "").split(",") if x],
    }


def parse_output(out):
    """-> list of cases {spec, calls:[{j,scene,epoch,dets,recs,status,trk:{id:..},fd:{(cand,trk):{obsuid:Q}},pos:{(cand,trk):(Q,z)}}], end:{id:trk}, wasted:{id:trk}, wasted_panic}"""
    cases = []
    cur = None
    pend_fd = {}
    pend_pos = {}
    pend_posx = {}
    for line in out.split("\n"):
        if not line:
            continue
        head, _, rest = line.partition(" ")
        if head == "spec":
            cur = {"spec": parse_spec(rest), "calls": [], "end": {}, "wasted": {}, "wasted_panic": False, "complete": False}
            cases.append(cur)
            pend_fd = {}
            pend_pos = {}
            pend_posx = {}
        elif head == "fd":
            p = rest.split()
            tab = {}
            for e in p[4].split(","):
                u, b = e.split(":")
                tab.setdefault(_uid(u), []).append(int(b))
            # keyed by the call index j as well: the tables of all the calls of a multi-scene batch come before the call lines
            pend_fd.setdefault(int(p[1]), {})[(int(p[2]), int(p[3]))] = tab
        elif head == "pos":
            p = rest.split()
            pend_pos.setdefault(int(p[1]), {}).setdefault((int(p[2]), int(p[3])), []).append((int(p[4]), int(p[5])))
            if len(p) >= 8:      # bare IoU of the two boxes and the candidate box confidence (f32 bits, '-' = none)
                pend_posx.setdefault(int(p[1]), {})[(int(p[2]), int(p[3]))] = (None if p[6] == "-" else int(p[6]), None if p[7] == "-" else int(p[7]))
        elif head == "call":
            d = _kv(rest.split())
            recs_s = d.get("recs", "")
            status = "ok"
            recs = []
            panic_loc = None
            if recs_s.split("@")[0] in ("PANIC", "OWNPANIC", "BADCASE"):
                status = recs_s.split("@")[0]
                panic_loc = recs_s.split("@", 1)[1] if "@" in recs_s else None
            else:
                recs = [parse_rec(x) for x in recs_s.split(";") if x]
            call = {"j": int(d["j"]), "scene": int(d["scene"]), "epoch": int(d["epoch"]), "after": int(d["after"]) if "after" in d else None,
                    "dets": [parse_det(x) for x in d.get("dets", "").split(";") if x], "recs": recs, "status": status,
                    "trk": {}, "fd": dict(pend_fd.pop(int(d["j"]), {})), "pos": dict(pend_pos.pop(int(d["j"]), {})), "posx": dict(pend_posx.pop(int(d["j"]), {})), "panic_loc": panic_loc, "share": {}}
            cur["calls"].append(call)
        elif head == "share":
            p = rest.split()      # k j uid id stored-bits|- feature-stored record-length
            for call in reversed(cur["calls"]):
                if call["j"] == int(p[1]):
                    call["share"][int(p[2])] = {"id": int(p[3]), "bits": None if p[4] == "-" else int(p[4]), "feat": p[5] == "1", "len": int(p[6])}
                    break
        elif head == "trk":
            p = rest.split()
            t = parse_trk(p[2:])
            if p[1] == "END":
                cur["end"][t["id"]] = t
            else:
                cur["calls"][-1]["trk"][t["id"]] = t
        elif head == "wasted":
            p = rest.split()
            if len(p) > 1 and p[1] == "PANIC":
                cur["wasted_panic"] = True
            else:
                t = parse_trk(p[1:])
                cur["wasted"][t["id"]] = t
        elif head == "end":
            cur["complete"] = True
    return cases


def run_spec_lines(lines, tables=True, lax=False):
    """re-run specifications on the real code; returns parsed cases"""
    path = os.path.join(vlib.ALT or vlib.CACHE, "visual_replay_%d.txt" % os.getpid())
    with open(path, "w") as fh:
        for l in lines:
            fh.write(l + "\n")
    args = ["replay", "--file", path]
    if not tables:
        args.append("--notables")
    if lax:
        args.append("--lax")
    rc, out, err = vlib.harness_run("visual", args, timeout=600)
    try:
        os.remove(path)
    except OSError:
        pass
    return parse_output(out)


def spec_with_calls(spec_line, calls_txt):
    toks = [t for t in spec_line.split() if not t.startswith("calls=")]
    return " ".join(toks) + " calls=" + calls_txt


def shrink_spec(spec_line, fails, budget=60):
    """greedy: cut calls after the failure, drop leading calls, drop single calls / detections, while `fails(line)` holds."""
    d = _kv(spec_line.split())
    calls = [c for c in d.get("calls", "").split(";") if c]
    cur = calls
    tries = [0]

    def ok(cs):
        if tries[0] >= budget:
            return False
        tries[0] += 1
        return fails(spec_with_calls(spec_line, ";".join(cs)))
    # binary chop from the end
    lo, hi = 1, len(cur)
    while lo < hi:
        mid = (lo + hi) // 2
        if ok(cur[:mid]):
            hi = mid
        else:
            lo = mid + 1
    if hi < len(cur) and (hi == lo):
        if ok(cur[:hi]):
            cur = cur[:hi]
    changed = True
    while changed and tries[0] < budget:
        changed = False
        # drop chunks
        n = len(cur)
        for size in (max(1, n // 2), max(1, n // 4), 1):
            i = 0
            while i < len(cur) - 1 and tries[0] < budget:
                cand = cur[:i] + cur[i + size:]
                if cand and ok(cand):
                    cur = cand
                    changed = True
                else:
                    i += size
    return spec_with_calls(spec_line, ";".join(cur))


# ------------------------------------------------------------------------------------------------------------
# lives of tracks as the implementation's records attribute them

def lives_of(case):
    """track id -> list of (call index, is_merge, det); also list of problems (record inconsistencies)."""
    lives = {}
    problems = []
    for ci, call in enumerate(case["calls"]):
        if call["status"] != "ok":
            break
        if len(call["recs"]) != len(call["dets"]):
            problems.append(("records", ci, "number of records differs from number of detections"))
            break
        for d, r in zip(call["dets"], call["recs"]):
            if r["id"] not in lives:
                lives[r["id"]] = [(ci, False, d)]
            else:
                lives[r["id"]].append((ci, True, d))
    return lives, problems


def can_collect(spec, d):
    return d["area"] >= spec["minarea"] and d["q"] >= spec["qcol"] and (d["own"] is None or d["own"] >= spec["owncol"])


def last_k(lst, hist, n):
    k = min(n, hist) if hist > 0 else n
    return lst[len(lst) - k:] if k > 0 else []


def oracle_case(case):
    """Direct reading of the property text on the implementation's outputs. Returns list of (key, call index, what)."""
    spec = case["spec"]
    fails = []
    lives, problems = lives_of(case)
    fails.extend(problems)
    visual = spec["trk"] not in ("sort", "bsort")
    arrivals = defaultdict(list)
    prev_gal = {}
    for ci, call in enumerate(case["calls"]):
        if call["status"] == "PANIC":
            fails.append(("panic", ci, "the tracker panicked"))
            break
        if call["status"] != "ok":
            break
        for d, r in zip(call["dets"], call["recs"]):
            tid = r["id"]
            first = len(arrivals[tid]) == 0
            arrivals[tid].append(d)
            arr = arrivals[tid]
            t = call["trk"].get(tid)
            if t is None:
                fails.append(("record", ci, "record id %d names no stored track" % tid))
                continue
            # record echoes the last entries
            if r["obs"] != d["uid"] or r["pred"] != d["uid"]:
                fails.append(("record-echo", ci, "record of detection %d echoes boxes of %s/%s" % (d["uid"], r["obs"], r["pred"])))
            if r["len"] != len(arr) or t["len"] != len(arr):
                fails.append(("record-length", ci, "track %d absorbed %d detections, record length %d, stored length %d" % (tid, len(arr), r["len"], t["len"])))
            # histories
            want = last_k([x["uid"] for x in arr], spec["hist"], len(arr))
            if t["obs"] != want or t["pred"] != want:
                fails.append(("history", ci, "track %d box histories %s / %s, expected the last %d arrivals %s" % (tid, t["obs"], t["pred"], len(want), want)))
            if visual:
                wantf = last_k([(x["uid"], x["feat"]) for x in arr], spec["hist"], len(arr))
                if t["feat"] != wantf:
                    fails.append(("history", ci, "track %d feature history %s, expected %s" % (tid, t["feat"], wantf)))
                gal = t["gal"]
                nfeat = sum(1 for e in gal if e["feat"])
                if len(gal) > spec["maxobs"] or nfeat > spec["maxobs"]:
                    fails.append(("bounded", ci, "track %d stores %d observations (%d features) > visual_max_observations %d" % (tid, len(gal), nfeat, spec["maxobs"])))
                if t["coll"] != nfeat:
                    fails.append(("count", ci, "track %d reports %d collected features, %d stored" % (tid, t["coll"], nfeat)))
                if not gal or gal[0]["uid"] != d["uid"] or gal[0]["q"] != d["q"]:
                    fails.append(("newest-at-zero", ci, "track %d: newest observation %d is not at index 0" % (tid, d["uid"])))
                else:
                    want_feat = d["feat"] and (first or can_collect(spec, d))
                    if gal[0]["feat"] != want_feat:
                        fails.append(("collect-gate", ci, "track %d: feature of detection %d stored=%s, collect thresholds say %s (first=%s)" % (tid, d["uid"], gal[0]["feat"], want_feat, first)))
                if any(e["uid"] is None for e in gal):
                    fails.append(("gallery-foreign", ci, "track %d stores an observation that is no detection's" % tid))
                # eviction
                if not first and tid in prev_gal and gal:
                    pf = Counter((e["q"], e["uid"]) for e in prev_gal[tid] if e["feat"])
                    rest = Counter((e["q"], e["uid"]) for e in gal[1:])
                    if any(not e["feat"] for e in gal[1:]):
                        fails.append(("eviction", ci, "track %d keeps a featureless old observation" % tid))
                    if rest - pf:
                        fails.append(("eviction", ci, "track %d: kept observations %s were not stored before" % (tid, list((rest - pf).elements()))))
                    ev = list((pf - rest).elements())
                    npf = sum(pf.values())
                    if npf < spec["maxobs"]:
                        if ev:
                            fails.append(("eviction", ci, "track %d evicted %s although only %d < %d features were stored" % (tid, ev, npf, spec["maxobs"])))
                    else:
                        if len(ev) != 1:
                            fails.append(("eviction", ci, "track %d evicted %d features in one update" % (tid, len(ev))))
                        elif ev[0][0] != min(q for q, _ in pf.elements()):
                            fails.append(("eviction", ci, "track %d evicted quality %s while the minimum stored was %s" % (tid, float(ev[0][0]), float(min(q for q, _ in pf.elements())))))
                prev_gal[tid] = gal
    # wasted conversions
    if case["complete"]:
        if case["wasted_panic"]:
            fails.append(("panic", len(case["calls"]), "wasted() panicked"))
        for tid, w in case["wasted"].items():
            arr = arrivals.get(tid)
            if not arr:
                continue
            want = last_k([x["uid"] for x in arr], spec["hist"], len(arr))
            if w["obs"] != want or w["pred"] != want or w["len"] != len(arr):
                fails.append(("wasted-history", len(case["calls"]), "wasted track %d histories %s/%s len %d, expected %s len %d" % (tid, w["obs"], w["pred"], w["len"], want, len(arr))))
            if visual and w["feat"] != last_k([(x["uid"], x["feat"]) for x in arr], spec["hist"], len(arr)):
                fails.append(("wasted-history", len(case["calls"]), "wasted track %d feature history differs" % tid))
            if w["robs"] != [arr[-1]["uid"]] or w["rpred"] != [arr[-1]["uid"]]:
                fails.append(("wasted-echo", len(case["calls"]), "wasted track %d echoes %s/%s, last detection %d" % (tid, w["robs"], w["rpred"], arr[-1]["uid"])))
    return fails


# ------------------------------------------------------------------------------------------------------------
# model side

def coq_det(d):
    return "(mkDet %s %s %s %s %s)" % (n_lit(d["uid"]), q_lit(d["q"]), coq_bool(d["feat"]), q_lit(d["area"]),
                                        "None" if d["own"] is None else "(Some %s)" % q_lit(d["own"]))


def coq_gopts(spec):
    return "(mkGopts %d%%nat %d%%nat %s %s %s)" % (spec["maxobs"], spec["hist"], q_lit(spec["minarea"]), q_lit(spec["qcol"]), q_lit(spec["owncol"]))


def model_exprs(case):
    """one expression per track life; returns list of (track id, life, expr)"""
    spec = case["spec"]
    lives, _ = lives_of(case)
    res = []
    for tid, life in sorted(lives.items()):
        if spec["trk"] in ("sort", "bsort"):
            e = "sort_trace %d%%nat %s" % (spec["hist"], coq_list([n_lit(d["uid"]) for _, _, d in life]))
        else:
            e = "run_trace %s %s" % (coq_gopts(spec), coq_list(["(%s, %s)" % (coq_bool(m), coq_det(d)) for _, m, d in life]))
        res.append((tid, life, e))
    return res


def compare_life(case, tid, life, val):
    """model trace (parsed) vs the implementation's dumps. Returns list of differences."""
    spec = case["spec"]
    diffs = []
    if len(val) != len(life):
        return ["model trace length"]
    for (ci, m, d), st in zip(life, val):
        t = case["calls"][ci]["trk"].get(tid)
        if t is None:
            diffs.append((ci, "no dump"))
            continue
        if spec["trk"] in ("sort", "bsort"):
            obs, pred, ln = st
            if t["obs"] != obs or t["pred"] != pred or t["len"] != ln:
                diffs.append((ci, "sort histories: impl %s/%s/%d model %s/%s/%d" % (t["obs"], t["pred"], t["len"], obs, pred, ln)))
            continue
        gal, coll, ln, obs, pred, fh = st
        mg = [(Fraction(qn, qd), f, u) for (qn, qd, f, u) in gal]   # ((n, d), f, u) prints flattened
        ig = [(e["q"], e["feat"], e["uid"]) for e in t["gal"]]
        if mg != ig:
            diffs.append((ci, "gallery: impl %s model %s" % ([(float(a), b, c) for a, b, c in ig], [(float(a), b, c) for a, b, c in mg])))
        if coll != t["coll"] or ln != t["len"]:
            diffs.append((ci, "counts: impl coll=%d len=%d model coll=%d len=%d" % (t["coll"], t["len"], coll, ln)))
        if obs != t["obs"] or pred != t["pred"] or [tuple(x) for x in fh] != t["feat"]:
            diffs.append((ci, "histories: impl %s %s %s model %s %s %s" % (t["obs"], t["pred"], t["feat"], obs, pred, fh)))
    # wasted conversion = the final state
    w = case["wasted"].get(tid)
    if w is not None and val:
        st = val[-1]
        if spec["trk"] in ("sort", "bsort"):
            if w["obs"] != st[0] or w["pred"] != st[1] or w["len"] != st[2]:
                diffs.append(("wasted", "sort"))
        else:
            if w["obs"] != st[3] or w["pred"] != st[4] or w["feat"] != [tuple(x) for x in st[5]] or w["len"] != st[2]:
                diffs.append(("wasted", "visual"))
    return diffs


def nontrivial_key(case):
    """a case counts as non-trivial when some track evicted a feature AND some feature was refused by the collect gate or
    absent, or (SORT) a history overflowed; keyed by the specification text."""
    spec = case["spec"]
    lives, _ = lives_of(case)
    ev = gate = over = False
    for tid, life in lives.items():
        if len(life) > spec["hist"]:
            over = True
        if spec["trk"] not in ("sort", "bsort"):
            nf = 0
            for ci, m, d in life:
                stored = d["feat"] and (not m or can_collect(spec, d))
                if not stored:
                    gate = True
                nf += 1 if stored else 0
            if nf > spec["maxobs"]:
                ev = True
    if spec["trk"] in ("sort", "bsort"):
        return over
    return over and ev and gate


def run(chk):
    props = os.path.join(vlib.COQ, "theories", "Props", "C13.v")
    vlib.proof_stage(chk, props)
    if chk.tier == "thorough":
        vlib.coqchk_stage(chk, "Similari.Props.C13")
    ok, out = vlib.harness_build(["visual"])
    if not ok:
        chk.broken.append("harness build failed:\n" + out[-2000:])
        chk.violation("harness-build", "the correspondence harness does not build against /repo", {"log": out[-4000:]}, found_input=False)
        chk.coverage.update({"evaluations": 0})
        return
    n = 120 if chk.tier == "quick" else 1000
    t0 = time.time()
    rc, out, err = vlib.harness_run("visual", ["c13", "--seed", chk.seed, "--n", n, "--tier", chk.tier], timeout=1500)
    cases = parse_output(out)
    chk.log("implementation ran %d histories (%.1fs)" % (len(cases), time.time() - t0))

    hist = Counter()
    oracle_fails = []     # (case index, fails)
    updates = 0
    nontrivial = set()
    maxlife = 0
    for i, c in enumerate(cases):
        s = c["spec"]
        hist["tracker=%s" % s["trk"]] += 1
        hist["max_obs=%d" % s["maxobs"]] += 1
        hist["history=%d" % s["hist"]] += 1
        if not c["complete"]:
            hist["incomplete"] += 1
        for call in c["calls"]:
            if call["status"] != "ok":
                hist["call_" + call["status"]] += 1
            updates += len(call["recs"])
        lives, _ = lives_of(c)
        for l in lives.values():
            maxlife = max(maxlife, len(l))
        f = oracle_case(c)
        if f:
            oracle_fails.append((i, f))
        if nontrivial_key(c):
            nontrivial.add(s["line"])

    # model side
    model_diffs = []
    n_lives = 0
    if os.path.exists(os.path.join(vlib.COQ, "theories", "Model", "VisualAttrs.vo")):
        exprs = []
        for i, c in enumerate(cases):
            for tid, life, e in model_exprs(c):
                exprs.append((i, tid, life, e))
        n_lives = len(exprs)
        try:
            t1 = time.time()
            vals = vlib.coq_eval(PREAMBLE, [e for _, _, _, e in exprs], shard_size=max(8, len(exprs) // 16 + 1), tag="c13", timeout=1500)
            chk.log("model evaluated %d track lives (%.1fs)" % (len(exprs), time.time() - t1))
            for (i, tid, life, _), v in zip(exprs, vals):
                d = compare_life(cases[i], tid, life, vlib.parse_coq_value(v))
                if d:
                    model_diffs.append((i, tid, d))
        except RuntimeError as e:
            chk.broken.append("model evaluation failed: %s" % str(e)[-1500:])
    else:
        chk.broken.append("model not built")

    chk.coverage.update({
        "evaluations": len(cases),
        "track_updates_compared": updates,
        "track_lives": n_lives,
        "longest_life": maxlife,
        "distinct_nontrivial": len(nontrivial),
        "rule": "random histories through the real VisualSort (single object up to 300 updates, 2-3 objects, empty-call gaps) and Sort; "
                "history 1-10, visual_max_observations 1-8, minimal length <= it, quality patterns increasing/decreasing/equal/grid/"
                "straddling the collect threshold by one ulp/alternating/not supplied, features present with probability 0-100%, small boxes below "
                "visual_minimal_area, own-area shares on overlapping objects. non-trivial = some history overflowed AND (VisualSort) some gallery evicted "
                "a feature AND some feature was refused/absent; distinct by specification text",
        "samples": [c["spec"]["line"][:300] for c in cases[:3]],
        "input_distribution": dict(hist),
        "model_vs_impl_disagreements": len(model_diffs),
        "spec_oracle_failures": len(oracle_fails),
    })

    if oracle_fails:
        i, f = oracle_fails[0]
        key0, ci0, what0 = f[0]
        c = cases[i]

        def fails(line):
            cs = run_spec_lines([line], tables=False)
            return bool(cs) and any(k == key0 for k, _, _ in oracle_case(cs[0]))
        # cut the history right after the failing call first
        calls = [x for x in c["spec"]["calls_txt"].split(";") if x]
        line = spec_with_calls(c["spec"]["line"], ";".join(calls[:ci0 + 1]))
        if not fails(line):
            line = c["spec"]["line"]
        small = shrink_spec(line, fails, budget=40)
        cs = run_spec_lines([small], tables=False)
        f2 = oracle_case(cs[0]) if cs else []
        chk.violation("C13:" + key0, what0,
                      {"input": small, "oracle_failures": [list(x) for x in (f2 or f)[:6]],
                       "other_failing_cases": len(oracle_fails) - 1,
                       "replay_cmd": "./check C13 --replay <this file>   (runs: visual replay --file <spec>)",
                       "broken": chk.broken, "model_disagreements": len(model_diffs)})
    elif model_diffs or chk.broken:
        what = "proof or correspondence no longer checks: " + "; ".join(b.split("\n")[0][:200] for b in chk.broken)
        rep = {"broken": chk.broken}
        if model_diffs:
            i, tid, d = model_diffs[0]
            rep["correspondence_case"] = cases[i]["spec"]["line"]
            rep["input"] = cases[i]["spec"]["line"]
            rep["track"] = tid
            rep["differences"] = [str(x)[:600] for x in d[:4]]
            what += " model/implementation differ on %d track lives" % len(model_diffs)
        chk.violation("C13:tie-broken", what, rep, found_input=False)


def replay(chk, path):
    rep = json.load(open(path))
    ok, out = vlib.harness_build(["visual"])
    line = rep.get("input") or rep.get("correspondence_case")
    cs = run_spec_lines([line], tables=False)
    f = oracle_case(cs[0]) if cs else [("no-output", 0, "harness printed nothing")]
    for x in f[:10]:
        print("oracle failure:", x)
    print("REPRODUCED" if f else "not reproduced")
    return 1 if f else 0
