"""C20 - spatio-temporal constraints: proof (Props/C20.v) + exact correspondence with the real
SpatioTemporalConstraints (harness bin `constraints`)."""
import json
import os
from collections import Counter

import vlib
from vlib import q_lit, n_lit, coq_list, f32_bits_to_fraction

PREAMBLE = """From Coq Require Import List NArith QArith.
From Similari Require Import Model.Constraints.
Import ListNotations.
Open Scope Q_scope.
"""


def parse_line(line):
    parts = dict(tok.split("=", 1) for tok in line.split()[2:])
    adds = []
    for call in parts["adds"].split("|"):
        adds.append([(int(g), int(b)) for g, b in (e.split(":") for e in call.split(",") if e)])
    probes = [(int(g), int(b)) for g, b in (e.split(":") for e in parts["probes"].split(";") if e)]
    return {"adds": adds, "probes": probes, "res": parts["res"], "addres": parts["addres"], "resb": parts.get("resb"), "raw": line}


def coq_case(c):
    adds = coq_list([coq_list(["(%s, %s)" % (n_lit(g), q_lit(f32_bits_to_fraction(b))) for g, b in call]) for call in c["adds"]])
    probes = coq_list(["(%s, %s)" % (n_lit(g), q_lit(f32_bits_to_fraction(b))) for g, b in c["probes"]])
    return "run_case %s %s" % (adds, probes)


def model_string(val):
    """model result -> same encoding as the harness: (addres-dead?, res string)"""
    if val is None:
        return None
    assert val[0] == "Some"
    s = ""
    for r in val[1]:
        if r is None:
            s += "P"
        else:
            s += "T" if r[1] else "F"
    return s


def spec_oracle(c):
    """Independent reading of the property text, applied to the implementation's answers:
    limit = first configured limit for the least configured gap >= delta; admitted iff dist <= limit."""
    allc = [e for call in c["adds"] for e in call]
    if any(f32_bits_to_fraction(b) <= 0 for _, b in allc):
        return None
    out = ""
    for (d, xb) in c["probes"]:
        x = f32_bits_to_fraction(xb)
        if x < 0:
            out += "P"
            continue
        gaps = [g for g, _ in allc if g >= d]
        if not gaps:
            out += "T"
            continue
        g = min(gaps)
        lim = next(f32_bits_to_fraction(b) for gg, b in allc if gg == g)
        out += "T" if x <= lim else "F"
    return out


def shrink(c, still_fails):
    """greedy delta-debugging: drop calls, entries, probes while the failure persists."""
    cur = c
    changed = True
    while changed:
        changed = False
        for i in range(len(cur["adds"])):
            for j in range(len(cur["adds"][i])):
                cand = dict(cur)
                cand["adds"] = [list(a) for a in cur["adds"]]
                del cand["adds"][i][j]
                if still_fails(cand):
                    cur = cand
                    changed = True
                    break
            if changed:
                break
        if changed:
            continue
        for i in range(len(cur["probes"])):
            cand = dict(cur)
            cand["probes"] = cur["probes"][:i] + cur["probes"][i + 1:]
            if cand["probes"] and still_fails(cand):
                cur = cand
                changed = True
                break
    return cur


def replay_text(c):
    adds = "|".join(",".join("%d:%d" % e for e in call) for call in c["adds"])
    probes = ";".join("%d:%d" % p for p in c["probes"])
    return "adds=%s probes=%s" % (adds, probes)


def run_impl_on(c):
    path = os.path.join(vlib.CACHE, "c20_replay_%d.txt" % os.getpid())
    with open(path, "w") as fh:
        fh.write(replay_text(c) + "\n")
    rc, out, err = vlib.harness_run("constraints", ["replay", "--file", path])
    os.remove(path)
    lines = [l for l in out.split("\n") if l.startswith("case ")]
    return parse_line(lines[0]) if lines else None


def run(chk):
    props = os.path.join(vlib.COQ, "theories", "Props", "C20.v")
    proofs_ok, _ = vlib.proof_stage(chk, props)
    if chk.tier == "thorough":
        vlib.coqchk_stage(chk, "Similari.Props.C20")

    ok, out = vlib.harness_build(["constraints"])
    if not ok:
        chk.broken.append("harness build failed:\n" + out[-2000:])
        chk.violation("harness-build", "the correspondence harness does not build against /repo", {"log": out[-4000:]}, found_input=False)
        chk.coverage.update({"evaluations": 0})
        return
    n = 300 if chk.tier == "quick" else 3000
    rc, out, err = vlib.harness_run("constraints", ["gen", "--seed", chk.seed, "--n", n])
    cases = [parse_line(l) for l in out.split("\n") if l.startswith("case ")]
    exhaustive = False
    if chk.tier == "thorough":
        rc2, out2, _ = vlib.harness_run("constraints", ["exhaustive"])
        ex = [parse_line(l) for l in out2.split("\n") if l.startswith("case ")]
        cases += ex
        exhaustive = True
    chk.log("implementation ran %d cases" % len(cases))

    # model side (only if the model built)
    model_res = None
    model_vo = os.path.join(vlib.COQ, "theories", "Model", "Constraints.vo")
    if os.path.exists(model_vo):
        try:
            vals = vlib.coq_eval(PREAMBLE, [coq_case(c) for c in cases], shard_size=120, tag="c20")
            model_res = [model_string(vlib.parse_coq_value(v)) for v in vals]
        except RuntimeError as e:
            chk.broken.append("model evaluation failed: %s" % str(e)[-1500:])
    disagreements = []
    oracle_fail = []
    builder_fail = []
    hist = Counter()
    nontrivial = set()
    probes_total = 0
    for i, c in enumerate(cases):
        impl = None if "P" in c["addres"] else c["res"]
        probes_total += len(c["probes"])
        hist["calls=%d" % len(c["adds"])] += 1
        hist["add_panic" if impl is None else "ok"] += 1
        allc = [e for call in c["adds"] for e in call]
        gaps = [g for g, _ in allc]
        if len(set(gaps)) < len(gaps):
            hist["repeated_gap"] += 1
        if impl is not None and "F" in impl and "T" in impl:
            nontrivial.add(replay_text(c))
        if model_res is not None and model_res[i] != impl:
            disagreements.append(i)
        sp = spec_oracle(c)
        if sp != impl:
            oracle_fail.append(i)
        # the by-value builder route must configure the same table as the add_constraints route
        implb = None if c.get("resb") == "X" else c.get("resb")
        if c.get("resb") is not None and sp != implb and i not in oracle_fail:
            builder_fail.append(i)
    chk.coverage.update({
        "evaluations": len(cases),
        "probes_compared": probes_total,
        "distinct_nontrivial": len(nontrivial),
        "rule": "random configuration histories (1-3 add_constraints calls, 0-5 entries each, gaps 0..8 incl. repeats, "
                "limits on a dyadic grid, 10% malformed with non-positive limits) x every gap 0..10 x every configured limit, "
                "its f32 neighbours and +-25%; thorough adds the exhaustive family (two calls of <=2 entries over gaps 0..3 x 3 limits). "
                "non-trivial = the table both admits and rejects some probe; distinct by (history, probes)",
        "samples": [c["raw"][:400] for c in cases[:3]],
        "input_distribution": dict(hist),
        "model_vs_impl_disagreements": len(disagreements),
        "spec_oracle_failures": len(oracle_fail),
        "exhaustive": exhaustive,
    })

    # ---- dist_in_2r: the distance the trackers hand to validate (oracle on the real function) ------------
    import math
    nd = 2000 if chk.tier == "quick" else 40000
    rc, outd, _ = vlib.harness_run("constraints", ["dist", "--seed", chk.seed, "--n", nd])
    dist_fail = None
    dist_n = 0
    unequal = 0
    for line in outd.split("\n"):
        if not line.startswith("dist "):
            continue
        f = dict(tok.split("=", 1) for tok in line.split()[2:])
        lx, ly, la, lh = [vlib.f32_bits_to_float(int(x)) for x in f["l"].split(",")]
        rx, ry, ra, rh = [vlib.f32_bits_to_float(int(x)) for x in f["r"].split(",")]
        dist_n += 1
        if f["lr"] == "P" or f["rl"] == "P":
            dist_fail = dist_fail or (line, "dist_in_2r panicked on boxes with positive size")
            continue
        rl_ = math.sqrt((la * lh / 2) ** 2 + (lh / 2) ** 2)
        rr_ = math.sqrt((ra * rh / 2) ** 2 + (rh / 2) ** 2)
        if abs(rl_ - rr_) > 0.05 * max(rl_, rr_):
            unequal += 1
        ref = math.sqrt(((lx - rx) ** 2 + (ly - ry) ** 2) / ((rl_ + rr_) ** 2 + 1e-5))
        for got_bits in (f["lr"], f["rl"]):
            got = vlib.f32_bits_to_float(int(got_bits))
            if abs(got - ref) > 1e-4 * max(1.0, ref):
                dist_fail = dist_fail or (line, "dist_in_2r=%r but centre distance / sum of radii = %r" % (got, ref))
    chk.coverage["dist_in_2r_pairs"] = dist_n
    chk.coverage["dist_in_2r_pairs_with_unequal_radii"] = unequal
    if dist_fail:
        chk.violation("C20:dist_in_2r-not-centre-distance-over-radius-sum",
                      "Universal2DBox::dist_in_2r is not the centre distance in units of the sum of the two bounding radii (or not symmetric)",
                      {"input": dist_fail[0], "detail": dist_fail[1],
                       "replay_cmd": "/verif/.cache/target/release/constraints dist --seed %d --n %d | grep '^%s '" % (chk.seed, nd, " ".join(dist_fail[0].split()[:2])),
                       "broken": chk.broken})

    # ---- tracker-level half (Props/C20T.v + oracles on the real Sort/BatchSort; tools/props/tracker_common.py) ----
    own_cov = dict(chk.coverage)
    try:
        from props import tracker_common
        tracker_common.c20t_run(chk, pid="C20T")
        t_cov = dict(chk.coverage)
        merged = dict(t_cov)
        merged.update(own_cov)
        for k in ("obligations", "discharged"):
            merged[k] = own_cov.get(k, 0) + t_cov.get(k, 0)
        merged["theorems"] = (own_cov.get("theorems") or []) + (t_cov.get("theorems") or [])
        merged["cone_files"] = sorted(set((own_cov.get("cone_files") or []) + (t_cov.get("cone_files") or [])))
        merged["checker_cmd"] = own_cov.get("checker_cmd", "") + " ; and the same for theories/Props/C20T.vo"
        merged["tracker_level"] = {k: v for k, v in t_cov.items() if k not in own_cov and k not in ("theorems", "cone_files", "trusted_base")}
        chk.coverage.clear()
        chk.coverage.update(merged)
    except Exception as e:   # the tracker half must never hide the table half
        import traceback
        chk.broken.append("C20T stage failed: %s" % traceback.format_exc()[-1500:])
        chk.coverage.update(own_cov)

    chk.coverage["builder_route_failures"] = len(builder_fail)
    if builder_fail:
        c = cases[builder_fail[0]]

        def failsb(cc):
            r = run_impl_on(cc)
            if r is None:
                return False
            rb = None if r.get("resb") == "X" else r.get("resb")
            return spec_oracle(cc) != rb
        small = shrink(c, failsb)
        r = run_impl_on(small)
        chk.violation("C20:builder-route-differs-from-spec",
                      "a table configured through the by-value builder SpatioTemporalConstraints::constraints(..) chain does not apply "
                      "'first limit configured for the least configured gap >= delta' over ALL configured entries",
                      {"input": replay_text(small),
                       "decoded": {"adds": [[(g, float(f32_bits_to_fraction(b))) for g, b in call] for call in small["adds"]],
                                   "probes": [(g, float(f32_bits_to_fraction(b))) for g, b in small["probes"]]},
                       "builder_route": r.get("resb") if r else None, "add_constraints_route": r.get("res") if r else None,
                       "expected": spec_oracle(small),
                       "replay_cmd": "printf '%s\\n' '" + replay_text(small) + "' > /tmp/c20.txt && /verif/.cache/target/release/constraints replay --file /tmp/c20.txt",
                       "broken": chk.broken})

    # ---- verdict -----------------------------------------------------------------------------
    if oracle_fail:
        # a concrete failing input against the property text, on the real code
        c = cases[oracle_fail[0]]

        def fails(cc):
            r = run_impl_on(cc)
            if r is None:
                return False
            impl = None if "P" in r["addres"] else r["res"]
            return spec_oracle(cc) != impl
        small = shrink(c, fails)
        r = run_impl_on(small)
        chk.violation("C20:validate-differs-from-spec",
                      "validate() disagrees with 'first limit configured for the least configured gap >= delta; admitted iff dist <= limit'",
                      {"input": replay_text(small),
                       "decoded": {"adds": [[(g, float(f32_bits_to_fraction(b))) for g, b in call] for call in small["adds"]],
                                   "probes": [(g, float(f32_bits_to_fraction(b))) for g, b in small["probes"]]},
                       "implementation": r["res"] if r else None, "addres": r["addres"] if r else None,
                       "expected": spec_oracle(small),
                       "replay_cmd": "printf '%s\\n' '" + replay_text(small) + "' > /tmp/c20.txt && /verif/.cache/target/release/constraints replay --file /tmp/c20.txt",
                       "broken": chk.broken})
    elif disagreements or chk.broken:
        what = "proof or correspondence no longer checks: " + "; ".join(b.split("\n")[0][:200] for b in chk.broken)
        rep = {"broken": chk.broken}
        if disagreements:
            c = cases[disagreements[0]]
            rep["correspondence_case"] = replay_text(c)
            rep["implementation"] = c["res"]
            rep["model"] = model_res[disagreements[0]]
            what += " model/implementation differ on %d cases" % len(disagreements)
        chk.violation("C20:tie-broken", what, rep, found_input=False)


def replay(chk, path):
    rep = json.load(open(path))
    ok, out = vlib.harness_build(["constraints"])
    tmp = os.path.join(vlib.CACHE, "c20_replay.txt")
    open(tmp, "w").write(rep.get("input", rep.get("correspondence_case", "")) + "\n")
    rc, out, err = vlib.harness_run("constraints", ["replay", "--file", tmp])
    print(out)
    c = parse_line([l for l in out.split("\n") if l.startswith("case ")][0])
    impl = None if "P" in c["addres"] else c["res"]
    exp = spec_oracle(c)
    print("expected:", exp)
    print("REPRODUCED" if exp != impl else "not reproduced")
    return 1 if exp != impl else 0
