"""C15 (exclusively-owned area share) as the VISUAL trackers store it: VisualSort and BatchVisualSort with own-area
thresholds > 0, batches of 1-5 scenes x 1-6 axis-aligned boxes with partial overlaps, driven through the `visual` harness
(sub-commands c15 / replay15).  Checked on the implementation:
  panic              predict (and the direct evaluation of the shares) completes for every batch shape; a panic located in
                     geo's algorithms is filed under the known key C15:geo-difference:collinear-edges
  stored-share       the share stored with each new observation (newest observation of the record's track,
                     VisualObservationAttributes::own_area_percentage_opt) equals, within 1e-5, the value of
                     exclusively_owned_areas_normalized_shares evaluated directly on THAT scene's boxes at THAT index
  share-exact        ... and the exact fraction of the box not covered by the other boxes of its scene (grid computation)
  collect-gate-share the feature of a continuing detection is stored iff it was supplied and the right share (and quality)
                     meets the COLLECT thresholds (decided only when the share is clearly off the threshold)

    c15_visual_stage(chk)          called from tools/props/c15.py
    c15_visual_replay(chk, path)   returns None when the replay file is not one of this stage, else 0 / 1
"""
import json
import os
import re
import time
from collections import Counter
from fractions import Fraction

import vlib
from vlib import f32_bits_to_fraction
from props import c13 as base

TOL = Fraction(1, 100000)
GEO_KEY = "C15:geo-difference:collinear-edges"


def _groups(line):
    d = base._kv(line.split())
    calls = [c for c in d.get("calls", "").split(";") if c]
    g = d.get("grp", "-")
    sizes = [1] * len(calls) if g == "-" else [int(x) for x in g.split(",")]
    out, j = [], 0
    for n in sizes:
        out.append(calls[j:j + n])
        j += n
    return [x for x in out if x]


def _with_groups(line, groups):
    groups = [g for g in groups if g]
    toks = [t for t in line.split() if not t.startswith("calls=") and not t.startswith("grp=")]
    return " ".join(toks) + " grp=" + ",".join(str(len(g)) for g in groups) + " calls=" + ";".join(c for g in groups for c in g)


def spec_boxes(line):
    """call index -> list of (uid, left, top, width, height) as exact rationals"""
    d = base._kv(line.split())
    out = []
    for c in [c for c in d.get("calls", "").split(";") if c]:
        sc, ds = c.split("@")
        row = []
        for e in [x for x in ds.split("|") if x]:
            p = e.split(",")
            row.append((int(p[0]),) + tuple(f32_bits_to_fraction(int(x)) for x in p[2:6]))
        out.append(row)
    return out


def exact_shares(boxes):
    """fraction of every axis-aligned box (uid, l, t, w, h) not covered by any other box of the list"""
    xs = sorted({v for _, l, t, w, h in boxes for v in (l, l + w)})
    ys = sorted({v for _, l, t, w, h in boxes for v in (t, t + h)})
    res = []
    for i, (_, l, t, w, h) in enumerate(boxes):
        own = Fraction(0)
        for a in range(len(xs) - 1):
            if xs[a] < l or xs[a + 1] > l + w:
                continue
            for b in range(len(ys) - 1):
                if ys[b] < t or ys[b + 1] > t + h:
                    continue
                cx0, cx1, cy0, cy1 = xs[a], xs[a + 1], ys[b], ys[b + 1]
                covered = False
                for j, (_, l2, t2, w2, h2) in enumerate(boxes):
                    if j != i and l2 <= cx0 and cx1 <= l2 + w2 and t2 <= cy0 and cy1 <= t2 + h2:
                        covered = True
                        break
                if not covered:
                    own += (cx1 - cx0) * (cy1 - cy0)
        res.append(own / (w * h) if w * h > 0 else Fraction(0))
    return res


def run_lines(lines):
    path = os.path.join(vlib.ALT or vlib.CACHE, "visual_replay15_%d.txt" % os.getpid())
    with open(path, "w") as fh:
        for l in lines:
            fh.write(l + "\n")
    rc, out, err = vlib.harness_run("visual", ["replay15", "--file", path], timeout=600)
    try:
        os.remove(path)
    except OSError:
        pass
    return base.parse_output(out)


def oracle_case(case):
    """-> (list of (clause, call index, what), stats)"""
    spec = case["spec"]
    fails = []
    stats = Counter()
    boxes = spec_boxes(spec["line"])
    use_own = spec["ownuse"] + spec["owncol"] > 0
    for call in case["calls"]:
        ci = call["j"]
        if call["status"] in ("PANIC", "OWNPANIC"):
            loc = call.get("panic_loc") or "?"
            where = "predict" if call["status"] == "PANIC" else "exclusively_owned_areas evaluated directly"
            if re.search(r"geo-[^/]*/src/algorithm", loc):
                fails.append(("geo", ci, "%s panicked inside geo (%s)" % (where, loc)))
            else:
                fails.append(("panic", ci, "%s panicked at %s (scene %d, %d boxes)" % (where, loc, call["scene"], len(boxes[ci]) if ci < len(boxes) else -1)))
            break
        if call["status"] != "ok":
            break
        stats["calls"] += 1
        if not call["dets"]:
            continue
        if len(call["recs"]) != len(call["dets"]):
            fails.append(("panic", ci, "%d detections, %d records" % (len(call["dets"]), len(call["recs"]))))
            break
        ex = exact_shares(boxes[ci]) if ci < len(boxes) else None
        if len({round(float(x), 3) for x in (ex or [])}) > 1:
            stats["calls_with_differing_shares"] += 1
        for i, (d, r) in enumerate(zip(call["dets"], call["recs"])):
            sh = call["share"].get(d["uid"])
            stats["observations"] += 1
            if sh is None or sh["id"] != r["id"]:
                fails.append(("stored-share", ci, "no stored observation found for detection %d" % d["uid"]))
                continue
            if not use_own:
                continue
            if sh["bits"] is None:
                fails.append(("stored-share", ci, "detection %d (scene %d, index %d): no own-area share stored although a threshold is > 0" % (d["uid"], call["scene"], i)))
                continue
            stored = f32_bits_to_fraction(sh["bits"])
            want = d["own"]
            if want is not None and abs(stored - want) > TOL:
                fails.append(("stored-share", ci, "detection %d (scene %d, index %d of %d boxes): stored share %.6f, exclusively_owned_areas_normalized_shares gives %.6f for that box (shares of the scene: %s)" % (
                    d["uid"], call["scene"], i, len(call["dets"]), float(stored), float(want), [round(float(x["own"]), 4) for x in call["dets"]])))
            elif ex is not None and abs(stored - min(ex[i], 1)) > TOL * 5:
                fails.append(("share-exact", ci, "detection %d (scene %d, index %d): stored share %.6f, exact uncovered fraction %.6f" % (d["uid"], call["scene"], i, float(stored), float(ex[i]))))
            # collect gate with the right share (continuing detections only; minimal area is 0 in these runs)
            if want is not None and sh["len"] > 1 and abs(want - spec["owncol"]) > TOL * 10:
                should = d["feat"] and d["q"] >= spec["qcol"] and want >= spec["owncol"]
                if sh["feat"] != should:
                    fails.append(("collect-gate-share", ci, "detection %d continues track %d: feature stored=%s, with share %.4f vs collect threshold %.4f it should be %s" % (
                        d["uid"], r["id"], sh["feat"], float(want), float(spec["owncol"]), should)))
    return fails, stats


def shrink(line, fails, budget=60):
    groups = _groups(line)
    tries = [0]

    def ok(gs):
        if tries[0] >= budget or not any(gs):
            return False
        tries[0] += 1
        return fails(_with_groups(line, gs))
    changed = True
    while changed and tries[0] < budget:
        changed = False
        # whole batches
        for i in range(len(groups) - 1, -1, -1):
            cand = groups[:i] + groups[i + 1:]
            if ok(cand):
                groups = cand
                changed = True
                break
        if changed:
            continue
        # scenes of a batch
        for i in range(len(groups)):
            for j in range(len(groups[i])):
                cand = groups[:i] + [groups[i][:j] + groups[i][j + 1:]] + groups[i + 1:]
                if ok(cand):
                    groups = cand
                    changed = True
                    break
            if changed:
                break
        if changed:
            continue
        # boxes of a scene
        for i in range(len(groups)):
            for j in range(len(groups[i])):
                sc, ds = groups[i][j].split("@")
                dl = [d for d in ds.split("|") if d]
                for b in range(len(dl)):
                    nd = dl[:b] + dl[b + 1:]
                    if not nd:
                        continue
                    cand = groups[:i] + [groups[i][:j] + [sc + "@" + "|".join(nd)] + groups[i][j + 1:]] + groups[i + 1:]
                    if ok(cand):
                        groups = cand
                        changed = True
                        break
                if changed:
                    break
            if changed:
                break
    return _with_groups(line, groups)


def c15_visual_stage(chk):
    ok, out = vlib.harness_build(["visual"])
    if not ok:
        chk.broken.append("visual harness build failed:\n" + out[-2000:])
        chk.violation("C15:visual:harness-build", "the `visual` harness does not build against /repo", {"log": out[-4000:]}, found_input=False)
        chk.coverage["visual"] = {"evaluations": 0}
        return
    n = 300 if chk.tier == "quick" else 3000
    t0 = time.time()
    rc, out, err = vlib.harness_run("visual", ["c15", "--seed", chk.seed, "--n", n, "--tier", chk.tier], timeout=1500)
    cases = base.parse_output(out)
    hist = Counter()
    stats = Counter()
    failing = []
    for i, c in enumerate(cases):
        s = c["spec"]
        hist["tracker=%s" % s["trk"]] += 1
        hist["threshold=%s" % ("use+collect" if s["ownuse"] > 0 and s["owncol"] > 0 else ("use" if s["ownuse"] > 0 else "collect"))] += 1
        for g in _groups(s["line"]):
            hist["scenes_per_batch=%d" % len(g)] += 1
            if any(len([d for d in c2.split("@")[1].split("|") if d]) < len(g) for c2 in g):
                stats["batches_with_more_scenes_than_boxes_of_a_scene"] += 1
        f, st = oracle_case(c)
        stats.update(st)
        if f:
            failing.append((i, f))
    chk.log("visual trackers: %d histories, %d calls, %d stored observations checked (%.1fs)" % (len(cases), stats["calls"], stats["observations"], time.time() - t0))
    chk.coverage["visual"] = {
        "evaluations": len(cases), "calls": stats["calls"], "observations_checked": stats["observations"],
        "distinct_nontrivial": stats["calls_with_differing_shares"],
        "batches_with_more_scenes_than_boxes_of_a_scene": stats["batches_with_more_scenes_than_boxes_of_a_scene"],
        "rule": "VisualSort / BatchVisualSort with visual_minimal_own_area_percentage_use and/or _collect in {1/16, 1/8, 1/4, 5/16}; histories of 2-6 batches, "
                "each batch 1-5 scenes x 1-6 axis-aligned boxes on a 0.25 grid in a staircase with partial overlaps and swallowed boxes (shares 1, ~0.75, ~0.5, ..., 0); "
                "BatchVisualSort receives a whole batch in one request, VisualSort the same calls one by one. non-trivial = calls whose boxes have differing "
                "exact shares",
        "samples": [c["spec"]["line"][:300] for c in cases[:3]],
        "input_distribution": dict(hist),
        "oracle_failures": len(failing),
        "wall_s": round(time.time() - t0, 1),
    }
    seen = set()
    for i, f in failing:
        clause, ci0, what0 = f[0]
        if clause in seen:
            continue
        seen.add(clause)
        try:
            c = cases[i]

            def run_until(line, clause=clause, tries=4):
                """a batch is a HashMap scene -> observations: the position of a scene inside a batch (what a position-dependent
                defect looks at) may change from run to run, so a failure is looked for in a few runs"""
                last = None
                for _ in range(tries):
                    cs = run_lines([line])
                    if not cs:
                        continue
                    last = cs
                    if any(k == clause for k, _, _ in oracle_case(cs[0])[0]):
                        return cs, True
                return last, False

            def fails(line):
                return run_until(line)[1]
            small = shrink(c["spec"]["line"], fails, budget=60)
            cs, _ = run_until(small, tries=8)
            f2 = [x for x in (oracle_case(cs[0])[0] if cs else []) if x[0] == clause]
            detail = []
            for call in (cs[0]["calls"] if cs else []):
                detail.append({"scene": call["scene"], "status": call["status"], "panic_at": call.get("panic_loc"),
                               "boxes (uid, expected share, stored share)": [(d["uid"], None if d["own"] is None else round(float(d["own"]), 5),
                                                                              None if call["share"].get(d["uid"], {}).get("bits") is None else round(float(f32_bits_to_fraction(call["share"][d["uid"]]["bits"])), 5))
                                                                             for d in call["dets"]]})
            key = GEO_KEY if clause == "geo" else "C15:visual:" + clause
            chk.violation(key, (f2 or f)[0][2],
                          {"stage": "visual_c15", "input": small, "tracker": c["spec"]["trk"], "clause": clause,
                           "oracle_failures": [list(x) for x in (f2 or f)[:6]], "calls": detail,
                           "other_failing_histories": len(failing) - 1,
                           "replay_cmd": "./check C15 --replay <this file>   (runs: visual replay15 --file <spec>)"})
        except Exception as ex:      # the shrinker / re-run must never take the check down: report the unshrunk history
            import traceback
            line0 = cases[i]["spec"]["line"] if "spec" in cases[i] else cases[i].get("line")
            chk.violation("C15:visual:" + clause, what0,
                          {"stage": "visual_c15", "input": line0, "clause": clause, "oracle_failures": [list(x) for x in f[:6]],
                           "note": "not shrunk: " + traceback.format_exc()[-800:]})
        if len(seen) >= 3:
            break


def c15_visual_replay(chk, path):
    rep = json.load(open(path))
    if rep.get("stage") != "visual_c15":
        return None
    vlib.harness_build(["visual"])
    cs, f = None, []
    for _ in range(8):      # the order of the scenes inside a batch (a HashMap) may differ between runs
        cs = run_lines([rep["input"]])
        f = oracle_case(cs[0])[0] if cs else [("no-output", 0, "harness printed nothing")]
        if f:
            break
    for call in (cs[0]["calls"] if cs else []):
        print("call %d scene %d %s:" % (call["j"], call["scene"], call["status"]),
              [(d["uid"], None if d["own"] is None else round(float(d["own"]), 5),
                None if call["share"].get(d["uid"], {}).get("bits") is None else round(float(f32_bits_to_fraction(call["share"][d["uid"]]["bits"])), 5)) for d in call["dets"]])
    for x in f[:10]:
        print("oracle failure:", x)
    print("REPRODUCED" if f else "not reproduced")
    return 1 if f else 0
