"""C15 - exclusively-owned area share (bbox_own_areas.rs; geo::BooleanOps::difference is an oracle).

proof (Props/C15.v: laws of the exact grid specification)  +  correspondence of the real
exclusively_owned_areas / exclusively_owned_areas_normalized_shares with the two exact specifications of
Model/OwnArea.v  +  property oracles on the implementation's answers (exact slab decomposition, sampling).
"""
import itertools
import json
import math
import os
import time
from collections import Counter
from fractions import Fraction as Fr

import vlib
from vlib import q_lit
from props import c08
from props.c08 import F32, F64, finite, parse_box, parse_ring, area, edges, cross, seg_cross, sh_clip_exact, rect_exact

KEY_KNOWN = "C15:geo-difference:collinear-edges"
KEY_NORETURN = "C15:geo-difference:no-return"
EPS = Fr(1, 100000)
TOL = 2e-5

PREAMBLE = """From Coq Require Import List ZArith QArith.
From Similari Require Import Base.Num Model.Geom Model.OwnArea.
Import ListNotations.
Open Scope Q_scope.
"""


def parse_set(line):
    toks = line.split()
    d = dict(t.split("=", 1) for t in toks[2:])
    r = {"k": int(toks[1]), "cfg": d["cfg"], "raw": line}
    r["panic_sites"] = sorted(set(t.split("=", 1)[1] for t in toks[2:] if t.startswith("panic=")))
    r["boxes"] = [parse_box(x) for x in d["boxes"].split(";")]
    r["cs"] = [tuple(F64(int(v)) for v in x.split(":")) for x in d["cs"].split(";")]
    r["verts"] = [parse_ring(x)[:-1] for x in d["verts"].split(";")]
    r["timeout"] = d["res"] == "T"
    r["res"] = None if d["res"] in ("P", "T") else [F32(int(x)) for x in d["res"].split(",")]
    r["own"] = None if d["own"] in ("P", "T") else [F64(int(x)) for x in d["own"].split(",")]
    r["tf"] = d["tf"]
    r["areas32"] = [F32(int(x)) for x in d["areas"].split(",")]
    r["samp"] = [F64(int(x)) for x in d["samp"].split(",")] if "samp" in d else None
    perms = []
    if d.get("perms", "-") != "-":
        for p in d["perms"].split("|"):
            idx, res = p.split(">")
            if res == "T":
                r["timeout"] = True
            perms.append(([int(c) for c in idx], None if res in ("P", "T") else [F32(int(x)) for x in res.split(",")]))
    r["perms"] = perms
    return r


def set_line(cfg, boxes):
    return "set cfg=%s boxes=%s" % (cfg, ";".join(b["txt"] if "txt" in b else c08.box_txt(b) for b in boxes))


# --------------------------------------------------------------------------------------------------
# independent exact reference: vertical slab decomposition.
# Between two consecutive x-coordinates of {all vertices, all edge crossings} no two edges cross, so on a slab the
# length of (P's vertical section minus the union of the others' sections) is linear in x: the area of the slab's part
# is  width * length at the midpoint.


def section(poly, x):
    """[lo, hi] of the convex polygon on the vertical line at x (x is never a vertex abscissa), or None"""
    ys = []
    for (p, q) in edges(poly):
        if (p[0] < x < q[0]) or (q[0] < x < p[0]):
            ys.append(p[1] + (x - p[0]) * (q[1] - p[1]) / (q[0] - p[0]))
    if len(ys) < 2:
        return None
    return (min(ys), max(ys))


def uncovered_len(iv, others):
    lo, hi = iv
    cuts = sorted(o for o in others if o is not None and o[1] > lo and o[0] < hi)
    total = Fr(0)
    cur = lo
    for (a, b) in cuts:
        if a > cur:
            total += a - cur
        cur = max(cur, b)
        if cur >= hi:
            break
    if cur < hi:
        total += hi - cur
    return total


def uncovered_area_slabs(i, polys):
    P = polys[i]
    lo_x, hi_x = min(p[0] for p in P), max(p[0] for p in P)
    rel = [j for j in range(len(polys)) if j != i and max(p[0] for p in polys[j]) > lo_x and min(p[0] for p in polys[j]) < hi_x]
    xs = set(p[0] for p in P)
    for j in rel:
        xs.update(p[0] for p in polys[j])
    use = [i] + rel
    for a in range(len(use)):
        for b in range(a + 1, len(use)):
            for e1 in edges(polys[use[a]]):
                for e2 in edges(polys[use[b]]):
                    x = seg_cross(e1[0], e1[1], e2[0], e2[1])
                    if x is not None:
                        xs.add(x[0])
    xs = sorted(x for x in xs if lo_x <= x <= hi_x)
    total = Fr(0)
    for x0, x1 in zip(xs, xs[1:]):
        xm = (x0 + x1) / 2
        iv = section(P, xm)
        if iv is None:
            continue
        total += (x1 - x0) * uncovered_len(iv, [section(polys[j], xm) for j in rel])
    return total


# --------------------------------------------------------------------------------------------------
# exact replay of Model/OwnArea.v (own_shares_ie) and of own_shares_grid


def too_far_q(a, b):
    def rad2(x):
        hw = x["asp"] * x["h"] / 2
        hh = x["h"] / 2
        return hw * hw + hh * hh
    dx, dy = a["xc"] - b["xc"], a["yc"] - b["yc"]
    k = dx * dx + dy * dy - rad2(a) - rad2(b)
    return k > 0 and k * k > 4 * rad2(a) * rad2(b)


def uncovered_ie(P, others):
    if not others:
        return area(P)
    o, rest = others[0], others[1:]
    pin, _ = sh_clip_exact(P, o)
    return uncovered_ie(P, rest) - (uncovered_ie(pin, rest) if pin else Fr(0))


def share_normalise(own, a):
    e = own / (a + EPS)
    return Fr(1) if e >= 1 else e


def py_own_shares_ie(r):
    boxes, n = r["boxes"], len(r["boxes"])
    rects = [rect_exact(b, cs) for b, cs in zip(boxes, r["cs"])]
    shares, owns = [], []
    for i in range(n):
        near = []
        for j in range(n):
            if i < j and not too_far_q(boxes[i], boxes[j]):
                near.append(j)
            elif j < i and not too_far_q(boxes[j], boxes[i]):
                near.append(j)
        own = uncovered_ie(rects[i], [rects[j] for j in near])
        owns.append(own)
        shares.append(share_normalise(own, boxes[i]["h"] * boxes[i]["h"] * boxes[i]["asp"]))
    return shares, owns


def integer_boxes(r):
    """(x0,y0,x1,y1) integers if every box of the set is an unrotated box with integer corners (up to the f32
    rounding of aspect), else None"""
    out = []
    for b in r["boxes"]:
        if b["angle"] is not None:
            return None
        w = b["asp"] * b["h"]
        wi = round(w)
        if wi < 1 or abs(float(w) - wi) > 1e-4 * wi or b["h"].denominator != 1:
            return None
        x0, y0 = b["xc"] - Fr(wi, 2), b["yc"] - b["h"] / 2
        if x0.denominator != 1 or y0.denominator != 1:
            return None
        out.append((int(x0), int(y0), int(x0) + wi, int(y0) + int(b["h"])))
    return out


def py_grid_share(i, ib):
    """exact replay of own_share_grid: coordinate compression, elementary cells"""
    xs = sorted(set(v for b in ib for v in (b[0], b[2])))
    ys = sorted(set(v for b in ib for v in (b[1], b[3])))
    b = ib[i]
    own = 0
    for xa, xb in zip(xs, xs[1:]):
        for ya, yb in zip(ys, ys[1:]):
            inside = lambda o: o[0] <= xa and xb <= o[2] and o[1] <= ya and yb <= o[3]
            if inside(b) and not any(inside(o) for j, o in enumerate(ib) if j != i):
                own += (xb - xa) * (yb - ya)
    return Fr(own, (b[2] - b[0]) * (b[3] - b[1]))


# --------------------------------------------------------------------------------------------------
# property oracles


def expected_shares(r):
    """min(1, uncovered / (area + EPS)) with the exact uncovered area of the implementation's own rectangles"""
    polys = r["verts"]
    out = []
    for i, b in enumerate(r["boxes"]):
        unc = uncovered_area_slabs(i, polys)
        a = area(polys[i])
        out.append((unc, a, share_normalise(unc, b["h"] * b["h"] * b["asp"])))
    return out


def oracle(r, exp=None):
    fails = []
    n = len(r["boxes"])
    if r.get("timeout"):
        fails.append("exclusively_owned_areas did not return within the watchdog time (a normal call takes milliseconds)")
    if r["res"] is None and not r.get("timeout"):
        fails.append("panic: exclusively_owned_areas did not complete")
    for (p, res) in r["perms"]:
        if res is None:
            fails.append("no result for the input order %s (panic or no return)" % "".join(map(str, p)))
    if exp is None:
        exp = expected_shares(r)
    if r["res"] is not None:
        for i, v in enumerate(r["res"]):
            unc, a, e = exp[i]
            if not finite(v):
                fails.append("share of box %d is not a number" % i)
                continue
            if not (0 <= v <= 1):
                fails.append("share of box %d = %.9g outside [0,1]" % (i, float(v)))
            if abs(float(v) - float(e)) > TOL:
                fails.append("share of box %d = %.9g but the uncovered fraction is %.9g" % (i, float(v), float(e)))
            if unc == a and float(v) < 1 - TOL - float(EPS / a):
                fails.append("box %d overlaps nothing but its share is %.9g" % (i, float(v)))
            if unc == 0 and float(v) > TOL:
                fails.append("box %d is fully covered but its share is %.9g" % (i, float(v)))
            if r["samp"] is not None and abs(float(v) - float(r["samp"][i])) > 0.04:
                fails.append("share of box %d = %.6g but sampling gives %.6g" % (i, float(v), float(r["samp"][i])))
        for (p, res) in r["perms"]:
            if res is None:
                continue
            for pos, i in enumerate(p):
                if not finite(res[pos]) or abs(float(res[pos]) - float(r["res"][i])) > TOL:
                    fails.append("share of box %d depends on the input order (%s): %.9g vs %.9g" % (i, "".join(map(str, p)), float(res[pos]), float(r["res"][i])))
                    break
    return fails


def rotated_collinear_family(r):
    """The input class of the known finding: two boxes of the set, at least one of them really rotated (cos and sin
    both non-zero), with an edge of one lying - up to 3e-3 of the pair's extent - on an edge line of the other
    (shared or almost collinear edges), and - if anything panicked - every panic site inside geo's boolean
    operations (geo-*/src/algorithm/bool_ops or /sweep)."""
    if any(not (s.startswith("geo-") and ("/algorithm/bool_ops/" in s or "/algorithm/sweep/" in s)) for s in r["panic_sites"]):
        return False
    n = len(r["boxes"])
    for i in range(n):
        for j in range(i + 1, n):
            ci, cj = r["cs"][i], r["cs"][j]
            rot = (ci[0] != 0 and ci[1] != 0) or (cj[0] != 0 and cj[1] != 0)
            if rot and c08.collinear_family(r["verts"][i], r["verts"][j], tol=3e-3):
                return True
    return False


# --------------------------------------------------------------------------------------------------


def eval_set(boxes, cfg="replay"):
    ls = c08.run_eval([set_line(cfg, boxes)], tag="c15")
    return parse_set(ls[0]) if ls else None


def shrink_set(r, pred):
    boxes = [dict(b) for b in r["boxes"]]
    changed = True
    while changed and len(boxes) > 1:
        changed = False
        for i in range(len(boxes)):
            cand = boxes[:i] + boxes[i + 1:]
            rr = eval_set(cand)
            if rr is not None and pred(rr):
                boxes = cand
                changed = True
                break
    # simpler numbers
    for i in range(len(boxes)):
        for fld in ("xc", "yc", "angle", "asp", "h"):
            if boxes[i][fld] is None:
                continue
            for bits in (2, 4, 6, 8, 11, 14, 18):
                cand = [dict(b) for b in boxes]
                cand[i][fld] = c08.round_bits(boxes[i][fld], bits)
                cand[i].pop("txt", None)
                if fld in ("asp", "h") and cand[i][fld] <= 0:
                    continue
                if cand[i][fld] == boxes[i][fld]:
                    break
                rr = eval_set(cand)
                if rr is not None and pred(rr):
                    boxes = cand
                    break
    for b in boxes:
        b.pop("txt", None)
    return boxes



# --------------------------------------------------------------------------------------------------
# API sequences on sets (key C15:stale-vertex-cache): the shares must be a function of the boxes' CURRENT fields

KEY_STALE = "C15:stale-vertex-cache"


def parse_sseq(line):
    toks = line.split()
    d = dict(t.split("=", 1) for t in toks[2:])
    return {"k": int(toks[1]), "boxes": d["boxes"].split(";"), "ops": d["ops"].split("|"), "cur": d["cur"].split(";"),
            "D": d["D"], "Dc": d["Dc"], "F": d["F"], "raw": line}


def sseq_line(boxes, ops):
    return "sseq boxes=%s ops=%s" % (";".join(boxes), "|".join(o or "-" for o in ops))


def sseq_stale(q):
    return q["D"] != q["F"] or q["Dc"] != q["F"]


def sseq_gap(q):
    """largest difference between a share of the mutated boxes (or their clones) and of the fresh boxes"""
    if not sseq_stale(q):
        return 0.0
    f = shares_of_txt(q["F"])
    g = 0.0
    for t in (q["D"], q["Dc"]):
        d = shares_of_txt(t)
        if isinstance(d, str) or isinstance(f, str):
            if d != f:
                g = max(g, 1.0)
        else:
            g = max([g] + [abs(x - y) for x, y in zip(d, f)])
    return max(g, 1e-12)


def eval_sseq(boxes, ops):
    ls = [l for l in c08.run_eval([sseq_line(boxes, ops)], tag="c15s") if l.startswith("sseq ")]
    return parse_sseq(ls[0]) if ls else None


def shrink_sseq(q):
    boxes, ops = list(q["boxes"]), [[] if o == "-" else o.split(",") for o in q["ops"]]

    need = 0.1 if sseq_gap(q) > 0.1 else 0.0

    def fails(bs, os_):
        r = eval_sseq(bs, [",".join(o) for o in os_])
        return r is not None and sseq_stale(r) and sseq_gap(r) > need
    changed = True
    while changed:
        changed = False
        for i in range(len(boxes)):
            if len(boxes) > 2 and fails(boxes[:i] + boxes[i + 1:], ops[:i] + ops[i + 1:]):
                boxes, ops, changed = boxes[:i] + boxes[i + 1:], ops[:i] + ops[i + 1:], True
                break
        if changed:
            continue
        for i in range(len(ops)):
            for j in range(len(ops[i])):
                cand = [list(o) for o in ops]
                del cand[i][j]
                if fails(boxes, cand):
                    ops, changed = cand, True
                    break
            if changed:
                break
    return boxes, [",".join(o) or "-" for o in ops]


def shares_of_txt(t):
    if t in ("P", "T"):
        return {"P": "panic", "T": "no return"}[t]
    return [float(F32(int(x))) for x in t.split("/")[0].split(",")]


def coq_ibox(b):
    return "(mkibox (%d) (%d) (%d) (%d))" % b


def run(chk):
    props = os.path.join(vlib.COQ, "theories", "Props", "C15.v")
    vlib.proof_stage(chk, props)
    if chk.tier == "thorough":
        vlib.coqchk_stage(chk, "Similari.Props.C15")
    ok, out = vlib.harness_build(["geom"])
    if not ok:
        chk.broken.append("harness build failed:\n" + out[-2000:])
        chk.violation("harness-build", "the correspondence harness does not build against /repo", {"log": out[-4000:]}, found_input=False)
        chk.coverage.update({"evaluations": 0})
        return
    n_sets, n_ie = (600, 20) if chk.tier == "quick" else (6000, 200)
    cases, start = [], 0
    for _ in range(40):
        # exit code 3 = the last record printed is a call that did not return (res=T): resume after it
        rc, out, err = vlib.harness_run("geom", ["sets", "--seed", chk.seed, "--n", n_sets, "--from", start], timeout=2400)
        part = [parse_set(l) for l in out.split("\n") if l.startswith("set ")]
        cases += part
        if rc != 3 or not part:
            break
        start = part[-1]["k"] + 1
    chk.log("implementation ran %d box sets" % len(cases))
    # API sequences: boxes prepared with gen_vertices() and mutated / cloned afterwards; the shares of the set must be
    # bit for bit those of fresh boxes with the same field values (which join the ordinary stream: slab truth, model)
    n_sseq = 500 if chk.tier == "quick" else 5000
    sseqs, start = [], 0
    for _ in range(20):
        rc, out, err = vlib.harness_run("geom", ["setseqs", "--seed", chk.seed, "--n", n_sseq, "--from", start], timeout=2400)
        part = [parse_sseq(l) for l in out.split("\n") if l.startswith("sseq ")]
        sseqs += part
        if rc != 3 or not part:
            break
        start = part[-1]["k"] + 1
    stale_sets = [q for q in sseqs if sseq_stale(q)]
    extra = c08.run_eval(["set cfg=sseq boxes=%s" % ";".join(q["cur"]) for q in sseqs[:(150 if chk.tier == "quick" else 1500)]], tag="c15s")
    cases += [parse_set(l) for l in extra if l.startswith("set ")]
    chk.log("API sequences on sets: %d run, %d with shares that differ from those of fresh boxes" % (len(sseqs), len(stale_sets)))

    hist = Counter()
    stats = Counter()
    nontrivial = set()
    failing = []
    exps = []
    for r in cases:
        hist["cfg=" + r["cfg"]] += 1
        hist["n=%d" % len(r["boxes"])] += 1
        exp = expected_shares(r)
        exps.append(exp)
        fails = oracle(r, exp)
        part = sum(1 for (u, a, e) in exp if 0 < u < a)
        if part:
            nontrivial.add(r["raw"].split(" cs=")[0].split("boxes=")[1])
        stats["boxes_total"] += len(r["boxes"])
        stats["boxes_partially_covered"] += part
        stats["boxes_fully_covered"] += sum(1 for (u, a, e) in exp if u == 0)
        stats["boxes_free"] += sum(1 for (u, a, e) in exp if u == a)
        stats["permutations_run"] += len(r["perms"])
        if r.get("timeout"):
            stats["sets_with_no_return"] += 1
        elif r["res"] is None or any(res is None for _, res in r["perms"]):
            stats["sets_with_panic"] += 1
        if fails:
            failing.append((r, fails, rotated_collinear_family(r)))
    chk.log("property oracles: %d failing sets (%d in the rotated collinear-edge family, %d with a panic, %d with a call that did not return)"
            % (len(failing), sum(1 for f in failing if f[2]), stats["sets_with_panic"], stats["sets_with_no_return"]))

    # ---- model vs implementation ----
    disagreements = []
    # (1) integer sets: own_shares_grid evaluated by coqc on every integer set
    int_idx = [i for i, r in enumerate(cases) if integer_boxes(r) is not None]
    model_ok = os.path.exists(os.path.join(vlib.COQ, "theories", "Model", "OwnArea.vo"))
    if not model_ok:
        chk.broken.append("Model/OwnArea.vo missing: the model was not evaluated")
    if model_ok and int_idx:
        exprs = ["run_grid [%s]" % "; ".join(coq_ibox(b) for b in integer_boxes(cases[i])) for i in int_idx]
        try:
            t0 = time.time()
            vals = vlib.coq_eval(PREAMBLE, exprs, shard_size=max(4, len(exprs) // 32 + 1), timeout=1800, tag="c15g")
            chk.log("own_shares_grid evaluated by coqc on %d integer sets in %.1fs" % (len(exprs), time.time() - t0))
            for i, v in zip(int_idx, vals):
                r = cases[i]
                ib = integer_boxes(r)
                g = [Fr(x[0], x[1]) for x in vlib.parse_coq_value(v.replace("%Z", ""))]
                dis = []
                for k in range(len(ib)):
                    if g[k] != py_grid_share(k, ib):
                        dis.append("MODEL: own_share_grid in Coq differs from the python replay (box %d)" % k)
                    polys = [[(Fr(b[0]), Fr(b[3])), (Fr(b[2]), Fr(b[3])), (Fr(b[2]), Fr(b[1])), (Fr(b[0]), Fr(b[1]))] for b in ib]
                    if g[k] != uncovered_area_slabs(k, polys) / area(polys[k]):
                        dis.append("MODEL: own_share_grid differs from the slab reference on the integer boxes (box %d)" % k)
                    if r["res"] is not None:
                        a = (ib[k][2] - ib[k][0]) * (ib[k][3] - ib[k][1])
                        e = min(Fr(1), g[k] * a / (a + EPS))
                        stats["grid_shares_compared"] += 1
                        if not finite(r["res"][k]) or abs(float(r["res"][k]) - float(e)) > TOL:
                            dis.append("grid: box %d implementation %.9g, own_share_grid (normalised) %.9g" % (k, float(r["res"][k]), float(e)))
                if dis:
                    disagreements.append((i, dis))
        except RuntimeError as e:
            chk.broken.append("model evaluation (grid) failed: %s" % str(e)[-1500:])
    # (2) every set: exact replay of own_shares_ie (ideal rectangles from the implementation's cos/sin)
    pys = {}
    for i, r in enumerate(cases):
        t0 = time.time()
        sh, ow = py_own_shares_ie(r)
        pys[i] = (sh, ow)
        if r["res"] is None:
            continue
        dis = []
        for k in range(len(sh)):
            stats["ie_shares_compared"] += 1
            if not finite(r["res"][k]) or abs(float(r["res"][k]) - float(sh[k])) > TOL:
                dis.append("ie: box %d implementation %.9g, own_shares_ie %.9g" % (k, float(r["res"][k]), float(sh[k])))
            a = float(area(r["verts"][k]))
            if finite(r["own"][k]) and abs(float(r["own"][k]) - float(ow[k])) > TOL * a:
                dis.append("ie: box %d own area implementation %.9g, model %.9g" % (k, float(r["own"][k]), float(ow[k])))
        if dis:
            disagreements.append((i, dis))
    # (3) a subset of the rotated sets evaluated by coqc, compared exactly with the replay
    if model_ok:
        sel = []
        per = Counter()
        for i, r in enumerate(cases):
            if len(sel) >= n_ie:
                break
            if len(r["boxes"]) > (3 if chk.tier == "quick" else 4) or per[r["cfg"]] >= max(3, n_ie // 5):
                continue
            per[r["cfg"]] += 1
            sel.append(i)
        exprs = ["run_ie [%s]" % "; ".join(c08.coq_box(b, cs) for b, cs in zip(cases[i]["boxes"], cases[i]["cs"])) for i in sel]
        try:
            t0 = time.time()
            vals = vlib.coq_eval(PREAMBLE, exprs, shard_size=1, timeout=2400, tag="c15i")
            chk.log("own_shares_ie evaluated by coqc on %d sets in %.1fs" % (len(sel), time.time() - t0))
            for i, v in zip(sel, vals):
                shares, owns = vlib.parse_coq_value(v.replace("%Z", ""))
                if [Fr(x[0], x[1]) for x in shares] != pys[i][0] or [Fr(x[0], x[1]) for x in owns] != pys[i][1]:
                    disagreements.append((i, ["MODEL: own_shares_ie in Coq differs from the python replay"]))
            stats["ie_sets_evaluated_by_coqc"] = len(sel)
        except RuntimeError as e:
            chk.broken.append("model evaluation (ie) failed: %s" % str(e)[-1500:])
    dis_known = [d for d in disagreements if rotated_collinear_family(cases[d[0]]) and not any(s.startswith("MODEL") for s in d[1])]
    dis_other = [d for d in disagreements if d not in dis_known]
    chk.log("model vs implementation: %d disagreeing sets (%d in the rotated collinear-edge family)" % (len(disagreements), len(dis_known)))

    chk.coverage.update({
        "evaluations": len(cases),
        "distinct_nontrivial": len(nontrivial),
        "rule": "sets of 1..8 boxes from the streams int / intbig (integer ltwh: own_share_grid by coqc on every one) / aa / rot / rotwide / "
                "degenerate (identical, right-angle rotations, shared edges, corner contacts, almost collinear) / collinear (DESIGN section 6); "
                "every set: every call under catch_unwind and a 20 s watchdog (a panic / a call that does not return is a result), "
                "exact slab-decomposition oracle, sampling cross-check, all permutations for n<=4 (3 random ones above), "
                "exact replay of own_shares_ie; a subset of sets with <=4 boxes evaluated by coqc. "
                "non-trivial = some box of the set is partially covered (0 < uncovered < area); distinct by box fields",
        "samples": [c["raw"][:300] for c in cases[1:4]],
        "input_distribution": dict(hist),
        "counts": dict(stats),
        "integer_sets": len(int_idx),
        "api_set_sequences": len(sseqs),
        "api_set_sequences_with_outdated_cached_vertices": sum(1 for q in sseqs if any(
            c08.cache_stale_at_end(o, parse_box(b)["angle"] is not None) for b, o in zip(q["boxes"], q["ops"]))),
        "api_set_sequences_stale": len(stale_sets),
        "oracle_failures": len(failing),
        "oracle_failures_in_known_family": sum(1 for f in failing if f[2]),
        "model_vs_impl_disagreements": len(disagreements),
        "model_vs_impl_disagreements_in_known_family": len(dis_known),
    })

    noret_f = [f for f in failing if f[2] and f[0].get("timeout")]
    known_f = [f for f in failing if f[2] and not f[0].get("timeout")]
    other_f = [f for f in failing if not f[2]]

    def report(group, key, title):
        group = sorted(group, key=lambda f: len(f[0]["boxes"]))
        r, fails, _ = group[0]
        want_known = key in (KEY_KNOWN, KEY_NORETURN)

        def pred(rr):
            if key == KEY_NORETURN and not rr.get("timeout"):
                return False
            return bool(oracle(rr)) and rotated_collinear_family(rr) == want_known
        if key == KEY_NORETURN and len(r["boxes"]) <= 4:
            boxes = [dict(b) for b in r["boxes"]]          # every probe of a non-returning call costs the watchdog time
            rr = r
        else:
            boxes = shrink_set(r, pred)
            rr = eval_set(boxes) or r
        ff = oracle(rr)
        line = set_line("replay", boxes)
        if chk.is_known(key):
            # a known finding writes no violation replay: keep the (shrunk) witness of this run next to the fixed
            # minimised pair of the corpus so that it can be replayed with ./check C15 --replay
            with open(os.path.join(chk.out_root, "replay", "C15", "known_%s.json" % key.split(":")[-1]), "w") as fh:
                json.dump({"property": "C15", "key": key, "input": line, "decoded": [c08.decoded(b) for b in boxes],
                           "minimised_pair": "set cfg=replay boxes=0:0:1048576000:1056964608:1065353216;0:0:1048576000:1065353216:1065353216",
                           "failures": ff, "panic_sites": rr["panic_sites"], "failing_sets_in_this_run": len(group)}, fh, indent=1)
        chk.violation(key, title + ": " + "; ".join(ff[:3]),
                      {"input": line, "decoded": [c08.decoded(b) for b in boxes], "failures": ff,
                       "panic_sites": rr["panic_sites"],
                       "implementation": "panic" if rr["res"] is None else [float(x) if finite(x) else str(x) for x in rr["res"]],
                       "expected": [float(e) for (_, _, e) in expected_shares(rr)],
                       "failing_sets_in_this_run": len(group),
                       "replay_cmd": "printf '%s\\n' > /tmp/c15.txt && /verif/.cache/target/release/geom eval --file /tmp/c15.txt   # or ./check C15 --replay <this file>" % line,
                       "broken": chk.broken})
    if stale_sets:
        q = max(stale_sets, key=lambda x: (min(sseq_gap(x), 0.5), -len(x["boxes"])))
        bs, os_ = shrink_sseq(q)
        qq = eval_sseq(bs, os_) or q
        line = sseq_line(bs, os_)
        fresh = eval_set([parse_box(b) for b in qq["cur"]])
        chk.violation(KEY_STALE, "own-area shares of boxes mutated after gen_vertices() are not those of their current fields: "
                      "got %s (clones: %s), fresh boxes with the same fields give %s"
                      % (shares_of_txt(qq["D"]), shares_of_txt(qq["Dc"]), shares_of_txt(qq["F"])),
                      {"input": line,
                       "api_sequence": [{"box": c08.decoded(parse_box(b)), "then": c08.describe_ops(o)} for b, o in zip(bs, os_)],
                       "current_fields": [c08.decoded(parse_box(b)) for b in qq["cur"]],
                       "shares_of_the_mutated_boxes": shares_of_txt(qq["D"]), "shares_of_their_clones": shares_of_txt(qq["Dc"]),
                       "shares_of_fresh_boxes": shares_of_txt(qq["F"]),
                       "exact_uncovered_fractions": None if fresh is None else [float(e) for (_, _, e) in expected_shares(fresh)],
                       "failing_sequences_in_this_run": len(stale_sets),
                       "replay_cmd": "printf '%s\\n' > /tmp/c15.txt && /verif/.cache/target/release/geom eval --file /tmp/c15.txt   # or ./check C15 --replay <this file>" % line,
                       "broken": chk.broken})
    if known_f:
        report(known_f, KEY_KNOWN, "geo 0.27 BooleanOps::difference fails on rotated boxes sharing edge lines")
    if noret_f:
        report(noret_f, KEY_NORETURN, "geo 0.27 BooleanOps::difference does not return on rotated boxes with shared / almost collinear edges")
    if other_f:
        report(other_f, "C15:oracle", "the implementation violates the property text")
    if not failing and dis_known:
        i, dis = dis_known[0]
        chk.violation(KEY_KNOWN, "model and implementation differ on rotated boxes sharing edge lines: " + dis[0],
                      {"input": set_line("replay", cases[i]["boxes"]), "disagreements": dis})
    if dis_other and not other_f:
        i, dis = dis_other[0]
        chk.violation("C15:tie-broken", "model and implementation differ on %d sets: %s" % (len(dis_other), dis[0]),
                      {"input": set_line("replay", cases[i]["boxes"]), "disagreements": dis, "broken": chk.broken}, found_input=False)
    if chk.broken and not failing and not dis_other:
        chk.violation("C15:proof-broken", "proof or audit no longer checks: " + "; ".join(b.split("\n")[0][:200] for b in chk.broken),
                      {"broken": chk.broken}, found_input=False)


def replay(chk, path):
    rep = json.load(open(path))
    vlib.harness_build(["geom"])
    ls = c08.run_eval([rep["input"]], tag="c15")
    print(ls[0][:1500])
    if ls[0].startswith("sseq "):
        q = parse_sseq(ls[0])
        print("mutated boxes:", shares_of_txt(q["D"]), " clones:", shares_of_txt(q["Dc"]), " fresh boxes:", shares_of_txt(q["F"]))
        print("REPRODUCED" if sseq_stale(q) else "not reproduced")
        return 1 if sseq_stale(q) else 0
    r = parse_set(ls[0])
    fails = oracle(r)
    for f in fails:
        print("  FAIL:", f)
    print("REPRODUCED" if fails else "not reproduced")
    return 1 if fails else 0
