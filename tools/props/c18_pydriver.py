#!/usr/bin/env python3
"""C18: executes API scripts through the Python extension module built from the current tree.

    python3 c18_pydriver.py <dir containing similari.so> <scripts.json>

Prints one line per script: {"i":k,"res":[...]} - the same encoding as harness/src/bin/pyapi.rs (floats as bit
patterns ["f",u32] / ["d",u64], any exception -> "err", unusable receiver -> "skip").  Every optional argument
that the script omits is omitted in the Python call too (keyword arguments), so the module's own `signature`
defaults are what gets exercised.
"""
import gc
import json
import os
import struct
import sys
import time


def f32(bits):
    return struct.unpack("<f", struct.pack("<I", bits & 0xFFFFFFFF))[0]


def jf(x):
    if x != x:
        return ["f", "nan"]
    return ["f", struct.unpack("<I", struct.pack("<f", x))[0]]


def jd(x):
    if x != x:
        return ["d", "nan"]
    return ["d", struct.unpack("<Q", struct.pack("<d", x))[0]]


def jof(x):
    return None if x is None else jf(x)


class Skip(Exception):
    pass


def main():
    moddir, scripts_path = sys.argv[1], sys.argv[2]
    sys.path.insert(0, moddir)
    import similari as S
    expected = os.path.realpath(os.path.join(moddir, "similari.so"))
    assert os.path.realpath(S.__file__) == expected, "imported %s instead of %s" % (S.__file__, expected)
    scripts = json.load(open(scripts_path))
    for k, sc in enumerate(scripts):
        vm = Vm(S)
        res = [vm.execute(ins) for ins in sc]
        vm.vars.clear()
        del vm
        gc.collect()   # trackers join their threads when dropped
        sys.stdout.write(json.dumps({"i": k, "res": res}) + "\n")
        sys.stdout.flush()


def bb_obs(b):
    return {"left": jf(b.left), "top": jf(b.top), "width": jf(b.width), "height": jf(b.height), "confidence": jf(b.confidence)}


def u_obs(b):
    return {"xc": jf(b.xc), "yc": jf(b.yc), "angle": jof(b.angle), "aspect": jf(b.aspect), "height": jf(b.height),
            "confidence": jf(b.confidence)}


def poly_obs(p):
    return [[jd(x), jd(y)] for (x, y) in p.get_points()]


def track_obs(t):
    return {"id": t.id, "epoch": t.epoch, "predicted_bbox": u_obs(t.predicted_bbox), "observed_bbox": u_obs(t.observed_bbox),
            "scene_id": t.scene_id, "length": t.length, "voting_type": [repr(t.voting_type), str(t.voting_type)],
            "custom_object_id": t.custom_object_id, "repr": [repr(t), str(t)]}


def wasted_obs(t):
    return {"id": t.id, "epoch": t.epoch, "predicted_bbox": u_obs(t.predicted_bbox), "observed_bbox": u_obs(t.observed_bbox),
            "scene_id": t.scene_id, "length": t.length,
            "predicted_boxes": [u_obs(b) for b in t.predicted_boxes], "observed_boxes": [u_obs(b) for b in t.observed_boxes],
            "repr": repr(t), "str": str(t)}


def vwasted_obs(t):
    return {"id": t.id, "epoch": t.epoch, "predicted_bbox": u_obs(t.predicted_bbox), "observed_bbox": u_obs(t.observed_bbox),
            "scene_id": t.scene_id, "length": t.length,
            "predicted_boxes": [u_obs(b) for b in t.predicted_boxes], "observed_boxes": [u_obs(b) for b in t.observed_boxes],
            "observed_features": [None if f is None else [jf(x) for x in f] for f in t.observed_features],
            "repr": repr(t), "str": str(t)}


def kfs_obs(s):
    u = s.universal_bbox()
    try:
        bb = bb_obs(s.bbox())
    except BaseException:
        bb = "err"
    return {"ubox": u_obs(u), "bbox": bb}


def pkfs_obs(s):
    return [jf(s.x()), jf(s.y())]


def drain(res):
    n = res.batch_size()
    scenes = []
    for _ in range(n):
        scene, tracks = res.get()
        scenes.append([scene, [track_obs(t) for t in tracks]])
    return {"batch_size": n, "scenes": scenes, "ready_after": res.ready()}


class Vm:
    def __init__(self, S):
        self.S = S
        self.vars = {}
        self.kinds = {}

    def get(self, ins, key, kind):
        v = ins[key]
        if v not in self.vars or self.kinds[v] not in (kind if isinstance(kind, tuple) else (kind,)):
            raise Skip()
        return self.vars[v]

    def put(self, ins, obj, kind):
        if ins.get("out") is not None:
            self.vars[ins["out"]] = obj
            self.kinds[ins["out"]] = kind

    def execute(self, ins):
        try:
            return getattr(self, "op_" + ins["op"])(ins)
        except Skip:
            return "skip"
        except KeyboardInterrupt:
            raise
        except BaseException:
            if "v" in ins and ins.get("poison"):
                self.vars.pop(ins["v"], None)
            return "err"

    def opt_kwargs(self, ins, fkeys=(), ikeys=()):
        kw = {}
        for k in fkeys:
            if k in ins:
                kw[k] = f32(ins[k])
        for k in ikeys:
            if k in ins:
                kw[k] = ins[k]
        return kw

    def op_module_exports(self, i):
        return sorted(n for n in dir(self.S) if not n.startswith("_"))

    # ---- BoundingBox ----
    def op_bb_new(self, i):
        b = self.S.BoundingBox(f32(i["l"]), f32(i["t"]), f32(i["w"]), f32(i["h"]))
        self.put(i, b, "BB")
        return bb_obs(b)

    def op_bb_new_conf(self, i):
        b = self.S.BoundingBox.new_with_confidence(f32(i["l"]), f32(i["t"]), f32(i["w"]), f32(i["h"]), f32(i["c"]))
        self.put(i, b, "BB")
        return bb_obs(b)

    def op_bb_get(self, i):
        return jf(getattr(self.get(i, "v", "BB"), i["field"]))

    def op_bb_set(self, i):
        b = self.get(i, "v", "BB")
        setattr(b, i["field"], f32(i["x"]))
        return bb_obs(b)

    def op_bb_as_xyaah(self, i):
        u = self.get(i, "v", "BB").as_xyaah()
        self.put(i, u, "U")
        return u_obs(u)

    def op_bb_str(self, i):
        b = self.get(i, "v", "BB")
        return [repr(b), str(b)]

    # ---- Universal2DBox ----
    def op_u_new(self, i):
        u = self.S.Universal2DBox(f32(i["xc"]), f32(i["yc"]), None if i.get("angle") is None else f32(i["angle"]),
                                  f32(i["aspect"]), f32(i["height"]))
        self.put(i, u, "U")
        return u_obs(u)

    def op_u_new_conf(self, i):
        u = self.S.Universal2DBox.new_with_confidence(f32(i["xc"]), f32(i["yc"]), None if i.get("angle") is None else f32(i["angle"]),
                                                      f32(i["aspect"]), f32(i["height"]), f32(i["c"]))
        self.put(i, u, "U")
        return u_obs(u)

    def op_u_ltwh(self, i):
        u = self.S.Universal2DBox.ltwh(f32(i["l"]), f32(i["t"]), f32(i["w"]), f32(i["h"]))
        self.put(i, u, "U")
        return u_obs(u)

    def op_u_ltwh_conf(self, i):
        u = self.S.Universal2DBox.ltwh_with_confidence(f32(i["l"]), f32(i["t"]), f32(i["w"]), f32(i["h"]), f32(i["c"]))
        self.put(i, u, "U")
        return u_obs(u)

    def op_u_get(self, i):
        x = getattr(self.get(i, "v", "U"), i["field"])
        return jof(x)

    def op_u_set(self, i):
        b = self.get(i, "v", "U")
        setattr(b, i["field"], None if i.get("x") is None else f32(i["x"]))
        return u_obs(b)

    def op_u_rotate(self, i):
        b = self.get(i, "v", "U")
        b.rotate(f32(i["angle"]))
        return u_obs(b)

    def op_u_gen_vertices(self, i):
        b = self.get(i, "v", "U")
        b.gen_vertices()
        return repr(b)

    def op_u_get_vertices(self, i):
        p = self.get(i, "v", "U").get_vertices()
        self.put(i, p, "Poly")
        return poly_obs(p)

    def op_u_get_radius(self, i):
        return jf(self.get(i, "v", "U").get_radius())

    def op_u_area(self, i):
        return jf(self.get(i, "v", "U").area())

    def op_u_as_ltwh(self, i):
        b = self.get(i, "v", "U").as_ltwh()
        self.put(i, b, "BB")
        return bb_obs(b)

    def op_u_str(self, i):
        b = self.get(i, "v", "U")
        return [repr(b), str(b)]

    def op_poly_points(self, i):
        return poly_obs(self.get(i, "v", "Poly"))

    def op_poly_repr(self, i):
        p = self.get(i, "v", "Poly")
        return [repr(p), str(p)]

    # ---- functions ----
    def boxes(self, i, key, conv):
        out = []
        for (v, c) in i[key]:
            if v not in self.vars or self.kinds[v] != "U":
                raise Skip()
            out.append((self.vars[v], None if c is None else conv(c)))
        return out

    def op_nms(self, i):
        dets = self.boxes(i, "dets", f32)
        r = self.S.nms(dets, f32(i["nms_threshold"]), None if i.get("score_threshold") is None else f32(i["score_threshold"]))
        return [u_obs(b) for b in r]

    def op_clip(self, i):
        p = self.S.sutherland_hodgman_clip(self.get(i, "a", "U"), self.get(i, "b", "U"))
        self.put(i, p, "Poly")
        return poly_obs(p)

    def op_intersection_area(self, i):
        return jd(self.S.intersection_area(self.get(i, "a", "U"), self.get(i, "b", "U")))

    # ---- Kalman ----
    def op_kf_new(self, i):
        self.put(i, self.S.Universal2DBoxKalmanFilter(**self.opt_kwargs(i, ("position_weight", "velocity_weight"))), "KF")
        return None

    def op_kf_initiate(self, i):
        s = self.get(i, "kf", "KF").initiate(self.get(i, "box", "U"))
        self.put(i, s, "KFS")
        return kfs_obs(s)

    def op_kf_predict(self, i):
        s = self.get(i, "kf", "KF").predict(self.get(i, "st", "KFS"))
        self.put(i, s, "KFS")
        return kfs_obs(s)

    def op_kf_update(self, i):
        s = self.get(i, "kf", "KF").update(self.get(i, "st", "KFS"), self.get(i, "box", "U"))
        self.put(i, s, "KFS")
        return kfs_obs(s)

    def op_kf_distance(self, i):
        return jf(self.get(i, "kf", "KF").distance(self.get(i, "st", "KFS"), self.get(i, "box", "U")))

    def op_kf_cost(self, i):
        return jf(self.S.Universal2DBoxKalmanFilter.calculate_cost(f32(i["distance"]), bool(i.get("inverted"))))

    def op_pkf_new(self, i):
        self.put(i, self.S.Point2DKalmanFilter(**self.opt_kwargs(i, ("position_weight", "velocity_weight"))), "PKF")
        return None

    def op_pkf_initiate(self, i):
        s = self.get(i, "kf", "PKF").initiate(f32(i["x"]), f32(i["y"]))
        self.put(i, s, "PKFS")
        return pkfs_obs(s)

    def op_pkf_predict(self, i):
        s = self.get(i, "kf", "PKF").predict(self.get(i, "st", "PKFS"))
        self.put(i, s, "PKFS")
        return pkfs_obs(s)

    def op_pkf_update(self, i):
        s = self.get(i, "kf", "PKF").update(self.get(i, "st", "PKFS"), f32(i["x"]), f32(i["y"]))
        self.put(i, s, "PKFS")
        return pkfs_obs(s)

    def op_pkf_distance(self, i):
        return jf(self.get(i, "kf", "PKF").distance(self.get(i, "st", "PKFS"), f32(i["x"]), f32(i["y"])))

    def op_pkf_cost(self, i):
        return jf(self.S.Point2DKalmanFilter.calculate_cost(f32(i["distance"]), bool(i.get("inverted"))))

    def op_vkf_new(self, i):
        self.put(i, self.S.Vec2DKalmanFilter(**self.opt_kwargs(i, ("position_weight", "velocity_weight"))), "VKF")
        return None

    @staticmethod
    def pts(i):
        return [(f32(a), f32(b)) for (a, b) in i["points"]]

    def op_vkf_initiate(self, i):
        s = self.get(i, "kf", "VKF").initiate(self.pts(i))
        self.put(i, s, "VKFS")
        return [pkfs_obs(x) for x in s]

    def op_vkf_predict(self, i):
        s = self.get(i, "kf", "VKF").predict(self.get(i, "st", "VKFS"))
        self.put(i, s, "VKFS")
        return [pkfs_obs(x) for x in s]

    def op_vkf_update(self, i):
        s = self.get(i, "kf", "VKF").update(self.get(i, "st", "VKFS"), self.pts(i))
        self.put(i, s, "VKFS")
        return [pkfs_obs(x) for x in s]

    def op_vkf_distance(self, i):
        return [jf(x) for x in self.get(i, "kf", "VKF").distance(self.get(i, "st", "VKFS"), self.pts(i))]

    def op_vkf_cost(self, i):
        return [jf(x) for x in self.S.Vec2DKalmanFilter.calculate_cost([f32(x) for x in i["distances"]], bool(i.get("inverted")))]

    # ---- metric types, constraints, options ----
    def op_pmt_maha(self, i):
        m = self.S.PositionalMetricType.maha()
        self.put(i, m, "PMT")
        return [repr(m), str(m)]

    def op_pmt_iou(self, i):
        m = self.S.PositionalMetricType.iou(f32(i["threshold"]))
        self.put(i, m, "PMT")
        return [repr(m), str(m)]

    def op_vmt_euclidean(self, i):
        m = self.S.VisualSortMetricType.euclidean(f32(i["threshold"]))
        self.put(i, m, "VMT")
        return [repr(m), str(m)]

    def op_vmt_cosine(self, i):
        m = self.S.VisualSortMetricType.cosine(f32(i["threshold"]))
        self.put(i, m, "VMT")
        return [repr(m), str(m)]

    def op_stc_new(self, i):
        self.put(i, self.S.SpatioTemporalConstraints(), "STC")
        return None

    def op_stc_add(self, i):
        self.get(i, "v", "STC").add_constraints([(a, f32(b)) for (a, b) in i["constraints"]])
        return None

    def op_stc_validate(self, i):
        return self.get(i, "v", "STC").validate(i["epoch_delta"], f32(i["dist"]))

    def op_vso_new(self, i):
        o = self.S.VisualSortOptions()
        self.put(i, o, "VSO")
        return [repr(o), str(o)]

    def op_vso_set(self, i):
        o = self.get(i, "v", "VSO")
        m = i["method"]
        if "n" in i:
            a = i["n"]
        elif "x" in i:
            a = f32(i["x"])
        else:
            a = self.get(i, "arg", {"visual_metric": "VMT", "positional_metric": "PMT", "spatio_temporal_constraints": "STC"}[m])
        getattr(o, m)(a)
        return [repr(o), str(o)]

    # ---- trackers ----
    def tracker_kwargs(self, i, ikeys):
        kw = self.opt_kwargs(i, ("min_confidence", "kalman_position_weight", "kalman_velocity_weight"), ikeys)
        if "method" in i:
            kw["method"] = self.get(i, "method", "PMT")
        if "spatio_temporal_constraints" in i:
            kw["spatio_temporal_constraints"] = self.get(i, "spatio_temporal_constraints", "STC")
        return kw

    def op_sort_new(self, i):
        self.put(i, self.S.Sort(**self.tracker_kwargs(i, ("shards", "bbox_history", "max_idle_epochs"))), "Sort")
        return None

    def op_bs_new(self, i):
        self.put(i, self.S.BatchSort(**self.tracker_kwargs(i, ("distance_shards", "voting_shards", "bbox_history", "max_idle_epochs"))), "BS")
        return None

    def op_vs_new(self, i):
        self.put(i, self.S.VisualSort(i["shards"], self.get(i, "opts", "VSO")), "VS")
        return None

    def op_bvs_new(self, i):
        self.put(i, self.S.BatchVisualSort(i["distance_shards"], i["voting_shards"], self.get(i, "opts", "VSO")), "BVS")
        return None

    def op_t_predict(self, i):
        t = self.get(i, "v", ("Sort", "VS"))
        if self.kinds[i["v"]] == "Sort":
            boxes = self.boxes(i, "boxes", int)
            r = t.predict(boxes) if "scene" not in i else t.predict_with_scene(i["scene"], boxes)
        else:
            s = self.get(i, "set", "VSet")
            r = t.predict(s) if "scene" not in i else t.predict_with_scene(i["scene"], s)
        return [track_obs(x) for x in r]

    op_t_predict_scene = op_t_predict

    def op_t_batch_predict(self, i):
        t = self.get(i, "v", ("BS", "BVS"))
        req = self.get(i, "req", "SReq" if self.kinds[i["v"]] == "BS" else "VReq")
        return drain(t.predict(req))

    def op_t_batch_predict_nodrain(self, i):
        t = self.get(i, "v", "BVS")
        res = t.predict(self.get(i, "req", "VReq"))
        self.put(i, res, "Res")
        return {"batch_size": res.batch_size()}

    def op_t_skip_epochs(self, i):
        t = self.get(i, "v", ("Sort", "VS", "BS", "BVS"))
        if "scene" in i:
            t.skip_epochs_for_scene(i["scene"], i["n"])
        else:
            t.skip_epochs(i["n"])
        return None

    op_t_skip_epochs_for_scene = op_t_skip_epochs

    def op_t_current_epoch(self, i):
        t = self.get(i, "v", ("Sort", "VS", "BS", "BVS"))
        return t.current_epoch_with_scene(i["scene"]) if "scene" in i else t.current_epoch()

    op_t_current_epoch_with_scene = op_t_current_epoch

    def op_t_idle_tracks(self, i):
        t = self.get(i, "v", ("Sort", "VS", "BS", "BVS"))
        k = self.kinds[i["v"]]
        if "scene" not in i:
            r = t.idle_tracks()           # only generated for Sort / VisualSort (the batch wrappers require scene_id)
        elif k == "Sort":
            r = t.idle_tracks_with_scene(i["scene"])
        elif k == "VS":
            r = t.idle_tracks_with_scene_py(i["scene"])
        else:
            r = t.idle_tracks(i["scene"])
        return [track_obs(x) for x in r]

    op_t_idle_tracks_with_scene = op_t_idle_tracks

    def op_t_wasted(self, i):
        t = self.get(i, "v", ("Sort", "VS", "BS", "BVS"))
        f = wasted_obs if self.kinds[i["v"]] in ("Sort", "BS") else vwasted_obs
        return [f(x) for x in t.wasted()]

    def op_t_clear_wasted(self, i):
        self.get(i, "v", ("Sort", "VS", "BS", "BVS")).clear_wasted()
        return None

    def op_t_shard_stats(self, i):
        return list(self.get(i, "v", ("Sort", "VS", "BS", "BVS")).shard_stats())

    # ---- requests, observations ----
    def op_sreq_new(self, i):
        self.put(i, self.S.SortPredictionBatchRequest(), "SReq")
        return None

    def op_sreq_add(self, i):
        r = self.get(i, "v", "SReq")
        b = self.get(i, "box", "U")
        if "custom_object_id" in i:
            r.add(i["scene"], b, i["custom_object_id"])
        else:
            r.add(i["scene"], b)
        return None

    def op_obs_new(self, i):
        f = i.get("feature")
        o = self.S.VisualSortObservation(None if f is None else [f32(x) for x in f],
                                         None if i.get("feature_quality") is None else f32(i["feature_quality"]),
                                         self.get(i, "box", "U"), i.get("custom_object_id"))
        self.put(i, o, "VObs")
        return [repr(o), str(o)]

    def op_set_new(self, i):
        self.put(i, self.S.VisualSortObservationSet(), "VSet")
        return None

    def op_set_add(self, i):
        s = self.get(i, "v", "VSet")
        s.add(self.get(i, "obs", "VObs"))
        return None

    def op_set_str(self, i):
        s = self.get(i, "v", "VSet")
        return [repr(s), str(s)]

    def op_vreq_new(self, i):
        self.put(i, self.S.VisualSortPredictionBatchRequest(), "VReq")
        return None

    def op_vreq_add(self, i):
        r = self.get(i, "v", "VReq")
        r.add(i["scene"], self.get(i, "obs", "VObs"))
        return None

    def op_vreq_prediction(self, i):
        p = self.get(i, "v", "VReq").prediction()
        if p is None:
            return None
        self.put(i, p, "Res")
        return {"batch_size": p.batch_size(), "ready": p.ready()}

    def op_res_state(self, i):
        p = self.get(i, "v", "Res")
        ready = p.ready()
        k = 0
        while not ready and k < i["wait_ms"]:
            time.sleep(0.001)
            ready = p.ready()
            k += 1
        return {"batch_size": p.batch_size(), "ready": ready}


if __name__ == "__main__":
    main()
