"""C08 - oriented-box intersection, IoU and the `too_far` pre-filter.

proof (Props/C08.v)  +  exact-rational correspondence with the real clipper / IoU / too_far (harness bin `geom`)
+  property oracles applied directly to the implementation's answers (python, exact Fractions).

The exact geometry helpers at the top of this file are also used by c15.py.
"""
import json
import math
import os
import struct
import time
from collections import Counter
from fractions import Fraction as Fr

import vlib
from vlib import q_lit


def F32(bits):
    """exact value of a binary32 bit pattern; non-finite values stay floats (nan / inf)"""
    v = vlib.f32_bits_to_float(bits)
    return Fr(v) if math.isfinite(v) else v


def F64(bits):
    v = vlib.f64_bits_to_float(bits)
    return Fr(v) if math.isfinite(v) else v


def finite(x):
    return isinstance(x, Fr) or (isinstance(x, (int, float)) and math.isfinite(x))

KEY_KNOWN = "C08:sh-clip:collinear-edges"

PREAMBLE = """From Coq Require Import List ZArith QArith.
From Similari Require Import Base.Num Model.Geom.
Import ListNotations.
Open Scope Q_scope.
"""

# --------------------------------------------------------------------------------------------------
# parsing of harness records


def parse_box(s):
    p = s.split(":")
    return {"xc": F32(int(p[0])), "yc": F32(int(p[1])), "angle": None if p[2] == "N" else F32(int(p[2])),
            "asp": F32(int(p[3])), "h": F32(int(p[4])), "txt": s}


def parse_ring(s):
    """closed ring as geo stores it -> list of exact points; 'E' -> [], 'P' -> None"""
    if s == "P":
        return None
    if s == "E":
        return []
    return [tuple(F64(int(x)) for x in p.split(":")) for p in s.split(",")]


def p_f64(s):
    return None if s == "P" else F64(int(s))


def p_f32o(s):
    """Option<f32> result: 'P' -> 'P', 'N' -> None, else Fraction"""
    if s == "P":
        return "P"
    if s == "N":
        return None
    return F32(int(s))


def p_bool(s):
    return None if s == "P" else (s == "1")


def parse_pair(line):
    toks = line.split()
    d = dict(t.split("=", 1) for t in toks[2:])
    r = {"k": int(toks[1]), "cfg": d["cfg"], "raw": line, "a": parse_box(d["a"]), "b": parse_box(d["b"])}
    ca, sa = d["csa"].split(":")
    cb, sb = d["csb"].split(":")
    r["csa"] = (F64(int(ca)), F64(int(sa)))
    r["csb"] = (F64(int(cb)), F64(int(sb)))
    r["va"] = parse_ring(d["va"])[:-1]
    r["vb"] = parse_ring(d["vb"])[:-1]
    r["va_ring"] = parse_ring(d["va"])
    for k in ("clip", "clip_ba", "clipm"):
        r[k] = parse_ring(d[k])
    for k in ("inter", "inter_ba"):
        r[k] = p_f64(d[k])
    for k in ("iou", "iou_ba", "iouv", "iou_aa", "iou_bb"):
        r[k] = p_f32o(d[k])
    r["tf"] = p_bool(d["tf"])
    r["tf_ba"] = p_bool(d["tf_ba"])
    r["area32"] = tuple(F32(int(x)) for x in d["area"].split(":"))
    r["rad32"] = tuple(F32(int(x)) for x in d["rad"].split(":"))
    if "la" in d:
        r["la"] = tuple(F32(int(x)) for x in d["la"].split(":"))
        r["lb"] = tuple(F32(int(x)) for x in d["lb"].split(":"))
        r["aa"] = p_f64(d["aa"])
        r["aa_ba"] = p_f64(d["aa_ba"])
        r["aaiou"] = p_f32o(d["aaiou"])
        r["aaiou_ba"] = p_f32o(d["aaiou_ba"])
    if "mt" in d:
        x, y = d["mt"].split(";")
        r["mt"] = (parse_box(x), parse_box(y))
        r["iou_mt"] = p_f32o(d["iou_mt"])
    if "mr" in d:
        x, y = d["mr"].split(";")
        r["mr"] = (parse_box(x), parse_box(y))
        r["iou_mr"] = p_f32o(d["iou_mr"])
    return r


def pair_line(cfg, a_txt, b_txt, mt=None, mr=None):
    s = "pair cfg=%s a=%s b=%s" % (cfg, a_txt, b_txt)
    if mt:
        s += " mt=%s;%s" % mt
    if mr:
        s += " mr=%s;%s" % mr
    return s


# --------------------------------------------------------------------------------------------------
# exact geometry on Fractions (independent of the Coq model)


def cross(p1, p2, q):
    return (p2[0] - p1[0]) * (q[1] - p1[1]) - (p2[1] - p1[1]) * (q[0] - p1[0])


def edges(poly):
    return [(poly[i - 1], poly[i]) for i in range(len(poly))]


def signed2(poly):
    return sum(p[0] * q[1] - p[1] * q[0] for p, q in edges(poly))


def area(poly):
    return abs(signed2(poly)) / 2 if poly else Fr(0)


def in_poly(poly, q):
    """closed convex polygon given clockwise (the orientation of bbox.rs): on the right of / on every edge"""
    return all(cross(a, b, q) <= 0 for a, b in edges(poly))


def seg_cross(p1, p2, q1, q2):
    rx, ry = p2[0] - p1[0], p2[1] - p1[1]
    sx, sy = q2[0] - q1[0], q2[1] - q1[1]
    d = rx * sy - ry * sx
    if d == 0:
        return None
    wx, wy = q1[0] - p1[0], q1[1] - p1[1]
    t = (wx * sy - wy * sx) / d
    u = (wx * ry - wy * rx) / d
    if 0 <= t <= 1 and 0 <= u <= 1:
        return (p1[0] + t * rx, p1[1] + t * ry)
    return None


def hull(points):
    """Andrew's monotone chain on exact points (counter-clockwise, collinear points dropped)."""
    pts = sorted(set(points))
    if len(pts) <= 2:
        return pts

    def half(seq):
        h = []
        for p in seq:
            while len(h) >= 2 and cross(h[-2], h[-1], p) <= 0:
                h.pop()
            h.append(p)
        return h
    lo = half(pts)
    up = half(reversed(pts))
    return lo[:-1] + up[:-1]


def common_points(P, Q):
    pts = [p for p in P if in_poly(Q, p)] + [q for q in Q if in_poly(P, q)]
    for a, b in edges(P):
        for c, d in edges(Q):
            x = seg_cross(a, b, c, d)
            if x is not None:
                pts.append(x)
    return pts


def true_inter_area(P, Q):
    """exact area of the intersection of two convex polygons: every vertex of the intersection is a vertex of one
    polygon lying in the other or a crossing of two edges; the intersection is their convex hull."""
    return area(hull(common_points(P, Q)))


def rect_exact(b, cs):
    """the ideal rectangle of a box from exact (cos, sin), vertex order of bbox.rs"""
    c, s = cs
    hw = b["h"] * b["asp"] / 2
    hh = b["h"] / 2
    r1 = (-hw * c - hh * s, -hw * s + hh * c)
    r2 = (hw * c - hh * s, hw * s + hh * c)
    x, y = b["xc"], b["yc"]
    return [(x + r1[0], y + r1[1]), (x + r2[0], y + r2[1]), (x - r1[0], y - r1[1]), (x - r2[0], y - r2[1])]


def rect_f64(b, cs):
    """bbox.rs:287-330 replayed in binary64 (python floats are IEEE doubles; no fused operations)"""
    c, s = float(cs[0]), float(cs[1])
    height, aspect = float(b["h"]), float(b["asp"])
    hw = height * aspect / 2.0
    hh = height / 2.0
    r1x = -hw * c - hh * s
    r1y = -hw * s + hh * c
    r2x = hw * c - hh * s
    r2y = hw * s + hh * c
    x, y = float(b["xc"]), float(b["yc"])
    return [(x + r1x, y + r1y), (x + r2x, y + r2y), (x - r1x, y - r1y), (x - r2x, y - r2y)]


def sh_clip_exact(subj, clip):
    """Sutherland-Hodgman exactly as clipping.rs, on Fractions; also returns the smallest |cross| met in an
    inside-test, normalised by (clip edge length * extent): how far the run was from a different decision."""
    out = list(subj)
    ext = max([abs(float(v)) for p in subj + clip for v in p] + [1e-300])
    size = max(max(float(p[0]) for p in subj + clip) - min(float(p[0]) for p in subj + clip),
               max(float(p[1]) for p in subj + clip) - min(float(p[1]) for p in subj + clip), 1e-300)
    margin = float("inf")
    for i in range(len(clip)):
        cs_, ce = clip[i - 1], clip[i]
        el = math.hypot(float(ce[0] - cs_[0]), float(ce[1] - cs_[1])) or 1e-300
        nxt, out = out, []
        for j in range(len(nxt)):
            s, e = nxt[j - 1], nxt[j]
            re_, rs = cross(cs_, ce, e), cross(cs_, ce, s)
            # absolute rounding error of the f64 cross product is about eps * extent * length
            for r in (re_, rs):
                margin = min(margin, abs(float(r)) / (el * size), abs(float(r)) / (el * ext * 1e-3))
            if re_ <= 0:
                if not rs <= 0:
                    out.append(line_x(s, e, cs_, ce))
                out.append(e)
            elif rs <= 0:
                out.append(line_x(s, e, cs_, ce))
    return out, margin


def line_x(cp1, cp2, s, e):
    """compute_intersection of clipping.rs (parametric along the subject segment cp1-cp2, clamped)"""
    d1 = cross(s, e, cp1)
    d2 = cross(s, e, cp2)
    t = d1 / (d1 - d2)
    t = Fr(0) if t < 0 else (Fr(1) if t > 1 else t)
    return (cp1[0] + t * (cp2[0] - cp1[0]), cp1[1] + t * (cp2[1] - cp1[1]))


def close_ring(l):
    if not l:
        return []
    return list(l) if l[0] == l[-1] else list(l) + [l[0]]


def collinear_family(P, Q, tol=1e-7):
    """some edge of one rectangle lies (numerically) on the line of an edge of the other one"""
    size = max(max(float(p[0]) for p in P + Q) - min(float(p[0]) for p in P + Q),
               max(float(p[1]) for p in P + Q) - min(float(p[1]) for p in P + Q), 1e-300)
    for A, B in ((P, Q), (Q, P)):
        for u, v in edges(B):
            el = math.hypot(float(v[0] - u[0]), float(v[1] - u[1])) or 1e-300
            for p, q in edges(A):
                if abs(float(cross(u, v, p))) <= tol * el * size and abs(float(cross(u, v, q))) <= tol * el * size:
                    return True
    return False


def known_family(r):
    """The input class of the known finding C08:sh-clip:collinear-edges: two DIFFERENT boxes, really rotated (cos and
    sin both non-zero), with an edge of one lying on an edge line of the other.  Axis-aligned and identical boxes
    are computed exactly by the binary64 clipper and do not belong to it."""
    rot = all(cs[0] != 0 and cs[1] != 0 for cs in (r["csa"], r["csb"]))
    return rot and r["va"] != r["vb"] and collinear_family(r["va"], r["vb"])


# --------------------------------------------------------------------------------------------------
# f32 replay (double rounding through binary64 is innocuous for + - * / sqrt)


def r32(x):
    return struct.unpack("<f", struct.pack("<f", float(x)))[0]


def exact32(x):
    """x (Fraction) is exactly a binary32 number"""
    try:
        return Fr(r32(x)) == x
    except OverflowError:
        return False


def frac_sqrt(x):
    n, d = x.numerator, x.denominator
    rn, rd = math.isqrt(n), math.isqrt(d)
    return Fr(rn, rd) if rn * rn == n and rd * rd == d else None


def too_far_exact_decision(a, b):
    """(exact decision of d^2 > (r1+r2)^2 with real square roots, relative margin, every f32 step exact?)"""
    def rad2(x):
        hw = x["asp"] * x["h"] / 2
        hh = x["h"] / 2
        return hw, hh, hw * hw + hh * hh
    hwa, hha, ra2 = rad2(a)
    hwb, hhb, rb2 = rad2(b)
    dx, dy = a["xc"] - b["xc"], a["yc"] - b["yc"]
    d2 = dx * dx + dy * dy
    k = d2 - ra2 - rb2
    dec = k > 0 and k * k > 4 * ra2 * rb2
    lim = (math.sqrt(ra2) + math.sqrt(rb2)) ** 2
    margin = abs(float(d2) - lim) / lim
    ra, rb = frac_sqrt(ra2), frac_sqrt(rb2)
    ex = ra is not None and rb is not None and all(
        exact32(v) for v in (hwa, hha, hwa * hwa, hha * hha, ra2, ra, hwb, hhb, hwb * hwb, hhb * hhb, rb2, rb, ra + rb,
                             dx, dy, dx * dx, dy * dy, d2, (ra + rb) * (ra + rb)))
    return dec, margin, ex


# --------------------------------------------------------------------------------------------------
# tolerances (stated in DESIGN C08): areas / IoU 1e-6, plus what binary64 cancellation at large coordinates and
# binary32 arithmetic in the closed form can legitimately contribute


def scales(r):
    pts = r["va"] + r["vb"]
    M = max(abs(float(v)) for p in pts for v in p) + 1e-30
    dims = []
    for b in (r["a"], r["b"]):
        dims += [float(b["h"]), float(b["h"] * b["asp"])]
    smin = min(dims)
    return M, smin


def tol_iou(r):
    M, smin = scales(r)
    return 1e-6 + 4e-15 * (M / smin) ** 2


def tol_closed_form(r):
    M, smin = scales(r)
    return 1e-6 + 4e-7 * (M / smin)


# --------------------------------------------------------------------------------------------------
# property oracles on the implementation's answers (a direct reading of the property text)


def oracle(r):
    """returns (list of failure strings, info dict). Sound: only what the property forbids is flagged."""
    fails = []
    info = {}
    P, Q = r["va"], r["vb"]
    for k in ("clip", "clip_ba", "inter", "inter_ba", "tf", "tf_ba"):
        if r[k] is None:
            fails.append("panic in %s" % k)
    for k in ("iou", "iou_ba", "iouv", "iou_aa", "iou_bb"):
        if r[k] == "P":
            fails.append("panic in %s" % k)
    for k in ("inter", "inter_ba", "iou", "iou_ba", "iouv", "iou_aa", "iou_bb", "iou_mt", "iou_mr", "aa", "aaiou"):
        if k in r and r[k] is not None and r[k] != "P" and not finite(r[k]):
            fails.append("%s is not a finite number (%s)" % (k, r[k]))
    if fails:
        return fails, info
    # the polygons the clipper works on are the rectangles of the two boxes
    M, smin = scales(r)
    for nm, b, cs, V in (("a", r["a"], r["csa"], P), ("b", r["b"], r["csb"], Q)):
        ideal = rect_exact(b, cs)
        err = max(abs(float(x - y)) for p, q in zip(ideal, V) for x, y in zip(p, q))
        if err > 1e-9 * max(M, 1.0):
            fails.append("vertices of box %s are not its rectangle (err %.3g)" % (nm, err))
        ang = float(b["angle"]) if b["angle"] is not None else 0.0
        if abs(float(cs[0]) - math.cos(ang)) > 1e-12 or abs(float(cs[1]) - math.sin(ang)) > 1e-12:
            fails.append("cos/sin mismatch for box %s" % nm)
    area_a, area_b = area(P), area(Q)
    if fails or area_a == 0 or area_b == 0:
        # the polygons are not the boxes' rectangles: nothing below is meaningful
        return fails or ["degenerate vertex polygon"], info
    true_i = true_inter_area(P, Q)
    true_iou = true_i / (area_a + area_b - true_i)
    amin = min(area_a, area_b)
    info.update(true_inter=true_i, true_iou=true_iou, amin=amin)
    ti = tol_iou(r)
    band = 1e-9
    overlap = true_i > band * amin          # positive-area overlap, outside the guard band
    touching_or_less = true_i == 0
    info["overlap"] = overlap
    info["near_zero"] = (not overlap) and (not touching_or_less)

    def f(x):
        return float(x)
    # reported intersection area = true area (Universal2DBox::intersection, both argument orders)
    for nm in ("inter", "inter_ba"):
        if abs(f(r[nm]) - f(true_i)) > ti * f(amin) + 1e-300:
            fails.append("%s area %.9g but the true intersection area is %.9g" % (nm, f(r[nm]), f(true_i)))
    # IoU = intersection / union, in [0,1], symmetric, absent exactly when there is no overlap
    for nm in ("iou", "iou_ba", "iouv"):
        v = r[nm]
        if v is None:
            if overlap:
                fails.append("%s is None but the boxes overlap (true IoU %.9g)" % (nm, f(true_iou)))
        else:
            if not (0 <= v <= 1 + Fr(1, 10 ** 6)):
                fails.append("%s = %.9g lies outside [0,1]" % (nm, f(v)))
            if touching_or_less and f(v) > band:
                fails.append("%s = %.9g but the boxes do not overlap" % (nm, f(v)))
            if abs(f(v) - f(true_iou)) > ti + 2e-7:
                fails.append("%s = %.9g but intersection/union = %.9g" % (nm, f(v), f(true_iou)))
    # (None and a value inside the 1e-9 band around zero are not told apart: z() reads None as 0)
    def z(v):
        return 0.0 if v is None else f(v)
    va, vb = r["iou"], r["iou_ba"]
    if abs(z(va) - z(vb)) > 2 * ti + 2e-7:
        fails.append("IoU not symmetric: %s vs %s" % (None if va is None else f(va), None if vb is None else f(vb)))
    if r["iouv"] != r["iou"]:
        fails.append("VisualObservationAttributes IoU differs from Universal2DBox IoU")
    # identical boxes
    for nm in ("iou_aa", "iou_bb"):
        v = r[nm]
        if v is None or abs(f(v) - 1.0) > 1e-6:
            fails.append("%s of a box with itself is %s, not 1" % (nm, None if v is None else f(v)))
    # rigid motions
    if "mt" in r:
        at, bt = r["mt"]
        ok_t = (at["xc"] - r["a"]["xc"] == bt["xc"] - r["b"]["xc"]) and (at["yc"] - r["a"]["yc"] == bt["yc"] - r["b"]["yc"])
        if ok_t:
            info["translated"] = True
            v, w = r["iou"], r["iou_mt"]
            Mt = M + abs(f(at["xc"] - r["a"]["xc"])) + abs(f(at["yc"] - r["a"]["yc"]))
            tt = 2 * (1e-6 + 4e-15 * (Mt / smin) ** 2) + 2e-7
            if w == "P":
                fails.append("panic on the translated pair")
            elif abs(z(v) - z(w)) > tt:
                fails.append("translation changes IoU %s -> %s" % (None if v is None else f(v), None if w is None else f(w)))
    if "mr" in r:
        v, w = r["iou"], r["iou_mr"]
        info["rotated"] = True
        tr = 2e-3
        if w == "P":
            fails.append("panic on the rotated pair")
        elif abs(z(v) - z(w)) > tr:
            fails.append("common rotation changes IoU %s -> %s" % (None if v is None else f(v), None if w is None else f(w)))
    # closed form when neither box is rotated
    if "aa" in r:
        tc = tol_closed_form(r)
        if r["aa"] is None or r["aaiou"] == "P":
            fails.append("panic in the closed form")
        else:
            la, lb = r["la"], r["lb"]
            amin32 = min(la[2] * la[3], lb[2] * lb[3])
            if abs(f(r["aa"]) - f(r["inter"])) > tc * f(amin32):
                fails.append("closed-form intersection %.9g differs from the clipped area %.9g" % (f(r["aa"]), f(r["inter"])))
            if r["aa"] != r["aa_ba"]:
                fails.append("closed-form intersection is not symmetric")
            g = r["iou"] if r["iou"] is not None else Fr(0)
            if abs(f(r["aaiou"]) - f(g)) > tc:
                fails.append("closed-form IoU %.9g differs from the general IoU %.9g" % (f(r["aaiou"]), f(g)))
            # and the closed form itself against the exact rectangles it was given
            ix = min(la[0] + la[2], lb[0] + lb[2]) - max(la[0], lb[0])
            iy = min(la[1] + la[3], lb[1] + lb[3]) - max(la[1], lb[1])
            ex = ix * iy if ix > 0 and iy > 0 else Fr(0)
            if abs(f(r["aa"]) - f(ex)) > tc * f(amin32):
                fails.append("closed-form intersection %.9g but the rectangles intersect in %.9g" % (f(r["aa"]), f(ex)))
    # the pre-filter never rejects an overlapping pair
    if overlap and (r["tf"] or r["tf_ba"]):
        fails.append("too_far is true for boxes that overlap (true intersection %.9g)" % f(true_i))
    if r["tf"] != r["tf_ba"]:
        dec, margin, ex = too_far_exact_decision(r["a"], r["b"])
        if margin > 1e-5:
            fails.append("too_far is not symmetric")
    return fails, info


# --------------------------------------------------------------------------------------------------
# model side


def coq_pts(v):
    return "[" + "; ".join("(%s, %s)" % (q_lit(x), q_lit(y)) for x, y in v) + "]"


def coq_box(b, cs):
    return "(mkbox (num:=Qops) %s %s %s %s %s %s)" % (q_lit(b["xc"]), q_lit(b["yc"]), q_lit(cs[0]), q_lit(cs[1]),
                                                      q_lit(b["asp"]), q_lit(b["h"]))


def coq_ltwh(t):
    return "(mkltwh (num:=Qops) %s %s %s %s)" % tuple(q_lit(x) for x in t)


def frq(v):
    return Fr(v[0], v[1])


def model_exprs(r):
    ex = ["out_clip (run_clip %s %s)" % (coq_pts(r["va"]), coq_pts(r["vb"])),
          "out_clip (run_clip %s %s)" % (coq_pts(r["vb"]), coq_pts(r["va"])),
          "out_boxes (run_boxes %s %s)" % (coq_box(r["a"], r["csa"]), coq_box(r["b"], r["csb"]))]
    if "la" in r:
        ex.append("oq (aa_inter Qops %s %s)" % (coq_ltwh(r["la"]), coq_ltwh(r["lb"])))
    return ex


def pymodel(r):
    """Exact replay (Fractions) of every definition of Model/Geom.v that the check uses.  On the Coq-evaluated
    subset the replay is compared term by term, exactly, with what coqc computes (compare_coq); the replay is
    then what the implementation is compared with on every case (compare_impl)."""
    pm = {}
    pm["clip"], pm["margin"] = sh_clip_exact(r["va"], r["vb"])
    pm["clip_ba"], pm["margin_ba"] = sh_clip_exact(r["vb"], r["va"])
    pm["area"], pm["area_ba"] = area(pm["clip"]), area(pm["clip_ba"])
    a, b = r["a"], r["b"]
    pm["va"], pm["vb"] = rect_exact(a, r["csa"]), rect_exact(b, r["csb"])
    dec, margin, ex = too_far_exact_decision(a, b)
    pm["tf"], pm["tf_margin"], pm["tf_exact32"] = dec, margin, ex
    pm["inter"] = Fr(0) if dec else area(sh_clip_exact(pm["va"], pm["vb"])[0])
    ua = a["h"] * a["h"] * a["asp"] + b["h"] * b["h"] * b["asp"]
    pm["iou"] = None if pm["inter"] == 0 else pm["inter"] / (ua - pm["inter"])
    if "la" in r:
        la, lb = r["la"], r["lb"]
        ix = min(la[0] + la[2], lb[0] + lb[2]) - max(la[0], lb[0])
        iy = min(la[1] + la[3], lb[1] + lb[3]) - max(la[1], lb[1])
        pm["aa"] = ix * iy if ix > 0 and iy > 0 else Fr(0)
    return pm


def qv(v):
    return Fr(v[0], v[1])


def qpts(l):
    return [(Fr(p[0], p[1]), Fr(p[2], p[3])) for p in l]


def compare_coq(r, pm, vals):
    """what coqc computed (vm_compute on Qops) vs the python replay: exact equality"""
    dis = []
    for nm, anm, val, P, Q in (("clip", "area", vals[0], r["va"], r["vb"]), ("clip_ba", "area_ba", vals[1], r["vb"], r["va"])):
        pts, a_m, a_ref, eq = val
        if qpts(pts) != pm[nm]:
            dis.append("MODEL: sh_clip (%s) in Coq differs from the python replay" % nm)
        if qv(a_m) != pm[anm]:
            dis.append("MODEL: shoelace (%s) in Coq differs from the python replay" % nm)
        if not eq:
            dis.append("MODEL: clip area %.12g differs from inter_area_ref %.12g inside Coq (%s)" % (float(qv(a_m)), float(qv(a_ref)), nm))
        if qv(a_ref) != true_inter_area(P, Q):
            dis.append("MODEL: inter_area_ref in Coq differs from the python hull reference (%s)" % nm)
    tf_m, ia_m, iou_m, va_m, vb_m = vals[2]
    if tf_m != pm["tf"]:
        dis.append("MODEL: sqrt-free too_far in Coq differs from the sqrt form")
    if qv(ia_m) != pm["inter"]:
        dis.append("MODEL: inter_area in Coq differs from the python replay")
    if (None if not iou_m else qv(iou_m)) != pm["iou"]:
        dis.append("MODEL: iou in Coq differs from the python replay")
    if qpts(va_m) != pm["va"] or qpts(vb_m) != pm["vb"]:
        dis.append("MODEL: rect_vertices in Coq differs from the python replay")
    if "la" in r and qv(vals[3]) != pm["aa"]:
        dis.append("MODEL: aa_inter in Coq differs from the python replay")
    return dis


def compare_impl(r, pm, stats):
    """model (exact replay) vs implementation; returns list of disagreement strings"""
    dis = []
    M, smin = scales(r)
    ti = tol_iou(r)
    amin = float(min(area(r["va"]), area(r["vb"])))
    # --- clipper on the implementation's own vertices, both orders
    for (nm, inm, anm, mnm, tfn) in (("clip", "inter", "area", "margin", "tf"), ("clip_ba", "inter_ba", "area_ba", "margin_ba", "tf_ba")):
        pts, a_m, margin = pm[nm], pm[anm], pm[mnm]
        impl = r[nm]
        if any(not finite(v) for q in impl for v in q) or not finite(r[inm]):
            dis.append("%s: the implementation's output contains non-finite numbers" % nm)
            continue
        ring = close_ring(pts)
        d = None
        if len(ring) != len(impl):
            d = "%s: model has %d ring vertices, implementation %d" % (nm, len(ring), len(impl))
        else:
            for (p, q) in zip(ring, impl):
                if max(abs(float(p[0] - q[0])), abs(float(p[1] - q[1]))) > 1e-9 * max(M, 1.0) + 1e-7 * smin:
                    d = "%s: vertex %s vs implementation %s" % (nm, (float(p[0]), float(p[1])), (float(q[0]), float(q[1])))
                    break
        if d is not None and margin < 1e-9:
            # some inside-test of the exact run is (numerically) a tie: binary64 may legitimately decide it the
            # other way; the vertex lists are then not comparable (the areas below still are)
            stats["near_tie_clip"] += 1
        else:
            stats["clip_lists_compared"] += 1
            if d is not None:
                dis.append(d)
        # area: Universal2DBox::intersection is 0 when too_far, the clipped area otherwise
        expect = Fr(0) if r[tfn] else a_m
        if abs(float(r[inm]) - float(expect)) > ti * amin + 1e-300:
            dis.append("%s: implementation area %.12g, model %.12g" % (inm, float(r[inm]), float(expect)))
    # the method Universal2DBox::sutherland_hodgman_clip must agree with the free function
    if r["clipm"] != r["clip"] and not any(not finite(v) for q in r["clip"] for v in q):
        dis.append("Universal2DBox::sutherland_hodgman_clip differs from sutherland_hodgman_clip on get_vertices")
    # --- box level, ideal rectangles from the f32 fields and the implementation's cos/sin
    for (V, Vm, nm) in ((r["va"], pm["va"], "a"), (r["vb"], pm["vb"], "b")):
        for p, q in zip(V, Vm):
            if max(abs(float(p[0] - q[0])), abs(float(p[1] - q[1]))) > 1e-9 * max(M, 1.0):
                dis.append("rect_vertices of box %s: implementation %s model %s" % (nm, (float(p[0]), float(p[1])), (float(q[0]), float(q[1]))))
                break
    # bit-exact replay of the vertex code in binary64
    for (b, cs, V, nm) in ((r["a"], r["csa"], r["va"], "a"), (r["b"], r["csb"], r["vb"], "b")):
        if [(Fr(x), Fr(y)) for x, y in rect_f64(b, cs)] != V:
            dis.append("get_vertices of box %s is not the binary64 evaluation of the modelled formula" % nm)
    tf_m, margin, ex = pm["tf"], pm["tf_margin"], pm["tf_exact32"]
    if margin > 1e-5 or ex:
        stats["too_far_compared"] += 1
        if ex and margin <= 1e-5:
            stats["too_far_boundary_exact"] += 1
        if r["tf"] != tf_m or r["tf_ba"] != tf_m:
            dis.append("too_far: implementation %s/%s, model %s (relative margin %.3g)" % (r["tf"], r["tf_ba"], tf_m, margin))
    else:
        stats["near_tie_too_far"] += 1
    if r["tf"] == tf_m and finite(r["inter"]):
        ia_m, iou_m = pm["inter"], pm["iou"]
        band = 1e-9
        if abs(float(r["inter"]) - float(ia_m)) > (ti + 1e-9) * amin + 1e-300:
            dis.append("inter_area: implementation %.12g, model on the ideal rectangles %.12g" % (float(r["inter"]), float(ia_m)))
        v = r["iou"]
        if (v is None) != (iou_m is None):
            if float(ia_m) > band * amin or (ia_m == 0 and v is not None and float(v) > band):
                dis.append("IoU: implementation %s, model %s" % (v, iou_m))
            else:
                stats["near_tie_none"] += 1
        elif v is not None and finite(v) and abs(float(v) - float(iou_m)) > ti + 2e-7:
            dis.append("IoU: implementation %.9g, model %.9g" % (float(v), float(iou_m)))
    if "la" in r and r["aa"] is not None:
        la, lb = r["la"], r["lb"]
        amin32 = float(min(la[2] * la[3], lb[2] * lb[3]))
        if abs(float(r["aa"]) - float(pm["aa"])) > tol_closed_form(r) * amin32:
            dis.append("aa_inter: implementation %.12g, model %.12g" % (float(r["aa"]), float(pm["aa"])))
        stats["closed_form_compared"] += 1
    return dis


# --------------------------------------------------------------------------------------------------
# running the implementation on chosen inputs, shrinking


def f32_txt(x):
    return str(struct.unpack("<I", struct.pack("<f", float(x)))[0])


def box_txt(b):
    return ":".join([f32_txt(b["xc"]), f32_txt(b["yc"]), "N" if b["angle"] is None else f32_txt(b["angle"]),
                     f32_txt(b["asp"]), f32_txt(b["h"])])


def run_eval(lines, tag="c08"):
    path = os.path.join(vlib.ALT or vlib.CACHE, "%s_eval_%d.txt" % (tag, os.getpid()))
    with open(path, "w") as fh:
        fh.write("\n".join(lines) + "\n")
    rc, out, err = vlib.harness_run("geom", ["eval", "--file", path])
    os.remove(path)
    return [l for l in out.split("\n") if l.startswith("pair ") or l.startswith("set ") or l.startswith("seq ") or l.startswith("sseq ")]


def eval_pair(a, b, cfg="replay"):
    ls = run_eval([pair_line(cfg, box_txt(a), box_txt(b))])
    return parse_pair(ls[0]) if ls else None


def round_bits(x, bits):
    x = float(x)
    if x == 0:
        return Fr(0)
    m, e = math.frexp(x)
    return Fr(round(m * (1 << bits)), 1 << bits) * Fr(2) ** e


def shrink_pair(r, pred):
    """make the failing pair simpler while [pred] (on a parsed record) still holds"""
    a, b = dict(r["a"]), dict(r["b"])

    def still(x, y):
        rr = eval_pair(x, y)
        return rr is not None and pred(rr)
    # move box a to the origin
    x, y = dict(a), dict(b)
    y["xc"], y["yc"] = Fr(r32(b["xc"] - a["xc"])), Fr(r32(b["yc"] - a["yc"]))
    x["xc"], x["yc"] = Fr(0), Fr(0)
    if still(x, y):
        a, b = x, y
    # fewer significant bits, field by field
    for which in (0, 1):
        for fld in ("xc", "yc", "angle", "asp", "h"):
            cur = (a, b)[which]
            if cur[fld] is None:
                continue
            for bits in (2, 4, 6, 8, 11, 14, 18):
                cand = dict(cur)
                cand[fld] = round_bits(cur[fld], bits)
                if fld in ("asp", "h") and cand[fld] <= 0:
                    continue
                if cand[fld] == cur[fld]:
                    break
                pa, pb = (cand, b) if which == 0 else (a, cand)
                if still(pa, pb):
                    a, b = pa, pb
                    break
    return a, b


def decoded(b):
    return {"xc": float(b["xc"]), "yc": float(b["yc"]), "angle": None if b["angle"] is None else float(b["angle"]),
            "aspect": float(b["asp"]), "height": float(b["h"])}


REPLAY_CMD = ("printf '%s\\n' > /tmp/c08.txt && /verif/.cache/target/release/geom eval --file /tmp/c08.txt   "
              "# or: ./check C08 --replay <this file>")



# --------------------------------------------------------------------------------------------------
# API sequences: the reported values must be a function of the box's CURRENT fields (key C08:stale-vertex-cache)

KEY_STALE = "C08:stale-vertex-cache"
OP_NAMES = {"G": "gen_vertices()", "R": "rotate_mut(%s)", "r": "x = x.rotate(%s)", "X": "x.xc = %s", "Y": "x.yc = %s",
            "A": "x.aspect = %s", "H": "x.height = %s", "N": "x.angle = None", "a": "x.angle = Some(%s)",
            "C": "x = x.clone()", "S": "set_confidence(0.5)"}


def parse_seq(line):
    toks = line.split()
    d = dict(t.split("=", 1) for t in toks[2:6])
    rest = line.split(" cura=")[1]
    cura, rest = rest.split(" curb=")
    curb, rest = rest.split(" D=")
    D, F = rest.split(" F=")
    kv = lambda x: dict(t.split("=", 1) for t in x.strip().split(";"))
    return {"a": d["a"], "opsa": d["opsa"], "b": d["b"], "opsb": d["opsb"], "cura": cura, "curb": curb,
            "D": kv(D), "F": kv(F), "raw": line}


def seq_line(a, opsa, b, opsb):
    return "seq a=%s opsa=%s b=%s opsb=%s" % (a, opsa or "-", b, opsb or "-")


def seq_diff(q):
    """observables on which the mutated box and the fresh box with the same fields differ (clipmv apart)"""
    return [k for k in q["D"] if q["D"][k] != q["F"].get(k) and k != "clipmv"]


def cache_stale_at_end(ops, angle_some=True):
    """does the sequence end with generated vertices that no longer describe the fields (as the code stands: clone()
    and rotate() drop the cache, nothing else does)"""
    cached = stale = False
    for o in ([] if ops == "-" else ops.split(",")):
        c = o[0]
        if c == "G":
            if angle_some and not cached:
                cached, stale = True, False
        elif c in "rC":
            cached = stale = False
        elif c in "RXYAHNa":
            if c == "N":
                angle_some = False
            if c in "Ra":
                angle_some = True
            if cached:
                stale = True
    return stale


def describe_ops(ops):
    out = []
    for o in ([] if ops == "-" else ops.split(",")):
        t = OP_NAMES[o[0]]
        out.append(t % float(F32(int(o[2:]))) if "%s" in t else t)
    return out


def shrink_seq(q):
    a, b = q["a"], q["b"]
    opsa = [] if q["opsa"] == "-" else q["opsa"].split(",")
    opsb = [] if q["opsb"] == "-" else q["opsb"].split(",")

    d0 = seq_diff(q)
    target = next((k for k in ("iou", "inter", "iou_ba", "inter_ba", "iouv", "iou_self", "tf", "own", "clipc", "verts") if k in d0), d0[0])

    def fails(oa, ob):
        ls = [l for l in run_eval([seq_line(a, ",".join(oa), b, ",".join(ob))]) if l.startswith("seq ")]
        return bool(ls) and target in seq_diff(parse_seq(ls[0]))
    if fails(opsa, []):
        opsb = []
    changed = True
    while changed:
        changed = False
        for i in range(len(opsa)):
            cand = opsa[:i] + opsa[i + 1:]
            if fails(cand, opsb):
                opsa, changed = cand, True
                break
        if changed:
            continue
        for i in range(len(opsb)):
            cand = opsb[:i] + opsb[i + 1:]
            if fails(opsa, cand):
                opsb, changed = cand, True
                break
    return ",".join(opsa) or "-", ",".join(opsb) or "-"


# --------------------------------------------------------------------------------------------------


def run(chk):
    props = os.path.join(vlib.COQ, "theories", "Props", "C08.v")
    vlib.proof_stage(chk, props)
    if chk.tier == "thorough":
        vlib.coqchk_stage(chk, "Similari.Props.C08")

    ok, out = vlib.harness_build(["geom"])
    if not ok:
        chk.broken.append("harness build failed:\n" + out[-2000:])
        chk.violation("harness-build", "the correspondence harness does not build against /repo", {"log": out[-4000:]}, found_input=False)
        chk.coverage.update({"evaluations": 0})
        return
    n_oracle, n_model = (3000, 150) if chk.tier == "quick" else (30000, 1500)
    rc, out, err = vlib.harness_run("geom", ["pairs", "--seed", chk.seed, "--n", n_oracle])
    cases = [parse_pair(l) for l in out.split("\n") if l.startswith("pair ")]
    chk.log("implementation ran %d box pairs" % len(cases))
    # API sequences (gen_vertices, then mutations / clones): dirty box vs fresh box with the same fields, bit for bit;
    # the fresh pairs join the ordinary stream (oracles + model)
    n_seq = 1200 if chk.tier == "quick" else 12000
    rc, out, err = vlib.harness_run("geom", ["seqs", "--seed", chk.seed, "--n", n_seq])
    seqs = [parse_seq(l) for l in out.split("\n") if l.startswith("seq ")]
    stale = [q for q in seqs if seq_diff(q)]
    by_move_only = sum(1 for q in seqs if not seq_diff(q) and q["D"].get("clipmv") != q["F"].get("clipmv"))
    extra = run_eval([pair_line("seq", q["cura"], q["curb"]) for q in seqs[:(400 if chk.tier == "quick" else 3000)]])
    cases += [parse_pair(l) for l in extra if l.startswith("pair ")]
    chk.log("API sequences: %d run, %d with a stale observable, %d stale only through the by-move clip method" % (len(seqs), len(stale), by_move_only))

    hist = Counter()
    stats = Counter()
    nontrivial = set()
    failing = []           # (case, fails, known_family)
    infos = []
    for r in cases:
        hist["cfg=" + r["cfg"]] += 1
        fails, info = oracle(r)
        infos.append(info)
        if info.get("overlap"):
            stats["overlapping"] += 1
            if r["a"]["txt"] != r["b"]["txt"]:
                nontrivial.add((r["a"]["txt"], r["b"]["txt"]))
        elif info.get("near_zero"):
            stats["near_tie_zero_area"] += 1
        else:
            stats["disjoint_or_touching"] += 1
        if info.get("translated"):
            stats["translation_checked"] += 1
        if info.get("rotated"):
            stats["rotation_checked"] += 1
        if "aa" in r:
            stats["closed_form_checked"] += 1
        ang = lambda b: "none" if b["angle"] is None else ("zero" if b["angle"] == 0 else ("big" if abs(b["angle"]) > 6.3 else "other"))
        hist["angles=%s/%s" % (ang(r["a"]), ang(r["b"]))] += 1
        if fails:
            failing.append((r, fails, known_family(r)))
    chk.log("property oracles: %d failing pairs (%d in the collinear-edge family)" % (len(failing), sum(1 for f in failing if f[2])))

    # ---- model vs implementation ----
    # (1) exact python replay of Model/Geom.v against the implementation on EVERY pair
    disagreements = []
    pms = {}
    usable = lambda r: not any(r[k] is None for k in ("clip", "clip_ba", "inter", "inter_ba", "tf", "tf_ba")) and "P" not in (r["iou"], r["iou_ba"])
    for i, r in enumerate(cases):
        if not usable(r):
            continue
        pms[i] = pymodel(r)
        dis = compare_impl(r, pms[i], stats)
        if dis:
            disagreements.append((i, dis))
    # (2) the same terms evaluated by coqc (vm_compute, Qops) on a stratified subset: must equal the replay exactly,
    #     and inter_area = inter_area_ref is decided inside Coq
    model_ok = os.path.exists(os.path.join(vlib.COQ, "theories", "Model", "Geom.vo"))
    sel = []
    if model_ok:
        per_cfg = Counter()
        quota = max(4, n_model // 9)
        for i, r in enumerate(cases):
            if len(sel) >= n_model:
                break
            if i not in pms:
                continue
            if r["cfg"] != "corpus" and per_cfg[r["cfg"]] >= quota:
                continue
            per_cfg[r["cfg"]] += 1
            sel.append(i)
        exprs, owner = [], []
        for i in sel:
            ex = model_exprs(cases[i])
            exprs += ex
            owner.append(len(ex))
        t0 = time.time()
        try:
            vals = vlib.coq_eval(PREAMBLE, exprs, shard_size=3, timeout=2400, tag="c08")
            chk.log("model evaluated by coqc on %d pairs (%d terms) in %.1fs" % (len(sel), len(exprs), time.time() - t0))
            pos = 0
            for i, cnt in zip(sel, owner):
                pv = [vlib.parse_coq_value(v.replace("%Z", "")) for v in vals[pos:pos + cnt]]
                pos += cnt
                dis = compare_coq(cases[i], pms[i], pv)
                if dis:
                    disagreements.append((i, dis))
        except RuntimeError as e:
            chk.broken.append("model evaluation failed: %s" % str(e)[-1500:])
    else:
        chk.broken.append("Model/Geom.vo missing: the model was not evaluated")
    dis_known = [d for d in disagreements if known_family(cases[d[0]]) and not any(s.startswith("MODEL") for s in d[1])]
    dis_other = [d for d in disagreements if d not in dis_known]
    chk.log("model vs implementation: %d disagreements (%d in the collinear-edge family)" % (len(disagreements), len(dis_known)))

    chk.coverage.update({
        "evaluations": len(cases),
        "model_evaluations": len(sel),
        "distinct_nontrivial": len(nontrivial),
        "rule": "box pairs from the streams general / rigid / aa / aa0 / identical / nested / touching / collinear / rightangle / far / "
                "boundary (sizes 0.1..1e3, coordinates to 1e4, angles None, 0, k*pi/2, |angle| up to 50, random) + a corpus; EVERY pair: "
                "property oracles (exact convex-hull intersection of the implementation's own vertices) and the exact replay of "
                "Model/Geom.v (clip vertex lists 1e-9, areas / IoU 1e-6, None/Some outside the 1e-9 band, too_far exactly outside a 1e-5 band "
                "and on f32-exact boundary cases, closed form, binary64 replay of the vertex code bit for bit); a stratified subset "
                "(model_evaluations) is evaluated by coqc (vm_compute, Qops), compared EXACTLY with the replay, and "
                "clip area = inter_area_ref is decided inside Coq. "
                "non-trivial = the two boxes are different and overlap with positive area outside the 1e-9 band; distinct by box fields",
        "samples": [c["raw"][:300] for c in cases[6:9]],
        "input_distribution": dict(hist),
        "counts": dict(stats),
        "api_sequences": len(seqs),
        "api_sequences_ending_with_outdated_cached_vertices": sum(1 for q in seqs if cache_stale_at_end(q["opsa"], parse_box(q["a"])["angle"] is not None)
                                                                  or cache_stale_at_end(q["opsb"], parse_box(q["b"])["angle"] is not None)),
        "api_sequences_stale": len(stale),
        "api_sequences_stale_only_in_by_move_clip_method": by_move_only,
        "note_by_move_clip_method": "Universal2DBox::sutherland_hodgman_clip(self, other) called on a box whose vertices were generated and whose "
                                    "fields / angle were changed afterwards clips the OLD polygon (the cache is never invalidated); it returns a polygon, "
                                    "not the area / IoU that C08 speaks about, so it is counted here and reported to the maintainers, not raised as a violation",
        "oracle_failures": len(failing),
        "oracle_failures_in_known_family": sum(1 for f in failing if f[2]),
        "model_vs_impl_disagreements": len(disagreements),
        "model_vs_impl_disagreements_in_known_family": len(dis_known),
    })

    # ---- verdict ----
    known_f = [f for f in failing if f[2]]
    other_f = [f for f in failing if not f[2]]

    def report(group, key, title):
        r, fails, _ = group[0]
        tags = set(s.split(" ")[0] for s in fails)

        def pred(rr):
            ff, _ = oracle(rr)
            return bool(ff) and known_family(rr) == (key == KEY_KNOWN)
        a, b = shrink_pair(r, pred)
        rr = eval_pair(a, b) or r
        ff, info = oracle(rr)
        line = pair_line("replay", box_txt(a), box_txt(b))
        chk.violation(key, title + ": " + "; ".join(ff[:3]),
                      {"input": line, "decoded": {"a": decoded(a), "b": decoded(b)},
                       "failures": ff, "true_iou": float(info.get("true_iou", 0)),
                       "implementation": {"iou": None if rr["iou"] is None else float(rr["iou"]) if rr["iou"] != "P" else "panic",
                                          "iou_ba": None if rr["iou_ba"] is None else float(rr["iou_ba"]) if rr["iou_ba"] != "P" else "panic",
                                          "inter": None if rr["inter"] is None else float(rr["inter"])},
                       "failing_pairs_in_this_run": len(group),
                       "replay_cmd": REPLAY_CMD % line, "broken": chk.broken})
    if stale:
        pri = ("iou", "inter", "iou_ba", "inter_ba", "iouv", "iou_self", "tf", "own", "clipc", "verts")
        q = min(stale, key=lambda x: min(pri.index(k) if k in pri else 99 for k in seq_diff(x)))
        oa, ob = shrink_seq(q)
        ls = [l for l in run_eval([seq_line(q["a"], oa, q["b"], ob)]) if l.startswith("seq ")]
        qq = parse_seq(ls[0]) if ls else q
        diff = seq_diff(qq)
        line = seq_line(q["a"], oa, q["b"], ob)
        chk.violation(KEY_STALE, "a box mutated after gen_vertices() does not report the values of its current fields: "
                      + "; ".join("%s is %s but a fresh box with the same fields gives %s" % (k, qq["D"][k][:40], qq["F"][k][:40]) for k in diff[:3]),
                      {"input": line,
                       "api_sequence": {"box_a": decoded(parse_box(q["a"])), "then": describe_ops(oa),
                                        "box_b": decoded(parse_box(q["b"])), "then_b": describe_ops(ob)},
                       "current_fields": {"a": decoded(parse_box(qq["cura"])), "b": decoded(parse_box(qq["curb"]))},
                       "differing_observables": {k: {"mutated_box": qq["D"][k][:200], "fresh_box": qq["F"][k][:200]} for k in diff},
                       "failing_sequences_in_this_run": len(stale),
                       "replay_cmd": REPLAY_CMD % line, "broken": chk.broken})
    if known_f:
        report(known_f, KEY_KNOWN, "rotated boxes with collinear edges: the clipper misplaces the crossing point of (numerically) parallel lines (the defect repaired by commit 04617aa is back)")
    if other_f:
        report(other_f, "C08:oracle", "the implementation violates the property text")
    if not failing and dis_known:
        i, dis = dis_known[0]
        chk.violation(KEY_KNOWN, "model and implementation differ on rotated boxes with collinear edges: " + dis[0],
                      {"input": pair_line("replay", cases[i]["a"]["txt"], cases[i]["b"]["txt"]), "disagreements": dis})
    if dis_other and not other_f:
        i, dis = dis_other[0]
        chk.violation("C08:tie-broken", "model and implementation differ on %d pairs: %s" % (len(dis_other), dis[0]),
                      {"input": pair_line("replay", cases[i]["a"]["txt"], cases[i]["b"]["txt"]), "disagreements": dis,
                       "broken": chk.broken}, found_input=False)
    if chk.broken and not failing and not dis_other:
        chk.violation("C08:proof-broken", "proof or audit no longer checks: " + "; ".join(b.split("\n")[0][:200] for b in chk.broken),
                      {"broken": chk.broken}, found_input=False)


def replay(chk, path):
    rep = json.load(open(path))
    vlib.harness_build(["geom"])
    ls = run_eval([rep["input"]])
    print(ls[0][:2000])
    if ls[0].startswith("seq "):
        q = parse_seq(ls[0])
        diff = seq_diff(q)
        for k in diff:
            print("  FAIL: %s: mutated box %s, fresh box %s" % (k, q["D"][k][:80], q["F"][k][:80]))
        print("REPRODUCED" if diff else "not reproduced")
        return 1 if diff else 0
    r = parse_pair(ls[0])
    fails, info = oracle(r)
    print("true IoU:", float(info.get("true_iou", 0)))
    for f in fails:
        print("  FAIL:", f)
    print("REPRODUCED" if fails else "not reproduced")
    return 1 if fails else 0
