"""C18 - Python bindings are a faithful projection of the Rust API.

(1) table proof: tools/pybind2v.py regenerates coq/gen/Bindings.v from the pyo3 layer of the repository, then
    Props/C18.v is rebuilt (getters / setters / delegation / defaults / registration / reviewed bodies).
(2) differential execution: API scripts generated from the seed are executed through the Python module built from
    the current tree (c18_pydriver.py) and through the Rust driver `pyapi` that calls the wrapped Rust API
    directly; results are compared field by field (floats by bit pattern).  A difference is a concrete failing
    input; it is shrunk by instruction removal and reported with a key naming the python-visible item.
"""
import json
import os
import random
import shutil
import struct
import subprocess
import sys
import time
from collections import Counter

import vlib

HERE = os.path.dirname(os.path.abspath(__file__))
WORK = os.path.join(vlib.ALT or vlib.CACHE, "c18")
PYTARGET = os.path.join(vlib.ALT or vlib.CACHE, "pytarget")
MODDIR = os.path.join(WORK, "pymod")


# --------------------------------------------------------------------------------------------------------------
# building

def generate_table():
    rc, out = vlib.sh([sys.executable, os.path.join(vlib.ROOT, "tools", "pybind2v.py"), "--repo", vlib.REPO,
                       "--out", os.path.join(vlib.COQ, "gen")], timeout=120)
    return rc == 0, out


def build_module():
    """cargo build of the repository's cdylib (default features = python) -> MODDIR/similari.so"""
    os.makedirs(MODDIR, exist_ok=True)
    if vlib.ALT and not os.path.isdir(PYTARGET) and os.path.isdir(os.path.join(vlib.CACHE, "pytarget")):
        # seed the alternative workspace's target dir with the compiled dependencies (pyo3 etc.)
        subprocess.run(["cp", "-a", os.path.join(vlib.CACHE, "pytarget"), PYTARGET], check=False)
    env = dict(vlib.ENV)
    env["CARGO_TARGET_DIR"] = PYTARGET
    with vlib.Lock("cargo_py"):
        rc, out = vlib.sh(["cargo", "build", "--offline", "--lib"], cwd=vlib.REPO, env=env, timeout=1800)
        if rc != 0:
            return False, out
        so = os.path.join(PYTARGET, "debug", "libsimilari.so")
        dst = os.path.join(MODDIR, "similari.so")
        tmp = dst + ".tmp%d" % os.getpid()
        shutil.copy2(so, tmp)
        os.replace(tmp, dst)
    return True, out


# --------------------------------------------------------------------------------------------------------------
# script generation

def fb(x):
    """f32 bit pattern of the f32 nearest to x"""
    return struct.unpack("<I", struct.pack("<f", x))[0]


def bf(bits):
    return struct.unpack("<f", struct.pack("<I", bits))[0]


SCENES = [0, 0, 0, 1, 2, 7, 1 << 40]
OPTION_METHODS_N = ["max_idle_epochs", "kept_history_length", "visual_min_votes", "visual_max_observations", "visual_minimal_track_length"]
OPTION_METHODS_X = ["visual_minimal_area", "visual_minimal_quality_use", "visual_minimal_quality_collect", "positional_min_confidence",
                    "visual_minimal_own_area_percentage_use", "visual_minimal_own_area_percentage_collect",
                    "kalman_position_weight", "kalman_velocity_weight"]


class Gen:
    def __init__(self, rng):
        self.r = rng
        self.ins = []
        self.n = 0

    def emit(self, op, out=False, **kw):
        d = {"op": op}
        d.update(kw)
        if out:
            self.n += 1
            d["out"] = self.n
        self.ins.append(d)
        return d.get("out")

    # -- numbers
    def dy(self, lo, hi, bits=3):
        k = self.r.randint(int(lo * (1 << bits)), int(hi * (1 << bits)))
        return fb(k / float(1 << bits))

    def anyf(self, lo, hi):
        return fb(self.r.uniform(lo, hi))

    def num(self, lo, hi):
        return self.dy(lo, hi) if self.r.random() < 0.6 else self.anyf(lo, hi)

    def conf(self):
        return self.r.choice([fb(1.0), fb(0.0), fb(0.5), self.anyf(0.0, 1.0), self.dy(0, 1, 4)])

    def angle(self):
        return self.r.choice([None, None, fb(0.0), self.anyf(-3.2, 3.2), fb(1.5707964), self.dy(-4, 4, 4)])

    # -- boxes
    def ubox(self, x=None, y=None, w=None, h=None, angle="rand", conf="rand"):
        r = self.r
        x = r.uniform(-50, 200) if x is None else x
        y = r.uniform(-50, 200) if y is None else y
        w = r.choice([r.uniform(2, 60), float(r.randint(1, 40))]) if w is None else w
        h = r.choice([r.uniform(2, 60), float(r.randint(1, 40))]) if h is None else h
        a = self.angle() if angle == "rand" else angle
        kind = r.choice(["u_new", "u_new_conf", "u_ltwh", "u_ltwh_conf", "bb"]) if a is None else r.choice(["u_new", "u_new_conf", "rot"])
        c = self.conf() if conf == "rand" else conf
        if kind == "u_new":
            return self.emit("u_new", True, xc=fb(x), yc=fb(y), angle=a, aspect=fb(w / h), height=fb(h))
        if kind == "u_new_conf":
            return self.emit("u_new_conf", True, xc=fb(x), yc=fb(y), angle=a, aspect=fb(w / h), height=fb(h), c=c)
        if kind == "u_ltwh":
            return self.emit("u_ltwh", True, l=fb(x - w / 2), t=fb(y - h / 2), w=fb(w), h=fb(h))
        if kind == "u_ltwh_conf":
            return self.emit("u_ltwh_conf", True, l=fb(x - w / 2), t=fb(y - h / 2), w=fb(w), h=fb(h), c=c)
        if kind == "rot":
            v = self.emit("u_ltwh_conf", True, l=fb(x - w / 2), t=fb(y - h / 2), w=fb(w), h=fb(h), c=c)
            self.emit("u_rotate", v=v, angle=a)
            if r.random() < 0.5:
                self.emit("u_gen_vertices", v=v)
            return v
        b = self.emit(r.choice(["bb_new", "bb_new_conf"]), True, l=fb(x - w / 2), t=fb(y - h / 2), w=fb(w), h=fb(h), c=c)
        return self.emit("bb_as_xyaah", True, v=b)

    # -- families
    def fam_boxes(self, size):
        r = self.r
        bbs, us, polys = [], [], []
        for _ in range(r.randint(1, 3)):
            bbs.append(self.emit(r.choice(["bb_new", "bb_new_conf"]), True, l=self.num(-100, 100), t=self.num(-100, 100),
                                 w=self.num(0.5, 80), h=self.num(0.5, 80), c=self.conf()))
        for _ in range(r.randint(1, 3)):
            us.append(self.ubox())
        for _ in range(size):
            k = r.random()
            if k < 0.12:
                self.emit("bb_get", v=r.choice(bbs), field=r.choice(["left", "top", "width", "height", "confidence"]))
            elif k < 0.24:
                self.emit("bb_set", v=r.choice(bbs), field=r.choice(["left", "top", "width", "height", "confidence"]), x=self.num(-10, 90))
            elif k < 0.30:
                us.append(self.emit("bb_as_xyaah", True, v=r.choice(bbs)))
            elif k < 0.34:
                self.emit("bb_str", v=r.choice(bbs))
            elif k < 0.46:
                self.emit("u_get", v=r.choice(us), field=r.choice(["xc", "yc", "angle", "aspect", "height", "confidence"]))
            elif k < 0.58:
                f = r.choice(["xc", "yc", "angle", "aspect", "height", "confidence"])
                x = self.angle() if f == "angle" else (self.conf() if f == "confidence" else self.num(0.25, 90))
                self.emit("u_set", v=r.choice(us), field=f, x=x)
            elif k < 0.64:
                self.emit("u_rotate", v=r.choice(us), angle=self.anyf(-7, 7))
            elif k < 0.70:
                self.emit("u_gen_vertices", v=r.choice(us))
            elif k < 0.76:
                polys.append(self.emit("u_get_vertices", True, v=r.choice(us)))
            elif k < 0.80:
                self.emit("u_get_radius", v=r.choice(us))
            elif k < 0.84:
                self.emit("u_area", v=r.choice(us))
            elif k < 0.90:
                bbs.append(self.emit("u_as_ltwh", True, v=r.choice(us)))
            elif k < 0.95:
                self.emit("u_str", v=r.choice(us))
            elif polys:
                self.emit(r.choice(["poly_points", "poly_repr"]), v=r.choice(polys))
            else:
                us.append(self.ubox())

    def cluster(self, n):
        """n boxes, overlapping with good probability"""
        r = self.r
        cx, cy = r.uniform(0, 100), r.uniform(0, 100)
        out = []
        for _ in range(n):
            w, h = r.uniform(5, 30), r.uniform(5, 30)
            out.append(self.ubox(cx + r.uniform(-15, 15), cy + r.uniform(-15, 15), w, h))
        return out

    def fam_funcs(self, size):
        r = self.r
        for _ in range(max(1, size // 6)):
            us = self.cluster(r.randint(2, 7))
            dets = [[u, r.choice([None, self.conf(), self.anyf(0, 50)])] for u in us]
            r.shuffle(dets)
            self.emit("nms", dets=dets, nms_threshold=r.choice([fb(0.3), fb(0.5), fb(0.7), self.anyf(0, 1)]),
                      score_threshold=r.choice([None, fb(0.0), fb(0.5), self.anyf(0, 30)]))
            for _ in range(r.randint(1, 3)):
                a, b = r.choice(us), r.choice(us)
                if r.random() < 0.5:
                    p = self.emit("clip", True, a=a, b=b)
                    if r.random() < 0.5:
                        self.emit(r.choice(["poly_points", "poly_repr"]), v=p)
                else:
                    self.emit("intersection_area", a=a, b=b)

    def weights(self):
        kw = {}
        if self.r.random() < 0.5:
            kw["position_weight"] = self.r.choice([fb(0.05), fb(0.1), self.anyf(0.01, 0.2)])
        if self.r.random() < 0.5:
            kw["velocity_weight"] = self.r.choice([fb(0.00625), fb(0.01), self.anyf(0.001, 0.05)])
        return kw

    def fam_kalman(self, size):
        r = self.r
        which = r.choice(["kf", "pkf", "vkf"])
        if which == "kf":
            kf = self.emit("kf_new", True, **self.weights())
            x, y, w, h = r.uniform(0, 100), r.uniform(0, 100), r.uniform(5, 30), r.uniform(5, 30)
            ang = r.choice([None, 0.3])
            mk = lambda: self.ubox(x, y, w, h, angle=(None if ang is None else fb(ang)))
            st = self.emit("kf_initiate", True, kf=kf, box=mk())
            for _ in range(size):
                x += r.uniform(-3, 3)
                y += r.uniform(-3, 3)
                if ang is not None:
                    ang += r.uniform(-0.1, 0.1)
                k = r.random()
                if k < 0.35:
                    st = self.emit("kf_predict", True, kf=kf, st=st)
                elif k < 0.65:
                    st = self.emit("kf_update", True, kf=kf, st=st, box=mk())
                elif k < 0.85:
                    self.emit("kf_distance", kf=kf, st=st, box=mk())
                else:
                    self.emit("kf_cost", distance=self.anyf(0, 120), inverted=r.random() < 0.5)
        elif which == "pkf":
            kf = self.emit("pkf_new", True, **self.weights())
            x, y = r.uniform(-50, 50), r.uniform(-50, 50)
            st = self.emit("pkf_initiate", True, kf=kf, x=fb(x), y=fb(y))
            for _ in range(size):
                x += r.uniform(-2, 2)
                y += r.uniform(-2, 2)
                k = r.random()
                if k < 0.35:
                    st = self.emit("pkf_predict", True, kf=kf, st=st)
                elif k < 0.65:
                    st = self.emit("pkf_update", True, kf=kf, st=st, x=fb(x), y=fb(y))
                elif k < 0.85:
                    self.emit("pkf_distance", kf=kf, st=st, x=fb(x), y=fb(y))
                else:
                    self.emit("pkf_cost", distance=self.anyf(0, 120), inverted=r.random() < 0.5)
        else:
            kf = self.emit("vkf_new", True, **self.weights())
            n = r.randint(0, 4)
            pts = [[r.uniform(-50, 50), r.uniform(-50, 50)] for _ in range(n)]
            enc = lambda: [[fb(a), fb(b)] for a, b in pts]
            st = self.emit("vkf_initiate", True, kf=kf, points=enc())
            for _ in range(size):
                pts = [[a + r.uniform(-2, 2), b + r.uniform(-2, 2)] for a, b in pts]
                k = r.random()
                if k < 0.35:
                    st = self.emit("vkf_predict", True, kf=kf, st=st)
                elif k < 0.65:
                    st = self.emit("vkf_update", True, kf=kf, st=st, points=enc())
                elif k < 0.85:
                    self.emit("vkf_distance", kf=kf, st=st, points=enc())
                else:
                    self.emit("vkf_cost", distances=[self.anyf(0, 120) for _ in range(r.randint(0, 4))], inverted=r.random() < 0.5)

    def pmt(self):
        if self.r.random() < 0.5:
            return self.emit("pmt_maha", True)
        return self.emit("pmt_iou", True, threshold=self.r.choice([fb(0.3), fb(0.5), self.anyf(0.05, 0.9)]))

    def vmt(self):
        if self.r.random() < 0.5:
            return self.emit("vmt_euclidean", True, threshold=self.r.choice([fb(1.0), fb(10.0), self.anyf(0.1, 50)]))
        return self.emit("vmt_cosine", True, threshold=self.r.choice([fb(0.5), fb(0.9), self.anyf(-1, 1)]))

    def stc(self, validate=True):
        r = self.r
        c = self.emit("stc_new", True)
        for _ in range(r.randint(0, 3)):
            self.emit("stc_add", v=c, constraints=[[r.randint(0, 6), r.choice([fb(0.5), fb(1.0), fb(2.0), self.anyf(0.1, 8)])] for _ in range(r.randint(0, 3))])
            if validate:
                for _ in range(r.randint(0, 3)):
                    self.emit("stc_validate", v=c, epoch_delta=r.randint(0, 8), dist=r.choice([fb(0.0), fb(1.0), self.anyf(0, 9)]))
        return c

    def options(self, full=False):
        r = self.r
        o = self.emit("vso_new", True)
        meths = OPTION_METHODS_N + OPTION_METHODS_X + ["visual_metric", "positional_metric", "spatio_temporal_constraints"]
        chosen = meths if full else r.sample(meths, r.randint(0, 8))
        r.shuffle(chosen)
        maxobs = 5
        for m in chosen:
            if m == "max_idle_epochs":
                self.emit("vso_set", v=o, method=m, n=r.randint(0, 6))
            elif m == "kept_history_length":
                self.emit("vso_set", v=o, method=m, n=r.randint(1, 5))
            elif m == "visual_min_votes":
                self.emit("vso_set", v=o, method=m, n=r.randint(1, 3))
            elif m == "visual_max_observations":
                maxobs = r.randint(3, 6)
                self.emit("vso_set", v=o, method=m, n=maxobs)
            elif m == "visual_minimal_track_length":
                self.emit("vso_set", v=o, method=m, n=r.randint(1, 3))
            elif m == "visual_minimal_area":
                self.emit("vso_set", v=o, method=m, x=r.choice([fb(0.0), fb(5.0), self.anyf(0, 50)]))
            elif m in ("visual_minimal_quality_use", "visual_minimal_quality_collect"):
                self.emit("vso_set", v=o, method=m, x=r.choice([fb(0.0), fb(0.45), self.anyf(0, 1)]))
            elif m == "positional_min_confidence":
                self.emit("vso_set", v=o, method=m, x=r.choice([fb(0.1), fb(0.13), self.anyf(0.01, 1.0)]))
            elif m in ("visual_minimal_own_area_percentage_use", "visual_minimal_own_area_percentage_collect"):
                # > 0 switches on geo's BooleanOps (C15): kept rare and only with axis-aligned boxes by the caller
                self.emit("vso_set", v=o, method=m, x=fb(0.0))
            elif m in ("kalman_position_weight", "kalman_velocity_weight"):
                self.emit("vso_set", v=o, method=m, x=r.choice([fb(0.05), fb(0.00625), self.anyf(0.001, 0.2)]))
            elif m == "visual_metric":
                self.emit("vso_set", v=o, method=m, arg=self.vmt())
            elif m == "positional_metric":
                self.emit("vso_set", v=o, method=m, arg=self.pmt())
            else:
                self.emit("vso_set", v=o, method=m, arg=self.stc(validate=False))
        return o

    def fam_types(self, size):
        r = self.r
        for _ in range(max(1, size // 8)):
            k = r.random()
            if k < 0.2:
                self.pmt()
            elif k < 0.4:
                self.vmt()
            elif k < 0.7:
                self.stc()
            else:
                self.options(full=r.random() < 0.5)

    def tracker_kwargs(self, batch):
        r = self.r
        kw = {}
        if batch:
            if r.random() < 0.7:
                kw["distance_shards"] = r.randint(1, 3)
            if r.random() < 0.7:
                kw["voting_shards"] = r.randint(1, 3)
        elif r.random() < 0.7:
            kw["shards"] = r.randint(1, 3)
        if r.random() < 0.6:
            kw["bbox_history"] = r.randint(1, 4)
        if r.random() < 0.6:
            kw["max_idle_epochs"] = r.randint(0, 4)
        if r.random() < 0.6:
            kw["method"] = self.pmt()
        if r.random() < 0.4:
            kw["min_confidence"] = r.choice([fb(0.05), fb(0.2), self.anyf(0.01, 0.5)])
        if r.random() < 0.3:
            kw["spatio_temporal_constraints"] = self.stc(validate=False)
        if r.random() < 0.3:
            kw["kalman_position_weight"] = r.choice([fb(0.05), fb(0.1)])
        if r.random() < 0.3:
            kw["kalman_velocity_weight"] = r.choice([fb(0.00625), fb(0.01)])
        return kw

    def objects(self):
        r = self.r
        return [{"x": r.uniform(0, 300), "y": r.uniform(0, 300), "w": r.uniform(8, 40), "h": r.uniform(8, 40),
                 "vx": r.uniform(-4, 4), "vy": r.uniform(-4, 4), "id": r.choice([None, r.randint(-5, 10 ** 6)]),
                 "scene": r.choice(SCENES), "ang": r.choice([None, None, r.uniform(-1, 1)]),
                 "feat": [r.uniform(-1, 1) for _ in range(r.choice([4, 8, 9, 16]))]} for _ in range(r.randint(1, 5))]

    def step(self, objs):
        for o in objs:
            o["x"] += o["vx"] + self.r.uniform(-1, 1)
            o["y"] += o["vy"] + self.r.uniform(-1, 1)

    def common_tracker_op(self, t, batch, scenes):
        r = self.r
        k = r.random()
        sc = r.choice(scenes + [r.choice(SCENES)])
        if k < 0.18:
            if r.random() < 0.5:
                self.emit("t_skip_epochs", v=t, n=r.randint(1, 4), poison=True)
            else:
                self.emit("t_skip_epochs_for_scene", v=t, scene=sc, n=r.randint(1, 4), poison=True)
        elif k < 0.36:
            if r.random() < 0.5:
                self.emit("t_current_epoch", v=t, poison=True)
            else:
                self.emit("t_current_epoch_with_scene", v=t, scene=sc, poison=True)
        elif k < 0.56:
            if batch or r.random() < 0.5:
                self.emit("t_idle_tracks_with_scene", v=t, scene=sc, poison=True)
            else:
                self.emit("t_idle_tracks", v=t, poison=True)
        elif k < 0.72:
            self.emit("t_wasted", v=t, poison=True)
        elif k < 0.82:
            self.emit("t_clear_wasted", v=t, poison=True)
        else:
            self.emit("t_shard_stats", v=t, poison=True)

    def fam_sort(self, size):
        r = self.r
        t = self.emit("sort_new", True, **self.tracker_kwargs(False))
        objs = self.objects()
        scenes = sorted({o["scene"] for o in objs})
        for _ in range(size):
            if r.random() < 0.55:
                self.step(objs)
                if r.random() < 0.5:
                    sc = 0
                    present = [o for o in objs if o["scene"] == 0 or len(scenes) == 1 and r.random() < 0.5]
                    boxes = [[self.ubox(o["x"], o["y"], o["w"], o["h"], angle=(None if o["ang"] is None else fb(o["ang"]))), o["id"]]
                             for o in present if r.random() < 0.85]
                    self.emit("t_predict", v=t, boxes=boxes, poison=True)
                else:
                    sc = r.choice(scenes)
                    boxes = [[self.ubox(o["x"], o["y"], o["w"], o["h"], angle=(None if o["ang"] is None else fb(o["ang"]))), o["id"]]
                             for o in objs if o["scene"] == sc and r.random() < 0.85]
                    self.emit("t_predict_scene", v=t, scene=sc, boxes=boxes, poison=True)
            else:
                self.common_tracker_op(t, False, scenes)
        self.emit("t_wasted", v=t, poison=True)

    def observation(self, o, aligned):
        r = self.r
        ang = None if aligned or o["ang"] is None else fb(o["ang"])
        b = self.ubox(o["x"], o["y"], o["w"], o["h"], angle=ang)
        feat = None if r.random() < 0.25 else [fb(x + r.uniform(-0.05, 0.05)) for x in o["feat"]]
        q = r.choice([None, fb(0.9), self.anyf(0, 1)])
        return self.emit("obs_new", True, feature=feat, feature_quality=q, box=b, custom_object_id=o["id"])

    def fam_visual(self, size):
        r = self.r
        opts = self.options()
        t = self.emit("vs_new", True, shards=r.randint(1, 3), opts=opts)
        objs = self.objects()
        scenes = sorted({o["scene"] for o in objs})
        for _ in range(size):
            if r.random() < 0.55:
                self.step(objs)
                s = self.emit("set_new", True)
                if r.random() < 0.5:
                    for o in objs:
                        if o["scene"] == 0 and r.random() < 0.85:
                            self.emit("set_add", v=s, obs=self.observation(o, False))
                    if r.random() < 0.3:
                        self.emit("set_str", v=s)
                    self.emit("t_predict", v=t, set=s, poison=True)
                else:
                    sc = r.choice(scenes)
                    for o in objs:
                        if o["scene"] == sc and r.random() < 0.85:
                            self.emit("set_add", v=s, obs=self.observation(o, False))
                    self.emit("t_predict_scene", v=t, scene=sc, set=s, poison=True)
            else:
                self.common_tracker_op(t, False, scenes)
        self.emit("t_wasted", v=t, poison=True)

    def fam_batch_sort(self, size):
        r = self.r
        t = self.emit("bs_new", True, **self.tracker_kwargs(True))
        objs = self.objects()
        scenes = sorted({o["scene"] for o in objs})
        for _ in range(size):
            if r.random() < 0.5:
                self.step(objs)
                req = self.emit("sreq_new", True)
                for o in objs:
                    if r.random() < 0.85:
                        kw = {}
                        if o["id"] is not None or r.random() < 0.5:
                            kw["custom_object_id"] = o["id"]
                        self.emit("sreq_add", v=req, scene=o["scene"], box=self.ubox(o["x"], o["y"], o["w"], o["h"], angle=(None if o["ang"] is None else fb(o["ang"]))), **kw)
                self.emit("t_batch_predict", v=t, req=req, poison=True)
            else:
                self.common_tracker_op(t, True, scenes)
        self.emit("t_wasted", v=t, poison=True)

    def fam_batch_visual(self, size):
        r = self.r
        opts = self.options()
        t = self.emit("bvs_new", True, distance_shards=r.randint(1, 3), voting_shards=r.randint(1, 3), opts=opts)
        objs = self.objects()
        scenes = sorted({o["scene"] for o in objs})
        for _ in range(size):
            if r.random() < 0.5:
                self.step(objs)
                req = self.emit("vreq_new", True)
                for o in objs:
                    if r.random() < 0.85:
                        self.emit("vreq_add", v=req, scene=o["scene"], obs=self.observation(o, False))
                if r.random() < 0.2:
                    self.emit("vreq_prediction", True, v=req)
                self.emit("t_batch_predict", v=t, req=req, poison=True)
            else:
                self.common_tracker_op(t, True, scenes)
        self.emit("t_wasted", v=t, poison=True)

    def fam_defaults(self, size):
        """constructors with omitted arguments, followed by calls whose results depend on each omitted value:
        shards (length of shard_stats), bbox_history (length of the wasted histories), max_idle_epochs (idle / wasted
        after skipping exactly 5 and 6 epochs), method (association), min_confidence (IoU x clamped confidence against a
        small threshold), constraints, Kalman weights (predicted boxes)."""
        r = self.r
        variant = r.randint(0, 5)
        batch = bool(variant & 1)
        kw = {}
        lowconf = variant in (2, 3)
        tight = variant in (4, 5)
        if tight:
            # an explicit constraints object that forbids the association of these fast objects: the argument must arrive
            c = self.emit("stc_new", True)
            self.emit("stc_add", v=c, constraints=[[k, fb(0.125)] for k in range(1, 4)])
            kw["spatio_temporal_constraints"] = c
            kw["method"] = self.emit("pmt_iou", True, threshold=fb(0.05))
        if lowconf:
            kw["method"] = self.emit("pmt_iou", True, threshold=r.choice([fb(0.06), fb(0.07), fb(0.08), fb(0.09)]))
        t = self.emit("bs_new" if batch else "sort_new", True, **kw)
        objs = [{"x": 50.0 * k + r.uniform(0, 5), "y": 20.0, "w": r.uniform(10, 20), "h": r.uniform(10, 20), "id": k} for k in range(r.randint(1, 3))]

        def frame():
            boxes = []
            for o in objs:
                c = fb(0.0) if lowconf else self.conf()
                b = self.emit("u_ltwh_conf", True, l=fb(o["x"]), t=fb(o["y"]), w=fb(o["w"]), h=fb(o["h"]), c=c)
                boxes.append([b, o["id"]])
            if batch:
                req = self.emit("sreq_new", True)
                for b, i in boxes:
                    self.emit("sreq_add", v=req, scene=0, box=b, custom_object_id=i)
                self.emit("t_batch_predict", v=t, req=req, poison=True)
            else:
                self.emit("t_predict", v=t, boxes=boxes, poison=True)
        for _ in range(r.randint(2, 4)):
            frame()
            if tight:
                for o in objs:
                    o["x"] += 0.5 * o["w"]
            elif not lowconf:
                for o in objs:
                    o["x"] += r.uniform(1, 3)
                    o["y"] += r.uniform(-1, 1)
        self.emit("t_shard_stats", v=t, poison=True)
        for n in (r.choice([4, 5]), 1, 1):
            self.emit("t_skip_epochs", v=t, n=n, poison=True)
            self.emit("t_idle_tracks_with_scene", v=t, scene=0, poison=True)
            self.emit("t_shard_stats", v=t, poison=True)
        self.emit("t_wasted", v=t, poison=True)
        self.emit("t_current_epoch", v=t, poison=True)

    def fam_malformed(self, size):
        """inputs that the wrapped Rust API itself rejects: both sides must fail, and go on identically afterwards"""
        r = self.r
        u = self.ubox()
        for _ in range(size):
            k = r.randint(0, 10)
            bad = r.choice([fb(-0.5), fb(1.5), fb(2.0)])
            if k == 0:
                self.emit("bb_new_conf", True, l=fb(0.0), t=fb(0.0), w=fb(5.0), h=fb(5.0), c=bad)
            elif k == 1:
                self.emit("u_new_conf", True, xc=fb(0.0), yc=fb(0.0), angle=None, aspect=fb(1.0), height=fb(5.0), c=bad)
            elif k == 2:
                self.emit("u_ltwh_conf", True, l=fb(0.0), t=fb(0.0), w=fb(5.0), h=fb(5.0), c=bad)
            elif k == 3:
                self.emit("u_set", v=u, field="confidence", x=bad)
                self.emit("u_get", v=u, field="confidence")
            elif k == 4:
                c = self.emit("stc_new", True)
                self.emit("stc_add", v=c, constraints=[[1, fb(1.0)], [2, r.choice([fb(0.0), fb(-1.0)])]])
                self.emit("stc_validate", v=c, epoch_delta=1, dist=fb(2.0))
                self.emit("stc_validate", v=c, epoch_delta=1, dist=fb(-1.0))
            elif k == 5:
                self.emit("vmt_euclidean", True, threshold=r.choice([fb(0.0), fb(-1.0)]))
                self.emit("vmt_cosine", True, threshold=r.choice([fb(1.5), fb(-1.5)]))
            elif k == 6:
                self.emit("sort_new", True, bbox_history=0)
                self.emit("bs_new", True, bbox_history=0, distance_shards=1, voting_shards=1)
            elif k == 7:
                kf = self.emit("vkf_new", True)
                st = self.emit("vkf_initiate", True, kf=kf, points=[[fb(1.0), fb(2.0)], [fb(3.0), fb(4.0)]])
                self.emit("vkf_update", True, kf=kf, st=st, points=[[fb(1.0), fb(2.0)]])
                self.emit("vkf_distance", kf=kf, st=st, points=[])
            elif k == 8:
                self.emit("u_as_ltwh", True, v=self.ubox(angle=fb(0.5)))
            elif k == 10:
                # arguments the Rust options builder rejects: Python must reject them too and leave the options unchanged
                o = self.emit("vso_new", True)
                m, a = r.choice([("kept_history_length", {"n": 0}), ("visual_minimal_track_length", {"n": 0}),
                                 ("visual_minimal_area", {"x": fb(-2.0)}), ("visual_minimal_quality_use", {"x": fb(-0.25)}),
                                 ("visual_minimal_quality_collect", {"x": fb(-1.0)}), ("positional_min_confidence", {"x": r.choice([fb(0.0), fb(1.5)])}),
                                 ("visual_minimal_own_area_percentage_use", {"x": fb(1.25)}),
                                 ("visual_minimal_own_area_percentage_collect", {"x": fb(-0.125)})])
                self.emit("vso_set", v=o, method=m, **a)
                self.emit("vso_set", v=o, method="max_idle_epochs", n=r.randint(0, 5))
            else:
                # zero-sized boxes through IoU / NMS: the asserts of the Rust code fire on both sides
                z = self.emit("u_new", True, xc=fb(1.0), yc=fb(1.0), angle=None, aspect=fb(1.0), height=fb(0.0))
                self.emit("nms", dets=[[z, None], [u, None]], nms_threshold=fb(0.5), score_threshold=None)


FAMILIES = ["boxes", "funcs", "kalman", "types", "sort", "visual", "batch_sort", "batch_visual", "malformed", "defaults"]
WEIGHTS = {"boxes": 3, "funcs": 2, "kalman": 3, "types": 2, "sort": 4, "visual": 3, "batch_sort": 2, "batch_visual": 2, "malformed": 1, "defaults": 2}


def gen_scripts(seed, n, size):
    rng = random.Random(seed * 1000003 + 18)
    fams = [f for f in FAMILIES for _ in range(WEIGHTS[f])]
    out = []
    for k in range(n):
        fam = FAMILIES[k] if k < len(FAMILIES) else rng.choice(fams)
        g = Gen(rng)
        getattr(g, "fam_" + fam)(rng.randint(max(3, size // 2), size))
        out.append({"family": fam, "ins": g.ins})
    return out


# fixed probes: argument validation of the options builder (the wrapped VisualSortOptions methods reject these)
def validation_probes():
    probes = []
    bad = {
        "kept_history_length": {"n": 0},
        "visual_minimal_track_length": {"n": 0},
        "visual_minimal_area": {"x": fb(-1.0)},
        "visual_minimal_quality_use": {"x": fb(-0.5)},
        "visual_minimal_quality_collect": {"x": fb(-0.5)},
        "positional_min_confidence": {"x": fb(5.0)},
        "visual_minimal_own_area_percentage_use": {"x": fb(1.5)},
        "visual_minimal_own_area_percentage_collect": {"x": fb(-0.5)},
    }
    for m, a in sorted(bad.items()):
        ins = [{"op": "vso_new", "out": 1}, dict({"op": "vso_set", "v": 1, "method": m}, **a)]
        probes.append({"family": "probe:options-validation", "method": m, "ins": ins})
    return probes


def exports_probe():
    """the names the extension module exports (registration of classes / functions)"""
    return {"family": "probe:module-exports", "ins": [{"op": "module_exports"}]}


def handle_probe():
    """the result handle obtained from VisualSortPredictionBatchRequest.prediction() must receive the results of
    predict() on that request (it does in the Rust API: same channel)"""
    ins = [
        {"op": "vso_new", "out": 1},
        {"op": "bvs_new", "out": 2, "distance_shards": 1, "voting_shards": 1, "opts": 1},
        {"op": "u_ltwh", "out": 3, "l": fb(0.0), "t": fb(0.0), "w": fb(5.0), "h": fb(10.0)},
        {"op": "obs_new", "out": 4, "feature": None, "feature_quality": None, "box": 3, "custom_object_id": 7},
        {"op": "vreq_new", "out": 5},
        {"op": "vreq_add", "v": 5, "scene": 1, "obs": 4},
        {"op": "vreq_prediction", "out": 6, "v": 5},
        {"op": "vreq_prediction", "out": 7, "v": 5},
        {"op": "t_batch_predict_nodrain", "out": 8, "v": 2, "req": 5, "poison": True},
        {"op": "res_state", "v": 6, "wait_ms": 1500},
        {"op": "res_state", "v": 8, "wait_ms": 1500},
    ]
    return {"family": "probe:prediction-handle", "ins": ins}


# --------------------------------------------------------------------------------------------------------------
# running the two drivers

def run_driver(cmd, n, timeout):
    """Runs a driver over a script file; returns list of results (None where the driver produced nothing) + note"""
    t0 = time.time()
    try:
        p = subprocess.run(cmd, stdout=subprocess.PIPE, stderr=subprocess.PIPE, timeout=timeout, text=True, env=vlib.ENV)
        rc, out, err = p.returncode, p.stdout, p.stderr
    except subprocess.TimeoutExpired as e:
        rc = 124
        out = e.stdout.decode("utf-8", "replace") if isinstance(e.stdout, bytes) else (e.stdout or "")
        err = "[timeout]"
    res = [None] * n
    for line in out.split("\n"):
        line = line.strip()
        if line.startswith("{"):
            try:
                d = json.loads(line)
                res[d["i"]] = d["res"]
            except ValueError:
                pass
    return res, rc, err[-1500:], time.time() - t0


def run_both(scripts, tag, timeout=600):
    """scripts: list of instruction lists. Returns (py_results, rs_results, notes). A crash / hang of a driver is
    localised: the scripts after the one that killed the process are re-run in a fresh process."""
    os.makedirs(WORK, exist_ok=True)

    def run_all(mk_cmd, name):
        results = [None] * len(scripts)
        notes = []
        start = 0
        while start < len(scripts):
            path = os.path.join(WORK, "%s_%s_%d_%d.json" % (tag, name, os.getpid(), start))
            with open(path, "w") as fh:
                json.dump(scripts[start:], fh)
            res, rc, err, dt = run_driver(mk_cmd(path), len(scripts) - start, timeout)
            os.remove(path)
            done = 0
            for k, r in enumerate(res):
                if r is None:
                    break
                results[start + k] = r
                done += 1
            if done == len(scripts) - start:
                break
            notes.append({"driver": name, "script": start + done, "rc": rc, "stderr": err})
            results[start + done] = "crash:rc=%d" % rc
            start = start + done + 1
        return results, notes

    py, n1 = run_all(lambda p: [sys.executable, os.path.join(HERE, "c18_pydriver.py"), MODDIR, p], "py")
    rs, n2 = run_all(lambda p: [vlib.harness_bin("pyapi"), "run", "--file", p], "rs")
    return py, rs, n1 + n2


# --------------------------------------------------------------------------------------------------------------
# canonicalisation and comparison

def canon(script, results):
    """Sort what has no defined order, rename the ids of batch trackers by first occurrence, drop id-bearing
    strings of batch trackers, reduce their shard statistics to the total."""
    if not isinstance(results, list):
        return results
    kind = {}
    for ins in script:
        if "out" in ins:
            kind[ins["out"]] = ins["op"]
    idmaps = {}
    out = []
    for ins, r in zip(script, results):
        op = ins["op"]
        batch = kind.get(ins.get("v")) in ("bs_new", "bvs_new")
        if batch and op.startswith("t_"):
            m = idmaps.setdefault(ins["v"], {})

            def ren(t):
                t = dict(t)
                if t["id"] not in m:
                    m[t["id"]] = len(m) + 1
                t["id"] = m[t["id"]]
                t.pop("repr", None)
                t.pop("str", None)
                return t
            if op == "t_batch_predict" and isinstance(r, dict):
                sc = sorted(r["scenes"], key=lambda s: s[0])
                r = dict(r, scenes=[[s, [ren(t) for t in ts]] for s, ts in sc])
            elif op in ("t_idle_tracks", "t_idle_tracks_with_scene", "t_wasted") and isinstance(r, list):
                known = sorted([t for t in r if t["id"] in m], key=lambda t: m[t["id"]])
                unknown = sorted([t for t in r if t["id"] not in m], key=lambda t: json.dumps({k: v for k, v in t.items() if k not in ("id", "repr", "str")}, sort_keys=True))
                r = [ren(t) for t in known + unknown]
            elif op == "t_shard_stats" and isinstance(r, list):
                r = {"total": sum(r), "shards": len(r)}
        elif op in ("t_idle_tracks", "t_idle_tracks_with_scene", "t_wasted") and isinstance(r, list):
            r = sorted(r, key=lambda t: t["id"])
        out.append(r)
    return out


def first_diff(a, b, path=""):
    if type(a) != type(b):
        return path, a, b
    if isinstance(a, dict):
        for k in sorted(set(a) | set(b)):
            if k not in a or k not in b:
                return path + "." + k, a.get(k, "<missing>"), b.get(k, "<missing>")
            d = first_diff(a[k], b[k], path + "." + k)
            if d:
                return d
        return None
    if isinstance(a, list):
        if len(a) != len(b):
            return path + ".len", len(a), len(b)
        for k, (x, y) in enumerate(zip(a, b)):
            d = first_diff(x, y, "%s[%d]" % (path, k))
            if d:
                return d
        return None
    return None if a == b else (path, a, b)


def compare(script, py, rs):
    """Returns None or dict(index, op, path, python, rust)"""
    if not isinstance(py, list) or not isinstance(rs, list):
        if py == rs:
            return None
        return {"index": -1, "op": "<process>", "path": "", "python": py if not isinstance(py, list) else "ok", "rust": rs if not isinstance(rs, list) else "ok"}
    cp, cr = canon(script, py), canon(script, rs)
    for k, (ins, a, b) in enumerate(zip(script, cp, cr)):
        d = first_diff(a, b)
        if d:
            return {"index": k, "op": ins["op"], "path": d[0], "python": d[1], "rust": d[2], "instruction": ins}
    return None


def diff_key(d):
    ins = d.get("instruction", {})
    extra = ins.get("field") or ins.get("method") or ""
    leaf = d["path"].split(".")[-1].split("[")[0] if d["path"] else ""
    return "C18:diff:%s%s%s" % (d["op"], (":" + extra) if extra else "", (":" + leaf) if leaf and leaf != extra else "")


def shrink(script, tag, budget=60):
    """delta debugging by instruction removal: keep any difference between the two drivers"""
    def differs(cand):
        py, rs, _ = run_both([cand], tag, timeout=120)
        return compare(cand, py[0], rs[0]) is not None
    cur = list(script)
    runs = 0
    chunk = max(1, len(cur) // 2)
    while chunk >= 1 and runs < budget:
        i = 0
        changed = False
        while i < len(cur) and runs < budget:
            cand = cur[:i] + cur[i + chunk:]
            runs += 1
            if cand and differs(cand):
                cur = cand
                changed = True
            else:
                i += chunk
        if not changed or chunk == 1:
            chunk //= 2
    return cur


def decode_script(script):
    """human-readable rendering (floats decoded) for the replay file"""
    out = []
    for ins in script:
        d = {}
        for k, v in ins.items():
            if k in ("l", "t", "w", "h", "c", "xc", "yc", "angle", "aspect", "height", "x", "y", "threshold", "dist", "distance",
                     "nms_threshold", "score_threshold", "min_confidence", "kalman_position_weight", "kalman_velocity_weight",
                     "position_weight", "velocity_weight", "feature_quality") and isinstance(v, int):
                d[k] = bf(v)
            else:
                d[k] = v
        out.append(d)
    return out


CHECKERS = ["getter_ok", "setter_ok", "delegate_ok", "default_ok", "registered_ok", "name_unique", "no_other_ok"]


def failing_rows():
    """Which rows of the regenerated table fail which checker (evaluated by coqc; needs Model/Bindings.vo)."""
    pre = ("From Coq Require Import String List QArith Bool.\nFrom SimilariGen Require Import Bindings.\n"
           "From Similari Require Import Model.Bindings.\nImport ListNotations.\nOpen Scope string_scope.\n")
    exprs = ["map (fun it => (i_class it, i_name it, i_where it)) (filter (fun it => negb (%s it)) bindings)" % c for c in CHECKERS]
    exprs.append("map (fun c => (c_rust c, c_py c, c_where c)) (filter (fun c => negb (class_registered c && class_name_unique c)) classes)")
    exprs.append("map (fun d => match d with (c, n, p, _) => (c, n, p) end) (filter (fun d => negb (documented_present d)) documented_defaults)")
    try:
        vals = vlib.coq_eval(pre, exprs, shard_size=20, timeout=300, tag="c18rows")
    except RuntimeError as e:
        return {"error": str(e)[-800:]}
    out = {}
    for name, v in zip(CHECKERS + ["class_registered", "documented_present"], vals):
        rows = vlib.parse_coq_value(v)
        if rows:
            out[name] = [list(r) if isinstance(r, tuple) else r for r in rows]
    return out


def replay_cmd(path):
    return "cd /verif && ./check C18 --replay %s" % path


# --------------------------------------------------------------------------------------------------------------

def run(chk):
    os.makedirs(WORK, exist_ok=True)
    # ---- (1) the table and its theorems --------------------------------------------------------------------
    okg, outg = generate_table()
    chk.log(outg.strip().split("\n")[0] if outg.strip() else "pybind2v: no output")
    if not okg:
        chk.broken.append("translator pybind2v: " + outg.strip()[-1500:])
    props = os.path.join(vlib.COQ, "theories", "Props", "C18.v")
    vlib.proof_stage(chk, props)
    if chk.tier == "thorough":
        vlib.coqchk_stage(chk, "Similari.Props.C18")
    chk.coverage.setdefault("trusted_base", []).append(
        "translator tools/pybind2v.py (classification of wrapper bodies) and the reviewed lists of Model/Bindings.v; "
        "pyo3 argument conversion and the transmute layout are NOT covered by the theorems (differential run only)")
    try:
        man = json.load(open(os.path.join(vlib.COQ, "gen", "bindings_manifest.json")))
        chk.coverage["table"] = {"classes": man["classes"], "items": len(man["items"]),
                                 "bodies": dict(Counter(i["body"] for i in man["items"])),
                                 "unreachable_binding_files": man["unreachable_binding_files"]}
    except (OSError, ValueError):
        pass
    table_broken = list(chk.broken)
    rows = {}
    if table_broken and os.path.exists(os.path.join(vlib.COQ, "theories", "Model", "Bindings.vo")):
        rows = failing_rows()
        chk.log("table rows failing a checker: %s" % json.dumps(rows)[:1500])
        chk.coverage["failing_rows"] = rows

    # ---- (2) differential execution ------------------------------------------------------------------------------
    t0 = time.time()
    okm, outm = build_module()
    chk.log("cdylib build: %s (%.1fs)" % ("ok" if okm else "FAILED", time.time() - t0))
    okh, outh = vlib.harness_build(["pyapi"])
    if not okm or not okh:
        log = (outm if not okm else outh)[-4000:]
        chk.broken.append("build failed: " + log[-1500:])
        chk.violation("C18:build", "the %s does not build against the repository" % ("python module" if not okm else "rust driver"),
                      {"log": log, "broken": chk.broken}, found_input=False)
        chk.coverage.update({"evaluations": 0})
        return
    n, size = (600, 24) if chk.tier == "quick" else (3000, 40)
    scripts = gen_scripts(chk.seed, n, size) + validation_probes() + [exports_probe(), handle_probe()]
    t0 = time.time()
    py, rs, notes = run_both([s["ins"] for s in scripts], "run", timeout=900 if chk.tier == "quick" else 3000)
    chk.log("executed %d scripts / %d instructions through both drivers (%.1fs)" % (len(scripts), sum(len(s["ins"]) for s in scripts), time.time() - t0))

    hist = Counter()
    status = Counter()
    nontrivial = set()
    evaluations = 0
    diffs = []
    for s, a, b in zip(scripts, py, rs):
        d = compare(s["ins"], a, b)
        if d:
            diffs.append((s, d))
        if isinstance(a, list):
            for ins, r in zip(s["ins"], a):
                evaluations += 1
                hist[ins["op"]] += 1
                if r == "err":
                    status["err"] += 1
                elif r == "skip":
                    status["skip"] += 1
                else:
                    status["ok"] += 1
                    if r not in (None, [], {}):
                        nontrivial.add((ins["op"], json.dumps(r, sort_keys=True)))
    samples = []
    for s, a in list(zip(scripts, py))[:3]:
        if isinstance(a, list) and a:
            samples.append({"family": s["family"], "instruction": decode_script(s["ins"][-1:])[0], "result": a[-1] if len(json.dumps(a[-1])) < 600 else "<long>"})
    chk.coverage.update({
        "evaluations": evaluations,
        "scripts": len(scripts),
        "distinct_nontrivial": len(nontrivial),
        "rule": "API scripts generated from the seed (families: boxes, funcs(nms/clip/area), kalman(box/point/vec), types(metric types, "
                "constraints, every VisualSortOptions builder method), sort, visual, batch_sort, batch_visual, defaults(constructors with omitted "
                "arguments + calls sensitive to each default), malformed(arguments the Rust API itself rejects)) + fixed probes; every instruction is executed through the Python module and through the Rust API and the two "
                "results compared exactly (floats as bit patterns; idle / wasted lists sorted by id; batch results keyed by scene, batch track ids "
                "up to the bijection of first occurrence, batch shard statistics as totals). evaluations = instructions compared; non-trivial = "
                "an instruction that returned a non-empty value on the python side, distinct by (operation, value)",
        "samples": samples,
        "input_distribution": {"families": dict(Counter(s["family"] for s in scripts)), "operations": dict(hist), "status": dict(status)},
        "python_vs_rust_differences": len(diffs),
        "driver_incidents": notes,
    })

    # ---- verdict ----------------------------------------------------------------------------------------------------
    reported = set()
    for s, d in diffs:
        if s["family"] == "probe:options-validation" and d["python"] != "err" and d["rust"] == "err":
            key = "C18:validation-bypassed:VisualSortOptions"
            bypassed = sorted({s2["method"] for s2, d2 in diffs if s2["family"] == "probe:options-validation" and d2["python"] != "err" and d2["rust"] == "err"})
            what = ("VisualSortOptions.%s accept(s) in Python an argument that the wrapped Rust builder method rejects "
                    "(the wrapper writes the field / calls an unchecked set_* accessor instead of the validating method)" % "/".join(bypassed))
        elif s["family"] == "probe:prediction-handle":
            key = "C18:VisualSortPredictionBatchRequest.prediction:handle-not-connected"
            what = ("the result handle returned by VisualSortPredictionBatchRequest.prediction() never receives the results of "
                    "BatchVisualSort.predict(request) in Python (the wrapper predicts on a rebuilt request with a new channel); in the "
                    "Rust API it is the handle the results arrive on")
        else:
            key = diff_key(d)
            what = "Python and the wrapped Rust API disagree: %s at %s: python=%s rust=%s" % (d["op"], d["path"] or "<result>", json.dumps(d["python"])[:200], json.dumps(d["rust"])[:200])
        if key in reported:
            continue
        reported.add(key)
        small = s["ins"]
        if chk.is_known(key) is None and not s["family"].startswith("probe:") and d["index"] >= 0:
            small = shrink(s["ins"], "shrink", budget=40 if chk.tier == "quick" else 120)
            p2, r2, _ = run_both([small], "shrunk", timeout=120)
            d2 = compare(small, p2[0], r2[0])
            if d2:
                d = d2
            else:
                small = s["ins"]
        chk.violation(key, what, {"family": s["family"], "script": small, "decoded": decode_script(small), "difference": d,
                                  "replay_cmd": "./check C18 --replay <this file>", "table_broken": table_broken, "failing_rows": rows})
        if len(reported) >= 6:
            break
    for nt in notes:
        key = "C18:driver-%s:%s" % (nt["driver"], "hang" if nt["rc"] == 124 else "crash")
        if key not in reported:
            reported.add(key)
            chk.violation(key, "the %s driver %s while executing a script (rc=%s)" % (nt["driver"], "hung" if nt["rc"] == 124 else "died", nt["rc"]),
                          {"script": scripts[nt["script"]]["ins"], "stderr": nt["stderr"], "table_broken": table_broken})
    if table_broken and not any(not k.startswith("C18:validation") and "handle-not-connected" not in k for k in reported):
        what = "the table proof no longer checks: " + "; ".join(b.split("\n")[0][:300] for b in table_broken)
        chk.violation("C18:table", what, {"broken": table_broken, "failing_rows": rows, "hint": "coq/gen/Bindings.v row(s) failing a checker of coq/theories/Model/Bindings.v; "
                                          "the differential run found no behavioural difference"}, found_input=False)
    elif table_broken:
        chk.log("table proof broken as well: " + "; ".join(b.split("\n")[0][:200] for b in table_broken))


def replay(chk, path):
    rep = json.load(open(path))
    if "script" not in rep:
        print("this replay has no script (table-only finding): rebuild the proof with ./check C18")
        okg, outg = generate_table()
        print(outg)
        ok, out = vlib.coq_build(["theories/Props/C18.vo"])
        print(out[-3000:])
        return 0 if ok else 1
    okm, outm = build_module()
    okh, outh = vlib.harness_build(["pyapi"])
    if not okm or not okh:
        print((outm if not okm else outh)[-3000:])
        return 2
    script = rep["script"]
    py, rs, notes = run_both([script], "replay", timeout=300)
    d = compare(script, py[0], rs[0])
    print("python:", json.dumps(py[0])[:3000])
    print("rust  :", json.dumps(rs[0])[:3000])
    print("difference:", json.dumps(d)[:2000] if d else None)
    print("REPRODUCED" if d or notes else "not reproduced")
    return 1 if d or notes else 0
