"""C06 - batch trackers refine simple trackers; one result per scene; no deadlock.

proof:          Props/C06.v (model Model/BatchProto.v, lemmas Proofs/BatchProtoProofs.v)
correspondence: harness bin `batch`: the REAL BatchSort/BatchVisualSort for distance_shards, voting_shards in 1..4 under
                randomised delay plans at the schedule points, next to one REAL Sort/VisualSort per scene;
                  (a) property oracle on the implementation's outputs (one result per scene, one record per detection
                      in order, per-scene equality with the simple tracker up to an injective id renaming, no hang),
                  (b) every recorded event trace is linearised (rules below) and validated as a complete run of
                      BatchProto by coqc (every label enabled, final state reached),
                  (c) monitor probes: all voting threads parked at a schedule point of batch k while predict(k+1) runs.
"""
import json
import os
from collections import Counter

import vlib
from props.c10 import ensure_cargo_cfg

PREAMBLE = """From Coq Require Import List NArith ZArith Bool.
From Similari Require Import Model.BatchProto.
Import ListNotations.
"""


# ---------------------------------------------------------------------------------------------------------
# parsing

def parse_hist(s):
    hist = []
    for b in s.split("/"):
        if not b:
            continue
        batch = []
        for sc in b.split("|"):
            sid, ds = sc.split(":", 1)
            batch.append((int(sid), [d.split(",") for d in ds.split(";") if d]))
        hist.append(batch)
    return hist


def enc_hist(hist):
    return "/".join("|".join("%d:%s" % (sid, ";".join(",".join(d) for d in ds)) for sid, ds in b) for b in hist)


def parse_scene_res(sc):
    sid, recs = sc.split(":", 1)
    out = []
    for r in recs.split(";"):
        if r:
            f = r.split(",")
            out.append({"id": int(f[0]), "epoch": int(f[1]), "len": int(f[2]), "custom": f[3], "scene": int(f[4]),
                        "vt": f[5], "obs": f[6], "pred": f[7]})
    return int(sid), out


def parse_line(line):
    d = {}
    for tok in line.split()[1:]:
        k, v = tok.split("=", 1)
        d[k] = v
    r = {"raw": line, "type": line.split()[0], "kind": d["kind"], "status": d["status"], "hist": parse_hist(d["hist"]),
         "log": [e for e in d.get("log", "").split(".") if e]}
    if r["type"] == "probe":
        r["site"] = d["site"]
        r["early"] = d["early"] == "1"
        return r
    r.update({"d": int(d["d"]), "v": int(d["v"]), "mode": d["mode"], "dseed": int(d["dseed"]),
              "oau": int(d.get("oau", "0")), "oac": int(d.get("oac", "0")), "ops": d.get("ops", "")})

    def op_results(x):
        out = []
        for o in x.split("/") if x else []:
            groups = {}
            if o != "-":
                for sc in o.split("|"):
                    if sc:
                        sid, recs = parse_scene_res(sc)
                        groups[sid] = recs
            out.append(groups)
        return out
    r["bops"] = op_results(d.get("bops", ""))
    r["sops"] = op_results(d.get("sops", ""))
    r["batch"] = [[parse_scene_res(sc) for sc in b.split("|") if sc] for b in d["batch"].split("/")] if d["batch"] else []
    simple = {}
    if d["simple"] and d["simple"] != "PANIC":
        for sc_calls in d["simple"].split("/"):
            for sc in sc_calls.split("|"):
                if sc:
                    sid, recs = parse_scene_res(sc)
                    simple.setdefault(sid, []).append(recs)
    r["simple"] = simple
    r["simple_panic"] = d["simple"] == "PANIC"
    return r


def case_text(r):
    if r["type"] == "probe":
        return "kind=%s site=%s hist=%s" % (r["kind"], r["site"], enc_hist(r["hist"]))
    return "kind=%s d=%d v=%d mode=%s dseed=%d oau=%d oac=%d ops=%s hist=%s" % (
        r["kind"], r["d"], r["v"], r["mode"], r["dseed"], r["oau"], r["oac"], r["ops"], enc_hist(r["hist"]))


# ---------------------------------------------------------------------------------------------------------
# property oracle

def det_box_key(det):
    # x, y, aspect, height, conf bits ; angle is None
    return "%s.%s.n.%s.%s.%s" % (det[0], det[1], det[2], det[3], det[4])


def oracle(r):
    """list of (key, what); empty when the run satisfies the property text"""
    bad = []
    if r["type"] == "probe":
        if r["status"] != "ok":
            bad.append(("C06:" + r["status"], "probe run did not complete: " + r["status"]))
        return bad
    if r["status"] != "ok":
        bad.append(("C06:" + r["status"], "submission / retrieval / shutdown did not complete (%s) although results are retrieved %s"
                    % (r["status"], "before the next submission" if r["mode"] == "A" else "from another thread")))
        return bad
    hist = r["hist"]
    if len(r["batch"]) != len(hist):
        bad.append(("C06:result-count", "results for %d batches, %d submitted" % (len(r["batch"]), len(hist))))
        return bad
    # one result per scene, one record per detection, in order
    for bi, (b, res) in enumerate(zip(hist, r["batch"])):
        want = sorted(sid for sid, _ in b)
        got = sorted(sid for sid, _ in res)
        if want != got:
            bad.append(("C06:one-result-per-scene", "batch %d: results for scenes %s, submitted %s" % (bi, got, want)))
            return bad
        dets = dict(b)
        for sid, recs in res:
            if len(recs) != len(dets[sid]):
                bad.append(("C06:one-record-per-detection", "batch %d scene %d: %d records for %d detections" % (bi, sid, len(recs), len(dets[sid]))))
                return bad
            for k, (rec, det) in enumerate(zip(recs, dets[sid])):
                if rec["obs"] != det_box_key(det) or rec["scene"] != sid:
                    bad.append(("C06:record-order", "batch %d scene %d record %d does not belong to detection %d" % (bi, sid, k, k)))
                    return bad
    # per-scene refinement up to renaming of ids
    owner = {}
    maps = {}
    for sid in sorted(set(s for b in hist for s, _ in b)):
        seq_batch = [dict(res)[sid] for b, res in zip(hist, r["batch"]) if sid in dict(b)]
        seq_simple = r["simple"].get(sid, [])
        if len(seq_batch) != len(seq_simple):
            bad.append(("C06:refinement", "scene %d: %d calls vs %d" % (sid, len(seq_batch), len(seq_simple))))
            continue
        fwd, bwd = {}, {}
        maps[sid] = fwd
        for ci, (cb, cs) in enumerate(zip(seq_batch, seq_simple)):
            if len(cb) != len(cs):
                bad.append(("C06:refinement", "scene %d call %d: %d records vs %d" % (sid, ci, len(cb), len(cs))))
                break
            stop = False
            for k, (x, y) in enumerate(zip(cb, cs)):
                for f in ("epoch", "len", "custom", "scene", "vt", "obs", "pred"):
                    if x[f] != y[f]:
                        bad.append(("C06:refinement", "scene %d call %d record %d: %s differs (batch %s, simple %s)" % (sid, ci, k, f, x[f], y[f])))
                        stop = True
                        break
                if stop:
                    break
                if fwd.setdefault(x["id"], y["id"]) != y["id"] or bwd.setdefault(y["id"], x["id"]) != x["id"]:
                    bad.append(("C06:refinement", "scene %d call %d record %d: grouping into tracks differs (batch id %d, simple id %d; no id renaming exists)"
                                % (sid, ci, k, x["id"], y["id"])))
                    stop = True
                    break
                if owner.setdefault(x["id"], sid) != sid:
                    bad.append(("C06:refinement", "track id %d is used in scenes %d and %d" % (x["id"], owner[x["id"]], sid)))
                    stop = True
                    break
            if stop:
                break
    # lifecycle calls (wasted / idle_tracks_with_scene hand out tracks): the same tracks per scene, up to the id renaming
    if not bad and (r["bops"] or r["sops"]):
        names = [o.split(":", 1)[1] for o in r["ops"].split(";") if o]
        if len(r["bops"]) != len(r["sops"]):
            bad.append(("C06:lifecycle", "lifecycle calls answered: batch %d, simple %d" % (len(r["bops"]), len(r["sops"]))))
        for oi, (gb, gs) in enumerate(zip(r["bops"], r["sops"])):
            name = names[oi] if oi < len(names) else "?"
            for sid in sorted(set(gb) | set(gs)):
                fwd = maps.get(sid, {})
                rb = dict((fwd.get(x["id"], ("unknown", x["id"])), x) for x in gb.get(sid, []))
                rs = dict((x["id"], x) for x in gs.get(sid, []))
                if set(rb) != set(rs):
                    bad.append(("C06:lifecycle", "call %d (%s), scene %d: the batch tracker hands out tracks %s (simple-tracker names), the simple tracker %s"
                                % (oi, name, sid, sorted(rb, key=str), sorted(rs))))
                    break
                for k in rs:
                    for f in ("epoch", "len", "custom", "scene", "obs", "pred"):
                        if rb[k][f] != rs[k][f]:
                            bad.append(("C06:lifecycle", "call %d (%s), scene %d track %s: %s differs (batch %s, simple %s)"
                                        % (oi, name, sid, k, f, rb[k][f], rs[k][f])))
                            break
            if bad:
                break
    return bad


# ---------------------------------------------------------------------------------------------------------
# trace linearisation -> BatchProto labels
#
# hook-exact steps: P (monitor passed), D (scene dispatched), J (job begin), W (store write) are placed where logged.
# The send happens between S (logged before it) and E (logged after the decrement, while the monitor mutex is still
# held, so E is also exact for the decrement); the consumer's C is logged atomically with the removal from the
# bounded channel.  Hence: send(s) is placed as late as possible = immediately before the earlier of C(s) and E(s);
# the decrement at E(s); the consume at C(s).  For a conforming implementation this is always a run of the model
# (the channel holds at most one message, so the latest position of a send never finds the model's channel full).

def linearise(r):
    """-> (V, batches [[(scene, ndets)...]...], labels) or raises ValueError on a malformed trace.
    D is logged after the job has been queued, so a voting thread's J may precede it in the log: the model's dispatch
    step is placed at the earlier of D(s) and J(s)."""
    ev = []
    for e in r["log"]:
        kind = e[0]
        arg, th = e[1:].split("@")
        ev.append((kind, int(arg), int(th)))
    V = r["v"]
    hist = r["hist"]
    # pass 1: dispatch order of every batch (HashMap order, as observed)
    batches = []
    for kind, arg, th in ev:
        if kind == "P":
            if len(batches) >= len(hist):
                raise ValueError("more monitor passes than batches")
            batches.append([])
        elif kind == "D":
            if not batches:
                raise ValueError("dispatch before the monitor was passed")
            nd = dict((s, len(ds)) for s, ds in hist[len(batches) - 1]).get(arg)
            if nd is None:
                raise ValueError("dispatched scene %d is not in batch %d" % (arg, len(batches) - 1))
            batches[-1].append((arg, nd))
    vof = {}
    for bi, b in enumerate(batches):
        for i, (s, _) in enumerate(b):
            vof[(bi, s)] = i % V
    # pass 2
    labels = []
    cur = -1
    fired = 0            # dispatch steps of the current batch already placed
    end_fired = True     # the step that leaves the dispatch loop
    sent = set()
    consumed = set()
    thread_of = {}

    def fire_dispatch_upto(scene):
        nonlocal fired
        order = [s for s, _ in batches[cur]]
        if scene not in order:
            raise ValueError("voting event for scene %d which is not in batch %d" % (scene, cur))
        k = order.index(scene)
        while fired <= k:
            labels.append("BMain")
            fired += 1

    def fire_end():
        nonlocal end_fired
        if not end_fired:
            if fired != len(batches[cur]):
                raise ValueError("batch %d: only %d of %d scenes dispatched" % (cur, fired, len(batches[cur])))
            labels.append("BMain")
            end_fired = True

    for kind, arg, th in ev:
        if kind == "P":
            if cur >= 0:
                fire_end()
            cur += 1
            fired = 0
            end_fired = False
            labels.append("BMain")
        elif kind == "D":
            fire_dispatch_upto(arg)
        elif kind in "JWSE":
            if cur < 0:
                raise ValueError("voting event before any batch")
            fire_dispatch_upto(arg)
            v = vof[(cur, arg)]
            if thread_of.setdefault(v, th) != th:
                raise ValueError("jobs of voting queue %d ran on two OS threads" % v)
            if kind in "JW":
                labels.append("BVote %d" % v)
            elif kind == "E":
                if (cur, arg) not in sent:
                    labels.append("BVote %d" % v)
                    sent.add((cur, arg))
                labels.append("BVote %d" % v)
        elif kind == "C":
            b = None
            for bi in range(len(batches)):
                if arg in [s for s, _ in batches[bi]] and (bi, arg) not in consumed:
                    b = bi
                    break
            if b is None:
                raise ValueError("consumed a result of scene %d that was never dispatched" % arg)
            if (b, arg) not in sent:
                labels.append("BVote %d" % vof[(b, arg)])
                sent.add((b, arg))
            consumed.add((b, arg))
            labels.append("BConsume %d" % b)
        elif kind == "y":
            if cur >= 0:
                fire_end()
            else:
                labels.append("BMain")      # no batch at all: MWait 0 -> shutdown
            for v in range(V):
                labels += ["BMain", "BVote %d" % v, "BMain"]
            labels.append("BMain")
    if len(set(thread_of.values())) != len(thread_of):
        raise ValueError("two voting queues share an OS thread")
    return V, batches, labels


def coq_trace(V, batches, labels):
    bs = vlib.coq_list([vlib.coq_list(["(%d%%N, %d)" % (s, n) for s, n in b]) for b in batches])
    return "BatchInst.run_trace %d %s %s" % (V, bs, vlib.coq_list(labels))


def nonserial(r):
    """two jobs overlap in the log, or dispatching overlaps a job of the same batch"""
    open_jobs = 0
    for e in r["log"]:
        k = e[0]
        if k == "J":
            open_jobs += 1
            if open_jobs >= 2:
                return True
        elif k == "E":
            open_jobs -= 1
        elif k == "D" and open_jobs >= 1:
            return True
    return False


# ---------------------------------------------------------------------------------------------------------

def run_text(text):
    path = os.path.join(vlib.ALT or vlib.CACHE, "c06_replay_%d.txt" % os.getpid())
    with open(path, "w") as fh:
        fh.write(text + "\n")
    rc, out, err = vlib.harness_run("batch", ["replay", "--file", path], timeout=300)
    os.remove(path)
    lines = [l for l in out.split("\n") if l.startswith("run ") or l.startswith("probe ")]
    return parse_line(lines[0]) if lines else None


def reference_is_deterministic(r, tries=6):
    """The per-scene simple trackers are sequential; if they answer differently on identical input, the input contains
    an exact tie (the voting engines then depend on HashMap iteration order) and the comparison with the batch tracker
    says nothing about the property. Returns False when such a tie is demonstrated."""
    seen = set()
    for _ in range(tries):
        x = run_text(case_text(r))
        if x is None or x["type"] != "run":
            continue
        seen.add(json.dumps(x["simple"], sort_keys=True))
        if len(seen) > 1:
            return False
    return True


def shrink(r, key):
    """drop trailing batches, then whole scenes, while the same kind of failure persists (each candidate tried twice,
    the failure may depend on the schedule)"""
    def fails(rr):
        for _ in range(2):
            x = run_text(case_text(rr))
            if x is not None and any(k == key for k, _ in oracle(x)):
                return key != "C06:refinement" or rr["kind"] != "visual" or reference_is_deterministic(rr)
        return False
    cur = r
    budget = 24
    while len(cur["hist"]) > 1 and budget > 0:
        cand = dict(cur)
        cand["hist"] = cur["hist"][:-1]
        budget -= 1
        if fails(cand):
            cur = cand
        else:
            break
    changed = True
    while changed and budget > 0:
        changed = False
        for bi, b in enumerate(cur["hist"]):
            if len(b) <= 1:
                continue
            for si in range(len(b)):
                cand = dict(cur)
                cand["hist"] = [list(x) for x in cur["hist"]]
                del cand["hist"][bi][si]
                budget -= 1
                if fails(cand):
                    cur = cand
                    changed = True
                    break
                if budget <= 0:
                    break
            if changed or budget <= 0:
                break
    return cur


def run(chk):
    props = os.path.join(vlib.COQ, "theories", "Props", "C06.v")
    vlib.proof_stage(chk, props)
    if chk.tier == "thorough":
        vlib.coqchk_stage(chk, "Similari.Props.C06")

    ensure_cargo_cfg()
    ok, out = vlib.harness_build(["batch"])
    if not ok:
        chk.broken.append("harness build failed:\n" + out[-2000:])
        chk.violation("harness-build", "the correspondence harness does not build against the repository", {"log": out[-4000:]}, found_input=False)
        chk.coverage.update({"evaluations": 0})
        return
    n = 160 if chk.tier == "quick" else 240
    rc, out, err = vlib.harness_run("batch", ["gen", "--seed", chk.seed, "--n", n, "--tier", chk.tier], timeout=1500)
    runs = [parse_line(l) for l in out.split("\n") if l.startswith("run ") or l.startswith("probe ")]
    chk.log("implementation: %d runs/probes (harness rc=%d)" % (len(runs), rc))
    if rc not in (0, 3) or not runs:
        chk.broken.append("harness batch gen failed rc=%d: %s" % (rc, err[-1500:]))

    hist = Counter()
    nontrivial = set()
    oracle_fail = []
    ties_skipped = []
    probe_fail = []
    trace_inputs = []
    trace_err = []
    for i, r in enumerate(runs):
        if r["type"] == "probe":
            hist["probe:" + r["site"]] += 1
            if r["early"]:
                probe_fail.append(i)
        else:
            hist["%s d=%d v=%d" % (r["kind"], r["d"], r["v"])] += 1
            hist["mode=" + r["mode"]] += 1
            hist["batches=%d" % len(r["hist"])] += 1
            for o in r["ops"].split(";"):
                if o:
                    hist["lifecycle:" + o.split(":", 1)[1].split(".")[0]] += 1
            if r["kind"] == "visual":
                hist["own_area use=%s collect=%s" % ("on" if r["oau"] else "off", "on" if r["oac"] else "off")] += 1
            if any(len(b) >= 2 for b in r["hist"]) and r["v"] >= 2 and nonserial(r):
                nontrivial.add(case_text(r))
        bad = oracle(r)
        if bad and bad[0][0] == "C06:refinement" and r["kind"] == "visual" and not reference_is_deterministic(r):
            ties_skipped.append(i)
            bad = []
        if bad:
            oracle_fail.append((i, bad))
        if r["status"] == "ok" and r["type"] == "run":
            try:
                V, batches, labels = linearise(r)
                trace_inputs.append((i, V, batches, labels))
            except ValueError as e:
                trace_err.append((i, str(e)))

    model_bad = []
    model_vo = os.path.join(vlib.COQ, "theories", "Model", "BatchProto.vo")
    validated = 0
    if os.path.exists(model_vo) and trace_inputs:
        try:
            vals = vlib.coq_eval(PREAMBLE, [coq_trace(V, b, l) for _, V, b, l in trace_inputs], shard_size=20, tag="c06")
            for (i, V, b, l), v in zip(trace_inputs, vals):
                cnt, fin = vlib.parse_coq_value(v)
                validated += 1
                if cnt != len(l) or not fin:
                    model_bad.append((i, "label %d of %d (%s) is not enabled in BatchProto%s" % (
                        cnt, len(l), l[cnt] if cnt < len(l) else "-", "" if cnt < len(l) else "; final state not reached")))
        except (RuntimeError, AssertionError, ValueError) as e:
            chk.broken.append("model evaluation failed: %s" % str(e)[-1500:])
    elif not os.path.exists(model_vo):
        chk.broken.append("model not built; traces not validated")

    chk.coverage.update({
        "evaluations": len(runs),
        "distinct_nontrivial": len(nontrivial),
        "rule": "a run = (tracker kind, distance_shards, voting_shards in 1..4 (all 16 pairs), retrieval mode A=same thread before the "
                "next submission / B=another thread, delay plan seed, history of 2-6 batches over 1-4 scenes with 0-4 (crowded: 6-11) "
                "well separated objects each). non-trivial = some batch has >= 2 scenes, >= 2 voting threads and the recorded "
                "interleaving is not serial (two jobs overlap, or a job runs while predict still dispatches); distinct by (case, delay seed)",
        "samples": [case_text(r)[:300] for r in runs[:2]],
        "input_distribution": dict(hist),
        "traces_validated_against_BatchProto": validated,
        "trace_validation_failures": len(model_bad) + len(trace_err),
        "monitor_probe_failures": len(probe_fail),
        "spec_oracle_failures": len(oracle_fail),
        "runs_skipped_exact_tie_in_reference": len(ties_skipped),
    })

    if oracle_fail:
        seen = set()
        for i, bad in oracle_fail:
            key, what = bad[0]
            if key in seen:
                continue
            seen.add(key)
            r = runs[i]
            small = r
            if r["type"] == "run" and not r["ops"] and key in ("C06:refinement", "C06:one-result-per-scene", "C06:one-record-per-detection", "C06:record-order"):
                try:
                    small = shrink(r, key)
                except Exception:
                    small = r
            chk.violation(key, what, {
                "input": case_text(small),
                "log": small.get("log"),
                "replay_cmd": "printf '%s\\n' '" + case_text(small) + "' > /tmp/c06.txt && " + vlib.harness_bin("batch") + " replay --file /tmp/c06.txt",
                "failing_runs": len(oracle_fail),
                "broken": chk.broken})
    if probe_fail and not oracle_fail:
        # the monitor deviates from BatchProto (theorem monitor_protocol no longer describes the code); no wrong output
        # was observed in this run, so this is a broken correspondence, not a failing input
        r = runs[probe_fail[0]]
        chk.violation("C06:monitor-protocol",
                      "correspondence broken: predict of the next batch got past the monitor while every voting thread was parked at %s of "
                      "the previous batch (BatchProto: the monitor is released only after every job of the batch has written, sent "
                      "and decremented); the protocol theorems no longer describe the implementation" % r["site"],
                      {"probe": case_text(r), "log": r["log"],
                       "replay_cmd": "printf '%s\\n' '" + case_text(r) + "' > /tmp/c06.txt && " + vlib.harness_bin("batch") + " replay --file /tmp/c06.txt",
                       "broken": chk.broken}, found_input=False)
    if not oracle_fail and not probe_fail and (model_bad or trace_err or chk.broken):
        what = "proof or correspondence no longer checks: " + "; ".join(b.split("\n")[0][:200] for b in chk.broken)
        rep = {"broken": chk.broken}
        if model_bad:
            i, d = model_bad[0]
            rep["trace_case"] = case_text(runs[i])
            rep["trace_difference"] = d
            rep["trace_log"] = runs[i]["log"]
            what += " %d recorded traces are not runs of BatchProto (%s)" % (len(model_bad), d)
        if trace_err:
            i, d = trace_err[0]
            rep["trace_case2"] = case_text(runs[i])
            rep["trace_error"] = d
            what += " %d traces malformed (%s)" % (len(trace_err), d)
        chk.violation("C06:tie-broken", what, rep, found_input=False)


def replay(chk, path):
    rep = json.load(open(path))
    ensure_cargo_cfg()
    vlib.harness_build(["batch"])
    text = rep.get("input") or rep.get("trace_case")
    worst = []
    for _ in range(5):
        r = run_text(text)
        if r is None:
            continue
        bad = oracle(r)
        if r["type"] == "probe" and r["early"]:
            bad.append(("C06:monitor", "monitor passed early"))
        if bad and bad[0][0] == "C06:refinement" and r["kind"] == "visual" and not reference_is_deterministic(r, tries=12):
            print("the per-scene simple tracker answers differently on this very input (exact tie in the voting stage):")
            print("the comparison says nothing about the property; not a violation")
            return 0
        if bad:
            worst = bad
            print(r["raw"][:600])
            break
    for k, w in worst:
        print("ORACLE:", k, w)
    print("REPRODUCED" if worst else "not reproduced in 5 attempts (the failure may depend on the schedule)")
    return 1 if worst else 0
