"""C01 (output contract) for the VISUAL trackers: VisualSort and BatchVisualSort driven through the `visual` harness, the
C01 property oracle applied DIRECTLY to the implementation's records.  No model, no tie skipping: the clause "within one
call no two detections receive the same track id" must hold on exactly equal vote weights too.

    c01_visual_stage(chk)          called from tools/props/c01.py after the SORT part
    c01_visual_replay(chk, path)   returns None when the replay file is not one of this stage, else 0 / 1
"""
import json
import time
from collections import Counter

import vlib
from vlib import f32_bits_to_fraction
from props import c13 as base


def _spec_dets(spec):
    """per call: list of (uid, feature text, box text) from the specification line"""
    calls = []
    for c in [x for x in spec["calls_txt"].split(";") if x]:
        sc, ds = c.split("@")
        dets = []
        for d in [x for x in ds.split("|") if x]:
            p = d.split(",")
            dets.append((int(p[0]), p[6], ",".join(p[2:6])))
        calls.append(dets)
    return calls


def oracle_case(case):
    """C01 clauses on the records of one history. Returns (list of (clause, call index, what), stats)."""
    fails = []
    stats = Counter()
    issued = set()          # every id that has appeared in a record so far
    length = {}             # id -> number of detections absorbed (= track length)
    scene_epoch = {}
    batch = case["spec"]["trk"] == "bvs"
    for ci, call in enumerate(case["calls"]):
        if call["status"] == "PANIC":
            fails.append(("panic", ci, "the tracker panicked"))
            break
        if call["status"] != "ok":
            break
        dets, recs = call["dets"], call["recs"]
        stats["calls"] += 1
        stats["records"] += len(recs)
        if batch and not dets:
            continue        # an empty scene does not reach the batch tracker
        if len(recs) != len(dets):
            fails.append(("one-record-per-detection", ci, "%d detections, %d records" % (len(dets), len(recs))))
            break
        want_epoch = scene_epoch.get(call["scene"], 0) + 1
        scene_epoch[call["scene"]] = want_epoch
        if call.get("after") is not None and call["after"] != want_epoch:
            fails.append(("epoch", ci, "scene %d is at epoch %d after its call number %d" % (call["scene"], call["after"], want_epoch)))
        ids = [r["id"] for r in recs]
        if len(set(ids)) != len(ids):
            dup = [i for i, n in Counter(ids).items() if n > 1]
            fails.append(("duplicate-id", ci, "detections %s of one call received the same track id %s" % (
                [d["uid"] for d, r in zip(dets, recs) if r["id"] in dup], dup)))
        for d, r in zip(dets, recs):
            # order / echo: the i-th record echoes the i-th detection's box (uid carried by the box confidence), custom id, scene
            if r["obs"] != d["uid"]:
                fails.append(("echo-box", ci, "record %d echoes the observed box of detection %s, expected %d" % (r["id"], r["obs"], d["uid"])))
            if r["custom"] != d["uid"]:
                fails.append(("echo-custom-id", ci, "record of detection %d carries custom object id %s" % (d["uid"], r["custom"])))
            if r["scene"] != call["scene"]:
                fails.append(("echo-scene", ci, "record of detection %d carries scene %d, submitted to scene %d" % (d["uid"], r["scene"], call["scene"])))
            if r["epoch"] != want_epoch:
                fails.append(("epoch", ci, "record of detection %d carries epoch %d, the scene's current epoch is %d" % (d["uid"], r["epoch"], want_epoch)))
            if r["id"] in issued:
                if r["len"] == 1:
                    fails.append(("id-reissued", ci, "detection %d starts a track (length 1) with id %d that was issued before" % (d["uid"], r["id"])))
                    length[r["id"]] = 1
                else:
                    length[r["id"]] = length.get(r["id"], 0) + 1      # continues a known track
            else:
                issued.add(r["id"])
                length[r["id"]] = 1
                stats["new_tracks"] += 1
            if r["len"] != length[r["id"]]:
                fails.append(("length", ci, "record of detection %d: track %d length %d, the track has absorbed %d detections" % (d["uid"], r["id"], r["len"], length[r["id"]])))
        # the record is the stored track read back: stored length agrees for the tracks touched
        for tid, t in call["trk"].items():
            if tid in length and t["len"] != length[tid]:
                fails.append(("length", ci, "stored track %d has length %d after absorbing %d detections" % (tid, t["len"], length[tid])))
    return fails, stats


def nontrivial_calls(case):
    """calls with an exact duplicate (same feature vector twice) or >= 2 detections within the visual threshold of a
    stored feature of one common track"""
    spec = case["spec"]
    sd = _spec_dets(spec)
    n = 0
    for ci, call in enumerate(case["calls"]):
        if call["status"] != "ok":
            break
        dup = False
        if ci < len(sd):
            feats = [f for _, f, _ in sd[ci] if f != "-"]
            dup = len(set(feats)) < len(feats)
        per_track = Counter()
        for (cu, tid), tab in call["fd"].items():
            ok = False
            for bits in tab.values():
                dist = f32_bits_to_fraction(bits[0])
                if (dist >= spec["vis_thr"]) if spec["vis_cos"] else (dist <= spec["vis_thr"]):
                    ok = True
            if ok:
                per_track[tid] += 1
        if dup or any(v >= 2 for v in per_track.values()):
            n += 1
    return n


def _shrink_dets(line, fails, budget=40):
    """after the call-level shrink: drop single detections while the failure persists"""
    toks = [t for t in line.split() if t.startswith("calls=")]
    calls = [c for c in toks[0][len("calls="):].split(";") if c]
    tries = 0
    changed = True
    while changed and tries < budget:
        changed = False
        for i in range(len(calls) - 1, -1, -1):
            sc, ds = calls[i].split("@")
            dl = [d for d in ds.split("|") if d]
            for j in range(len(dl)):
                if tries >= budget:
                    break
                cand = calls[:i] + [sc + "@" + "|".join(dl[:j] + dl[j + 1:])] + calls[i + 1:]
                tries += 1
                l2 = base.spec_with_calls(line, ";".join(cand))
                if fails(l2):
                    calls = cand
                    changed = True
                    break
            if changed:
                break
    return base.spec_with_calls(line, ";".join(calls))


def _run_line(line):
    cs = base.run_spec_lines([line], tables=False, lax=True)
    return cs[0] if cs else None


def c01_visual_stage(chk):
    ok, out = vlib.harness_build(["visual"])
    if not ok:
        chk.broken.append("visual harness build failed:\n" + out[-2000:])
        chk.violation("C01:visual:harness-build", "the `visual` harness does not build against /repo", {"log": out[-4000:]}, found_input=False)
        chk.coverage["visual"] = {"evaluations": 0}
        return
    n = 250 if chk.tier == "quick" else 3000
    t0 = time.time()
    rc, out, err = vlib.harness_run("visual", ["c01", "--seed", chk.seed, "--n", n, "--tier", chk.tier], timeout=1500)
    cases = base.parse_output(out)
    hist = Counter()
    stats = Counter()
    failing = []
    nontriv = 0
    for i, c in enumerate(cases):
        s = c["spec"]
        hist["tracker=%s" % s["trk"]] += 1
        hist["shards=%d" % s["shards"]] += 1
        hist["positional=%s" % ("maha" if s["pos_iou"] is None else "iou")] += 1
        hist["visual=%s" % ("cosine" if s["vis_cos"] else "euclidean")] += 1
        f, st = oracle_case(c)
        stats.update(st)
        nontriv += nontrivial_calls(c)
        for call in c["calls"]:
            if call["status"] == "ok":
                stats["visual_attach"] += sum(1 for r in call["recs"] if r["vt"] == "V")
        if f:
            failing.append((i, f))
    chk.log("visual trackers: %d histories, %d calls, %d records (%.1fs)" % (len(cases), stats["calls"], stats["records"], time.time() - t0))
    chk.coverage["visual"] = {
        "evaluations": len(cases),
        "calls": stats["calls"], "records": stats["records"], "new_tracks": stats["new_tracks"], "visual_attachments": stats["visual_attach"],
        "distinct_nontrivial": nontriv,
        "rule": "VisualSort / BatchVisualSort histories: 1-4 objects with identity features, every third emitted object as 2-4 copies (same box and "
                "feature, or same feature with a shifted box; equal quality), crowded or spread layouts, objects appearing / disappearing, missing "
                "features and qualities, 1-3 scenes, IoU / Mahalanobis, shards 1-4, Euclidean / cosine thresholds, min votes and minimal length 1-2. "
                "non-trivial = calls with an exact duplicate feature or >= 2 detections within the visual threshold of a stored feature of one common "
                "track. The oracle is applied to every call, equal vote weights included",
        "samples": [c["spec"]["line"][:300] for c in cases[:3]],
        "input_distribution": dict(hist),
        "oracle_failures": len(failing),
        "wall_s": round(time.time() - t0, 1),
    }
    if not failing:
        return
    # one violation per clause, each shrunk
    seen = set()
    for i, f in failing:
        clause, ci0, what0 = f[0]
        if clause in seen:
            continue
        seen.add(clause)
        try:
            c = cases[i]

            def fails(line, clause=clause):
                cc = _run_line(line)
                return cc is not None and any(k == clause for k, _, _ in oracle_case(cc)[0])
            calls = [x for x in c["spec"]["calls_txt"].split(";") if x]
            line = base.spec_with_calls(c["spec"]["line"], ";".join(calls[:ci0 + 1]))
            if not fails(line):
                line = c["spec"]["line"]
            small = base.shrink_spec(line, fails, budget=30)
            small = _shrink_dets(small, fails, budget=40)
            cc = _run_line(small)
            f2 = oracle_case(cc)[0] if cc else []
            recs = [[(d["uid"], r["id"], r["len"], r["vt"]) for d, r in zip(call["dets"], call["recs"])] for call in (cc["calls"] if cc else [])]
            chk.violation("C01:visual:" + clause, what0,
                          {"stage": "visual_c01", "input": small, "tracker": c["spec"]["trk"],
                           "oracle_failures": [list(x) for x in (f2 or f)[:6]],
                           "records_per_call (detection uid, track id, length, voting)": recs,
                           "other_failing_histories": len(failing) - 1,
                           "replay_cmd": "./check C01 --replay <this file>   (runs: visual replay --file <spec> --notables --lax)"})
        except Exception as ex:      # the shrinker / re-run must never take the check down: report the unshrunk history
            import traceback
            line0 = cases[i]["spec"]["line"] if "spec" in cases[i] else cases[i].get("line")
            chk.violation("C01:visual:" + clause, what0,
                          {"stage": "visual_c01", "input": line0, "clause": clause, "oracle_failures": [list(x) for x in f[:6]],
                           "note": "not shrunk: " + traceback.format_exc()[-800:]})
        if len(seen) >= 3:
            break


def c01_visual_replay(chk, path):
    rep = json.load(open(path))
    if rep.get("stage") != "visual_c01":
        return None
    vlib.harness_build(["visual"])
    cc = _run_line(rep["input"])
    f = oracle_case(cc)[0] if cc else [("no-output", 0, "harness printed nothing")]
    for call in (cc["calls"] if cc else []):
        print("call %d scene %d:" % (call["j"], call["scene"]), [(d["uid"], r["id"], r["len"], r["vt"]) for d, r in zip(call["dets"], call["recs"])])
    for x in f[:10]:
        print("oracle failure:", x)
    print("REPRODUCED" if f else "not reproduced")
    return 1 if f else 0
