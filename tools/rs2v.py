#!/usr/bin/env python3
"""rs2v: translator from a small Rust subset to Gallina (DESIGN.md section 3.1).

Regenerates /verif/coq/gen/{Consts.v,Scalar.v} and gen/manifest.json from /repo's CURRENT sources on
every run. The items to translate are listed in ITEMS below; each is located in the source by file +
enclosing `impl` header + fn name (or by an anchored snippet pattern for closure bodies), parsed by a
recursive-descent parser for the expression subset, type-checked just enough to choose between N / Z /
numeric (NumOps) / bool operators, and printed as a Gallina Definition over an arbitrary `num : NumOps`.

Subset: let (ident or tuple pattern, shadowing allowed), if/else, arithmetic, comparisons, && || !, unary -,
deref/ref (erased), `as` casts (erased, recorded), method calls abs/max/min/floor/sqrt(only in *_sq recipes)/
unwrap_or/is_some/is_none/clone/clamp, Option map/filter with a closure, local closures (inlined), vec!, field access, tuple literals, struct literals, Some/None/Ok/Err,
calls of other translated items, assert!(..) statements (collected into <name>_pre), and `match` on an
Option with Some(x)/None arms or a two-arm tuple-of-options match.
Anything outside the subset raises Untranslatable: the tie is then broken and the check reports it.
"""
import argparse
import hashlib
import json
import os
import re
import sys
from fractions import Fraction


class Untranslatable(Exception):
    pass


# ------------------------------------------------------------------------------------------------
# tokenizer

TOKEN_RE = re.compile(r"""
    (?P<ws>\s+|//[^\n]*|/\*.*?\*/)
  | (?P<str>"(?:[^"\\]|\\.)*")
  | (?P<float>\d[\d_]*\.\d[\d_]*(?:[eE][+-]?\d+)?(?:_?f32|_?f64)?|\d[\d_]*[eE][+-]?\d+(?:_?f32|_?f64)?|\d[\d_]*(?:_?f32|_?f64)|\d[\d_]*\.(?![\w.]))
  | (?P<int>\d[\d_]*(?:_?(?:usize|u64|i64|u32|i32|u8|isize))?)
  | (?P<ident>[A-Za-z_][A-Za-z_0-9]*!?)
  | (?P<op>::|->|=>|==|!=|<=|>=|-=|\+=|&&|\|\||\.\.=|\.\.|[-+*/%<>=!&|.,;:(){}\[\]#?@])
""", re.X | re.S)


def tokenize(src):
    toks = []
    pos = 0
    while pos < len(src):
        m = TOKEN_RE.match(src, pos)
        if not m:
            raise Untranslatable("cannot tokenize at: %r" % src[pos:pos + 30])
        pos = m.end()
        k = m.lastgroup
        if k == "ws":
            continue
        toks.append((k, m.group(k)))
    return toks


# ------------------------------------------------------------------------------------------------
# AST: tuples ('kind', ...)

class Parser:
    def __init__(self, toks):
        self.t = toks
        self.i = 0

    def peek(self, k=0):
        return self.t[self.i + k] if self.i + k < len(self.t) else ("eof", "")

    def next(self):
        tok = self.peek()
        self.i += 1
        return tok

    def accept(self, val):
        if self.peek()[1] == val:
            self.i += 1
            return True
        return False

    def expect(self, val):
        tok = self.next()
        if tok[1] != val:
            raise Untranslatable("expected %r, got %r (context: %s)" % (val, tok[1], " ".join(x[1] for x in self.t[max(0, self.i - 8):self.i + 4])))
        return tok

    # block := '{' stmt* expr? '}'
    def block(self):
        self.expect("{")
        stmts = []
        result = None
        while not self.accept("}"):
            if self.peek()[1] == "let":
                stmts.append(self.let_stmt())
                continue
            if self.peek()[1] in ("assert!",):
                self.next()
                self.expect("(")
                cond = self.expr()
                # optional message args
                while self.accept(","):
                    if self.peek()[1] == ")":
                        break
                    self.skip_expr_tokens()
                self.expect(")")
                self.accept(";")
                stmts.append(("assert", cond))
                continue
            e = self.expr()
            if self.peek()[1] in ("=", "-=", "+="):
                op = self.next()[1]
                rhs = self.expr()
                self.expect(";")
                stmts.append(("assign", e, op, rhs))
                continue
            if self.accept(";"):
                stmts.append(("expr", e))
            elif e[0] in ("if", "iflet", "match") and self.peek()[1] != "}":
                stmts.append(("expr", e))       # block-like expression used as a statement
            else:
                result = e
                self.expect("}")
                break
        return ("block", stmts, result)

    def skip_expr_tokens(self):
        depth = 0
        while True:
            k, v = self.peek()
            if k == "eof":
                raise Untranslatable("eof in macro args")
            if v in "([{":
                depth += 1
            elif v in ")]}":
                if depth == 0:
                    return
                depth -= 1
            elif v == "," and depth == 0:
                return
            self.next()

    def let_stmt(self):
        self.expect("let")
        self.accept("mut")
        pat = self.pattern()
        if self.accept(":"):
            self.type_()
        self.expect("=")
        e = self.expr()
        self.expect(";")
        return ("let", pat, e)

    def pattern(self):
        if self.accept("("):
            items = []
            while not self.accept(")"):
                items.append(self.pattern())
                self.accept(",")
            return ("ptuple", items)
        self.accept("&")
        self.accept("mut")
        k, v = self.next()
        if k != "ident":
            raise Untranslatable("pattern: %r" % v)
        if v in ("Some", "Ok", "Err") and self.accept("("):
            inner = self.pattern()
            self.expect(")")
            return ("pctor", v, inner)
        return ("pvar", v)

    def type_closure(self):
        # skip a type inside a closure parameter list (ends at , or |)
        depth = 0
        while True:
            k, v = self.peek()
            if v in ("<", "(", "["):
                depth += 1
            elif v in (">", ")", "]"):
                depth -= 1
            elif v in (",", "|") and depth == 0:
                return
            elif k == "eof":
                raise Untranslatable("eof in closure type")
            self.next()

    def type_(self):
        # skip a type
        depth = 0
        while True:
            k, v = self.peek()
            if v in ("<", "(", "["):
                depth += 1
            elif v in (">", ")", "]"):
                if depth == 0:
                    return
                depth -= 1
            elif v in ("=", ",", ";", "{") and depth == 0:
                return
            self.next()

    # precedence climbing
    def expr(self):
        return self.or_expr()

    def or_expr(self):
        e = self.and_expr()
        while self.peek()[1] == "||":
            self.next()
            e = ("bin", "||", e, self.and_expr())
        return e

    def and_expr(self):
        e = self.cmp_expr()
        while self.peek()[1] == "&&":
            self.next()
            e = ("bin", "&&", e, self.cmp_expr())
        return e

    def cmp_expr(self):
        e = self.add_expr()
        if self.peek()[1] in ("==", "!=", "<", ">", "<=", ">="):
            op = self.next()[1]
            e = ("bin", op, e, self.add_expr())
        return e

    def add_expr(self):
        e = self.mul_expr()
        while self.peek()[1] in ("+", "-"):
            op = self.next()[1]
            e = ("bin", op, e, self.mul_expr())
        return e

    def mul_expr(self):
        e = self.cast_expr()
        while self.peek()[1] in ("*", "/"):
            op = self.next()[1]
            e = ("bin", op, e, self.cast_expr())
        return e

    def cast_expr(self):
        e = self.unary()
        while self.peek()[1] == "as":
            self.next()
            k, v = self.next()
            e = ("cast", v, e)
        return e

    def unary(self):
        k, v = self.peek()
        if v == "-":
            self.next()
            return ("neg", self.unary())
        if v == "!":
            self.next()
            return ("not", self.unary())
        if v in ("*", "&"):
            self.next()
            self.accept("mut")
            return self.unary()
        return self.postfix()

    def postfix(self):
        e = self.primary()
        while True:
            if self.peek()[1] == ".":
                self.next()
                k, v = self.next()
                if k == "int":
                    e = ("tfield", int(v), e)
                    continue
                if k == "float":
                    # tuple.0.1 tokenised as float
                    a, b = v.split(".")
                    e = ("tfield", int(b), ("tfield", int(a), e))
                    continue
                if k != "ident":
                    raise Untranslatable("postfix .%r" % v)
                if self.peek()[1] == "(":
                    self.next()
                    args = []
                    while not self.accept(")"):
                        args.append(self.expr())
                        self.accept(",")
                    e = ("mcall", v, e, args)
                else:
                    e = ("field", v, e)
            elif self.peek()[1] == "[":
                self.next()
                idx = self.expr()
                self.expect("]")
                e = ("index", e, idx)
            elif self.peek()[1] == "?":
                raise Untranslatable("? operator")
            else:
                return e

    def path(self, first):
        parts = [first]
        while self.peek()[1] == "::":
            self.next()
            k, v = self.next()
            if v == "<":
                # turbofish: skip
                depth = 1
                while depth:
                    k2, v2 = self.next()
                    if v2 == "<":
                        depth += 1
                    elif v2 == ">":
                        depth -= 1
                continue
            parts.append(v)
        return parts

    def primary(self):
        k, v = self.next()
        if k == "float":
            txt = re.sub(r"_?(f32|f64)$", "", v).replace("_", "")
            return ("num", Fraction(txt if not txt.endswith(".") else txt + "0"), "T")
        if k == "int":
            txt = re.sub(r"_?(usize|u64|i64|u32|i32|u8|isize)$", "", v).replace("_", "")
            return ("num", Fraction(int(txt)), "int")
        if v == "(":
            items = []
            if self.accept(")"):
                return ("tuple", [])
            items.append(self.expr())
            trailing = False
            while self.accept(","):
                trailing = True
                if self.peek()[1] == ")":
                    break
                items.append(self.expr())
            self.expect(")")
            if len(items) == 1 and not trailing:
                return items[0]
            return ("tuple", items)
        if v == "if":
            if self.peek()[1] == "let":
                self.next()
                pat = self.match_pattern()
                self.expect("=")
                scrut = self.expr_no_struct()
                th = self.block()
                if not self.accept("else"):
                    raise Untranslatable("if let without else")
                el = self.primary() if self.peek()[1] == "if" else self.block()
                return ("iflet", pat, scrut, th, el)
            c = self.expr_no_struct()
            th = self.block()
            if self.accept("else"):
                if self.peek()[1] == "if":
                    el = self.primary()
                else:
                    el = self.block()
            else:
                raise Untranslatable("if without else")
            return ("if", c, th, el)
        if k == "ident" and v in ("unreachable!", "panic!", "unimplemented!"):
            self.expect("(")
            depth = 1
            while depth:
                k2, v2 = self.next()
                if k2 == "eof":
                    raise Untranslatable("eof in %s" % v)
                if v2 == "(":
                    depth += 1
                elif v2 == ")":
                    depth -= 1
            return ("panic", v)
        if v == "match":
            scrut = self.expr_no_struct()
            self.expect("{")
            arms = []
            while not self.accept("}"):
                pat = self.match_pattern()
                self.expect("=>")
                if self.peek()[1] == "{":
                    body = self.block()
                else:
                    body = self.expr()
                self.accept(",")
                arms.append((pat, body))
            return ("match", scrut, arms)
        if v == "{":
            self.i -= 1
            return self.block()
        if v == "|":
            # closure |a, b| expr   (parameters: identifiers, optionally `&x` / typed)
            params = []
            while not self.accept("|"):
                self.accept("&")
                self.accept("mut")
                pk, pv = self.next()
                if pk != "ident":
                    raise Untranslatable("closure parameter %r" % pv)
                if self.accept(":"):
                    self.type_closure()
                params.append(pv)
                self.accept(",")
            if self.peek()[1] == "{":
                body = self.block()
            else:
                body = self.expr()
            return ("closure", params, body)
        if v == "[":
            items = []
            while not self.accept("]"):
                items.append(self.expr())
                if self.peek()[1] == ";":
                    raise Untranslatable("[x; n]")
                self.accept(",")
            return ("vec", items)
        if k == "ident" and v == "vec!":
            self.expect("[")
            items = []
            while not self.accept("]"):
                items.append(self.expr())
                if self.peek()[1] == ";":
                    raise Untranslatable("vec![x; n]")
                self.accept(",")
            return ("vec", items)
        if k == "ident":
            if v in ("true", "false"):
                return ("bool", v == "true")
            parts = self.path(v)
            if self.peek()[1] == "(":
                self.next()
                args = []
                while not self.accept(")"):
                    args.append(self.expr())
                    self.accept(",")
                return ("call", parts, args)
            if self.peek()[1] == "{" and not getattr(self, "_no_struct", False) and parts[-1][0].isupper():
                # struct literal
                self.next()
                fields = []
                while not self.accept("}"):
                    if self.accept(".."):
                        self.expr()
                        continue
                    fk, fname = self.next()
                    if self.accept(":"):
                        fe = self.expr()
                    else:
                        fe = ("path", [fname])
                    self.accept(",")
                    fields.append((fname, fe))
                return ("struct", parts, fields)
            return ("path", parts)
        raise Untranslatable("primary: %r" % v)

    def expr_no_struct(self):
        old = getattr(self, "_no_struct", False)
        self._no_struct = True
        try:
            return self.expr()
        finally:
            self._no_struct = old

    def match_pattern(self):
        k, v = self.peek()
        if v == "(":
            self.next()
            items = []
            while not self.accept(")"):
                items.append(self.match_pattern())
                self.accept(",")
            return ("ptuple", items)
        if v == "_":
            self.next()
            return ("pwild",)
        self.accept("&")
        k, v = self.next()
        parts = self.path(v)
        if self.accept("("):
            inner = []
            while not self.accept(")"):
                inner.append(self.match_pattern())
                self.accept(",")
            return ("pctor", parts[-1], inner)
        if parts[-1][0].isupper():
            return ("pctor", parts[-1], [])
        return ("pvar", parts[-1])


# ------------------------------------------------------------------------------------------------
# source location helpers

def strip_comments(src):
    return re.sub(r"//[^\n]*", "", src)


def find_matching(src, start, open_ch="{", close_ch="}"):
    depth = 0
    i = start
    while i < len(src):
        c = src[i]
        if c == open_ch:
            depth += 1
        elif c == close_ch:
            depth -= 1
            if depth == 0:
                return i
        i += 1
    raise Untranslatable("unbalanced braces")


def find_impl(src, header_re):
    m = re.search(header_re, src)
    if not m:
        raise Untranslatable("impl header not found: %s" % header_re)
    b = src.index("{", m.end() - 1)
    e = find_matching(src, b)
    return b, e


def find_fn(src, name, lo=0, hi=None):
    hi = len(src) if hi is None else hi
    m = re.compile(r"\bfn\s+%s\s*(<[^>]*>)?\s*\(" % re.escape(name)).search(src, lo, hi)
    if not m:
        raise Untranslatable("fn %s not found" % name)
    po = src.index("(", m.start())
    pc = find_matching(src, po, "(", ")")
    b = src.index("{", pc)
    e = find_matching(src, b)
    return src[po + 1:pc], src[pc + 1:b], src[b:e + 1], (m.start(), e + 1)


def parse_params(params_src):
    """Returns list of (name, rust_type) - self handled as ('self','Self')."""
    res = []
    depth = 0
    cur = ""
    for c in params_src:
        if c in "<([":
            depth += 1
        elif c in ">)]":
            depth -= 1
        if c == "," and depth == 0:
            res.append(cur)
            cur = ""
        else:
            cur += c
    if cur.strip():
        res.append(cur)
    out = []
    for p in res:
        p = p.strip()
        if not p:
            continue
        if re.match(r"^&?\s*(mut\s+)?self$", p):
            out.append(("self", "Self"))
            continue
        name, ty = p.split(":", 1)
        out.append((name.replace("mut", "").strip(), ty.strip()))
    return out


# ------------------------------------------------------------------------------------------------
# typing and printing

NUMT = "T"   # the NumOps carrier
F32_MAX = (2 ** 24 - 1) * 2 ** 104      # f32::MAX = (2 - 2^-23) * 2^127, exactly


def rust_type_to_ty(t):
    t = t.strip()
    while t.startswith("&"):
        t = t[1:].strip()
    if t.startswith("mut "):
        t = t[4:].strip()
    if t in ("f32", "f64"):
        return NUMT
    if t in ("usize", "u64", "u32", "u8"):
        return "N"
    if t in ("i64", "i32", "isize"):
        return "Z"
    if t == "bool":
        return "bool"
    m = re.match(r"Option<(.*)>$", t)
    if m:
        return ("option", rust_type_to_ty(m.group(1)))
    base = re.sub(r"<.*>$", "", t)          # Coord<f64> -> Coord
    if base in STRUCTS or base == "Self":
        return ("struct", base)
    if base in ENUMS:
        return ("enum", base)
    return ("opaque", t)


# struct name -> list of (field, type);  enum name -> list of (ctor, [arg types])
STRUCTS = {}
ENUMS = {}


def canon(e):
    """Canonical text of an expression AST (used as the key of Item.subst); None if not supported."""
    k = e[0]
    if k == "path":
        return "::".join(e[1])
    if k == "num":
        return str(e[1])
    if k == "bool":
        return "true" if e[1] else "false"
    if k == "field":
        c = canon(e[2])
        return None if c is None else "%s.%s" % (c, e[1])
    if k == "tfield":
        c = canon(e[2])
        return None if c is None else "%s.%d" % (c, e[1])
    if k == "mcall":
        c = canon(e[2])
        args = [canon(a) for a in e[3]]
        if c is None or any(a is None for a in args):
            return None
        return "%s.%s(%s)" % (c, e[1], ", ".join(args))
    if k == "call":
        args = [canon(a) for a in e[2]]
        if any(a is None for a in args):
            return None
        return "%s(%s)" % ("::".join(e[1]), ", ".join(args))
    if k == "bin":
        a, b = canon(e[2]), canon(e[3])
        return None if a is None or b is None else "(%s %s %s)" % (a, e[1], b)
    if k == "neg":
        a = canon(e[1])
        return None if a is None else "(-%s)" % a
    if k == "not":
        a = canon(e[1])
        return None if a is None else "(!%s)" % a
    if k == "cast":
        a = canon(e[2])
        return None if a is None else "(%s as %s)" % (a, e[1])
    return None


def canon_text(txt):
    c = canon(Parser(tokenize(txt)).expr())
    if c is None:
        raise Untranslatable("subst key not canonisable: %s" % txt)
    return c


class Emitter:
    def __init__(self, items_by_path, self_struct=None, subst=None, opaque_lets=()):
        self.items = items_by_path       # rust path tail (e.g. 'too_far', 'BoundingBox::intersection') -> (coq name, ret ty, param tys)
        self.self_struct = self_struct
        self.asserts = []
        self.casts = []
        self.erased = []
        self.subst = subst or {}         # canonical text -> (coq binder, ty)
        self.subst_used = set()
        self.opaque_lets = set(opaque_lets)
        self.opaque_seen = set()
        self.ctx = []                    # enclosing `let ... in` prefixes (for preconditions collected below the top level)
        self.binder_depth = 0            # > 0 inside a match arm / closure body (their binders cannot be re-created in a _pre)

    def ty_str(self, ty):
        if ty == NUMT:
            return "(T num)"
        if ty in ("N", "Z", "bool"):
            return ty
        if isinstance(ty, tuple):
            if ty[0] == "option":
                return "(option %s)" % self.ty_str(ty[1])
            if ty[0] == "list":
                return "(list %s)" % self.ty_str(ty[1])
            if ty[0] == "struct":
                return "(%s num)" % self.struct_name(ty[1])
            if ty[0] == "enum":
                return "(%s num)" % ty[1]
            if ty[0] == "tuple":
                return "(" + " * ".join(self.ty_str(x) for x in ty[1]) + ")%type"
        raise Untranslatable("type %r" % (ty,))

    def struct_name(self, s):
        if s == "Self":
            s = self.self_struct
        return s

    def num_lit(self, fr, ty):
        if ty == "N":
            if fr.denominator != 1 or fr < 0:
                raise Untranslatable("bad N literal")
            return "%d%%N" % fr.numerator
        if ty == "Z":
            return "(%d)%%Z" % fr.numerator
        if fr == 0:
            return "(zero num)"
        if fr == 1:
            return "(one num)"
        return "(of_Q num (%d # %d))" % (fr.numerator, fr.denominator)

    @staticmethod
    def opt_inner(want):
        return want[1] if isinstance(want, tuple) and want[0] == "option" else None

    def body_of(self, b, env, want=None):
        return self.block(b, env, want) if b[0] == "block" else self.expr(b, env, want)

    def expr(self, e, env, want=None):
        """returns (coq_text, ty)"""
        if self.subst:
            c = canon(e)
            if c is not None and c in self.subst:
                self.subst_used.add(c)
                return self.subst[c]
        k = e[0]
        if k == "num":
            ty = want if want in ("N", "Z", NUMT) else (NUMT if e[2] == "T" else (want or "N"))
            if e[2] == "T":
                ty = NUMT
            return self.num_lit(e[1], ty), ty
        if k == "bool":
            return ("true" if e[1] else "false"), "bool"
        if k == "path":
            parts = e[1]
            if len(parts) == 1:
                name = parts[0]
                if name in env:
                    if env[name][0] is None:
                        raise Untranslatable("closure %s used as a value" % name)
                    return env[name][0], env[name][1]
                if name in CONSTS:
                    return CONSTS[name][0], CONSTS[name][1]
                if name == "None":
                    return "None", ("option", self.opt_inner(want))
                raise Untranslatable("unknown identifier %s" % name)
            tail = parts[-1]
            if tail in CONSTS:
                return CONSTS[tail][0], CONSTS[tail][1]
            if len(parts) >= 2 and parts[-2] in ENUMS:
                for cname, cargs in ENUMS[parts[-2]]:
                    if cname == tail and not cargs:
                        return "(%s_%s num)" % (parts[-2], tail), ("enum", parts[-2])
            if parts[-2:] == ["f32", "MAX"]:
                return "(of_Q num (%d # 1))" % F32_MAX, NUMT
            if parts[-2:] == ["f32", "MIN"]:
                return "(of_Q num ((%d) # 1))" % (-F32_MAX), NUMT
            raise Untranslatable("unknown path %s" % "::".join(parts))
        if k == "cast":
            tgt = rust_type_to_ty(e[1])
            txt, ty = self.expr(e[2], env, want if want == tgt else None)
            self.casts.append(e[1])
            if tgt != ty and not (tgt == NUMT and ty == NUMT):
                if ty == "N" and tgt == NUMT:
                    return "(of_Q num (inject_Z (Z.of_N %s)))" % txt, NUMT
                if ty == "Z" and tgt == NUMT:
                    return "(of_Q num (inject_Z %s))" % txt, NUMT
                raise Untranslatable("cast %s -> %s" % (ty, e[1]))
            return txt, ty
        if k == "neg":
            txt, ty = self.expr(e[1], env, want)
            if ty == NUMT:
                return "(opp num %s)" % txt, ty
            if ty == "Z":
                return "(Z.opp %s)" % txt, ty
            raise Untranslatable("neg on %s" % (ty,))
        if k == "not":
            txt, ty = self.expr(e[1], env, "bool")
            if ty != "bool":
                raise Untranslatable("! on %r" % (ty,))
            return "(negb %s)" % txt, "bool"
        if k == "bin":
            op, a, b = e[1], e[2], e[3]
            if op in ("&&", "||"):
                ta, tya = self.expr(a, env, "bool")
                tb, tyb = self.expr(b, env, "bool")
                if tya != "bool" or tyb != "bool":
                    raise Untranslatable("%s on %r, %r" % (op, tya, tyb))
                return "(%s %s %s)" % ("andb" if op == "&&" else "orb", ta, tb), "bool"
            # numeric: determine type from whichever side is not a bare int literal
            arith = op in ("+", "-", "*", "/")
            if a[0] != "num" or a[2] == "T":
                ta, tya = self.expr(a, env, want if arith else None)
            else:
                ta, tya = None, None
            tb, tyb = self.expr(b, env, tya if tya else (want if arith else None))
            if ta is None:
                ta, tya = self.expr(a, env, tyb)
            if tya != tyb:
                raise Untranslatable("type mismatch in %s: %r vs %r" % (op, tya, tyb))
            ty = tya
            if arith:
                if ty == NUMT:
                    f = {"+": "add", "-": "sub", "*": "mul", "/": "div"}[op]
                    return "(%s num %s %s)" % (f, ta, tb), ty
                if ty == "N":
                    f = {"+": "N.add", "-": "N.sub", "*": "N.mul", "/": "N.div"}[op]
                    return "(%s %s %s)" % (f, ta, tb), ty
                if ty == "Z":
                    f = {"+": "Z.add", "-": "Z.sub", "*": "Z.mul", "/": "Z.quot"}[op]
                    return "(%s %s %s)" % (f, ta, tb), ty
                raise Untranslatable("arith on %r" % (ty,))
            # comparisons
            if ty == NUMT:
                m = {"<": "(ltb num %s %s)" % (ta, tb), "<=": "(leb num %s %s)" % (ta, tb),
                     ">": "(ltb num %s %s)" % (tb, ta), ">=": "(leb num %s %s)" % (tb, ta),
                     "==": "(andb (leb num %s %s) (leb num %s %s))" % (ta, tb, tb, ta),
                     "!=": "(negb (andb (leb num %s %s) (leb num %s %s)))" % (ta, tb, tb, ta)}
                return m[op], "bool"
            if ty in ("N", "Z"):
                p = ty
                m = {"<": "(%s.ltb %s %s)" % (p, ta, tb), "<=": "(%s.leb %s %s)" % (p, ta, tb),
                     ">": "(%s.ltb %s %s)" % (p, tb, ta), ">=": "(%s.leb %s %s)" % (p, tb, ta),
                     "==": "(%s.eqb %s %s)" % (p, ta, tb), "!=": "(negb (%s.eqb %s %s))" % (p, ta, tb)}
                return m[op], "bool"
            if ty == "bool" and op in ("==", "!="):
                m = {"==": "(Bool.eqb %s %s)" % (ta, tb), "!=": "(negb (Bool.eqb %s %s))" % (ta, tb)}
                return m[op], "bool"
            raise Untranslatable("comparison %s on %r" % (op, ty))
        if k == "field":
            name, obj = e[1], e[2]
            txt, ty = self.expr(obj, env)
            if isinstance(ty, tuple) and ty[0] == "struct":
                sname = self.struct_name(ty[1])
                for (fn_, fty) in STRUCTS[sname]:
                    if fn_ == name:
                        return "(%s_%s num %s)" % (sname, name, txt), fty
                raise Untranslatable("no field %s in %s" % (name, sname))
            raise Untranslatable("field %s of %r" % (name, ty))
        if k == "tfield":
            txt, ty = self.expr(e[2], env)
            if isinstance(ty, tuple) and ty[0] == "tuple":
                n = len(ty[1])
                idx = e[1]
                # nested pairs ((a,b),c)
                acc = txt
                for _ in range(n - 1 - idx):
                    acc = "(fst %s)" % acc
                if idx > 0:
                    acc = "(snd %s)" % acc
                return acc, ty[1][idx]
            raise Untranslatable("tuple field of %r" % (ty,))
        if k == "mcall":
            name, obj, args = e[1], e[2], e[3]
            if name in ("clone", "to_owned", "as_ref"):
                return self.expr(obj, env, want)
            if name in ("abs", "floor"):
                if args:
                    raise Untranslatable("%s with arguments" % name)
                txt, ty = self.expr(obj, env, NUMT)
                if ty != NUMT:
                    raise Untranslatable("%s on %r" % (name, ty))
                return "(%s num %s)" % (name, txt), ty
            if name == "sqrt":
                raise Untranslatable("sqrt (use a squared recipe)")
            if name in ("max", "min"):
                ta, ty = self.expr(obj, env, NUMT)
                tb, tyb = self.expr(args[0], env, ty)
                if ty != tyb:
                    raise Untranslatable("max/min on %r, %r" % (ty, tyb))
                if ty == NUMT:
                    return "(%s num %s %s)" % (name, ta, tb), ty
                if ty in ("N", "Z"):
                    return "(%s.%s %s %s)" % (ty, name, ta, tb), ty
                raise Untranslatable("max/min on %r" % (ty,))
            if name == "len" and not args:
                ta, ty = self.expr(obj, env)
                if not (isinstance(ty, tuple) and ty[0] == "list"):
                    raise Untranslatable("len on %r" % (ty,))
                return "(N.of_nat (length %s))" % ta, "N"
            if name == "then_some" and len(args) == 1:
                ta, ty = self.expr(obj, env, "bool")
                if ty != "bool":
                    raise Untranslatable("then_some on %r" % (ty,))
                tb, tyb = self.expr(args[0], env, self.opt_inner(want))
                return "(if %s then Some %s else None)" % (ta, tb), ("option", tyb)
            if name == "clamp":
                # x.clamp(lo, hi) = if x < lo {lo} else if x > hi {hi} else {x}  (= min(max(x, lo), hi) for lo <= hi)
                if len(args) != 2:
                    raise Untranslatable("clamp arity")
                ta, ty = self.expr(obj, env, NUMT)
                tl, tyl = self.expr(args[0], env, ty)
                th, tyh = self.expr(args[1], env, ty)
                if not (ty == tyl == tyh == NUMT):
                    raise Untranslatable("clamp on %r, %r, %r" % (ty, tyl, tyh))
                return "(min num (max num %s %s) %s)" % (ta, tl, th), ty
            if name == "unwrap_or":
                ta, ty = self.expr(obj, env)
                if not (isinstance(ty, tuple) and ty[0] == "option"):
                    raise Untranslatable("unwrap_or on %r" % (ty,))
                tb, tyb = self.expr(args[0], env, ty[1])
                if tyb != ty[1]:
                    raise Untranslatable("unwrap_or default %r for %r" % (tyb, ty))
                return "(match %s with Some v_ => v_ | None => %s end)" % (ta, tb), ty[1]
            if name in ("is_some", "is_none"):
                ta, ty = self.expr(obj, env)
                if not (isinstance(ty, tuple) and ty[0] == "option"):
                    raise Untranslatable("%s on %r" % (name, ty))
                r = "(match %s with Some _ => true | None => false end)" % ta
                return (r if name == "is_some" else "(negb %s)" % r), "bool"
            if name in ("map", "filter") and len(args) == 1 and args[0][0] == "closure":
                ta, ty = self.expr(obj, env)
                if not (isinstance(ty, tuple) and ty[0] == "option" and ty[1] is not None):
                    raise Untranslatable("%s on %r" % (name, ty))
                cl = args[0]
                if len(cl[1]) != 1:
                    raise Untranslatable("closure arity")
                b = fresh(cl[1][0])
                env2 = dict(env)
                env2[cl[1][0]] = (b, ty[1])
                self.binder_depth += 1
                try:
                    if name == "map":
                        tb, rty = self.body_of(cl[2], env2, None)
                    else:
                        tb, rty = self.body_of(cl[2], env2, "bool")
                finally:
                    self.binder_depth -= 1
                if name == "map":
                    return "(match %s with Some %s => Some %s | None => None end)" % (ta, b, tb), ("option", rty)
                if rty != "bool":
                    raise Untranslatable("filter predicate of type %r" % (rty,))
                return "(match %s with Some %s => if %s then Some %s else None | None => None end)" % (ta, b, tb, b), ty
            if name == "contains" and obj[0] == "tuple":
                raise Untranslatable("range contains")
            # method that is a translated item taking self
            key = name
            if key in self.items:
                cname, rty, ptys = self.items[key]
                ta, ty = self.expr(obj, env)
                if len(args) + 1 != len(ptys):
                    raise Untranslatable("arity of %s" % name)
                targs = [ta] + [self.expr(a, env, pt)[0] for a, pt in zip(args, ptys[1:])]
                return "(%s num %s)" % (cname, " ".join(targs)), rty
            raise Untranslatable("method %s" % name)
        if k == "call":
            parts, args = e[1], e[2]
            tail = parts[-1]
            if tail == "Some" and len(args) == 1:
                ta, ty = self.expr(args[0], env, self.opt_inner(want))
                return "(Some %s)" % ta, ("option", ty)
            if tail in ("Ok",) and len(args) == 1:
                ta, ty = self.expr(args[0], env, self.opt_inner(want))
                return "(Some %s)" % ta, ("option", ty)
            if tail == "Err":
                return "None", ("option", self.opt_inner(want))
            if parts == ["LineString"] and len(args) == 1:
                self.erased.append("LineString(..)")
                return self.expr(args[0], env, want)
            if parts[-2:] == ["LineString", "new"] and len(args) == 1:
                self.erased.append("LineString::new(..)")
                return self.expr(args[0], env, want)
            if parts[-2:] == ["Polygon", "new"] and len(args) == 2:
                if args[1] != ("vec", []):
                    raise Untranslatable("Polygon::new with interior rings")
                self.erased.append("Polygon::new(.., vec![])")
                return self.expr(args[0], env, want)
            if len(parts) >= 2 and parts[-2] in ENUMS:
                for cname, cargs in ENUMS[parts[-2]]:
                    if cname == tail and len(cargs) == len(args):
                        targs = [self.expr(a, env, ct)[0] for a, ct in zip(args, cargs)]
                        return "(%s_%s num %s)" % (parts[-2], tail, " ".join(targs)), ("enum", parts[-2])
            if len(parts) == 1 and tail in env and isinstance(env[tail][1], tuple) and env[tail][1][0] == "closure":
                _, cparams, cbody, cenv = env[tail][1]
                if len(cparams) != len(args):
                    raise Untranslatable("closure %s arity" % tail)
                env2 = dict(cenv)
                lets = []
                for pn, a in zip(cparams, args):
                    ta, tya = self.expr(a, env)
                    b = fresh(pn)
                    lets.append("let %s := %s in" % (b, ta))
                    env2[pn] = (b, tya)
                tb, rty = self.body_of(cbody, env2, want)
                return "(" + " ".join(lets) + " " + tb + ")", rty
            key2 = "::".join(parts[-2:])
            for key in (key2, tail):
                if key in self.items:
                    cname, rty, ptys = self.items[key]
                    if len(args) != len(ptys):
                        raise Untranslatable("arity of %s" % key)
                    targs = []
                    for a, pt in zip(args, ptys):
                        ta, tya = self.expr(a, env, pt)
                        if tya != pt and not (pt == ("struct", "Self")):
                            raise Untranslatable("argument of %s: %r for %r" % (key, tya, pt))
                        targs.append(ta)
                    return "(%s num %s)" % (cname, " ".join(targs)), rty
            raise Untranslatable("call %s" % "::".join(parts))
        if k == "tuple":
            wants = want[1] if isinstance(want, tuple) and want[0] == "tuple" and len(want[1]) == len(e[1]) else [None] * len(e[1])
            parts = [self.expr(x, env, w) for x, w in zip(e[1], wants)]
            return "(" + ", ".join(p[0] for p in parts) + ")", ("tuple", [p[1] for p in parts])
        if k == "vec":
            wi = want[1] if isinstance(want, tuple) and want[0] == "list" else None
            parts = [self.expr(x, env, wi) for x in e[1]]
            tys = [p[1] for p in parts]
            if any(t != tys[0] for t in tys):
                raise Untranslatable("vec! of mixed types")
            return "[" + "; ".join(p[0] for p in parts) + "]", ("list", tys[0] if tys else wi)
        if k == "struct":
            sname = e[1][-1]
            sname = self.struct_name(sname)
            if sname not in STRUCTS:
                raise Untranslatable("struct %s" % sname)
            vals = {}
            for fname, fe in e[2]:
                vals[fname] = fe
            known = {f for f, _ in STRUCTS[sname]} | STRUCT_SKIP.get(sname, set())
            for fname in vals:
                if fname not in known:
                    raise Untranslatable("struct literal %s has unknown field %s" % (sname, fname))
            args = []
            for (fname, fty) in STRUCTS[sname]:
                if fname not in vals:
                    raise Untranslatable("struct literal %s lacks %s" % (sname, fname))
                ta, tya = self.expr(vals[fname], env, fty)
                if tya != fty and not (isinstance(fty, tuple) and fty[0] == "option" and isinstance(tya, tuple) and tya[0] == "option" and tya[1] in (None, fty[1])):
                    raise Untranslatable("field %s.%s: %r for %r" % (sname, fname, tya, fty))
                args.append(ta)
            return "(Build_%s num %s)" % (sname, " ".join(args)), ("struct", sname)
        if k == "if":
            c, cty = self.expr(e[1], env, "bool")
            if cty != "bool":
                raise Untranslatable("if condition of type %r" % (cty,))
            ta, ty = self.block(e[2], env, want)
            tb, tyb = self.body_of(e[3], env, ty if not (isinstance(ty, tuple) and ty[0] == "option" and ty[1] is None) else want)
            both_opt = isinstance(ty, tuple) and ty[0] == "option" and isinstance(tyb, tuple) and tyb[0] == "option"
            if ty != tyb and not (both_opt and (ty[1] is None or tyb[1] is None)):
                raise Untranslatable("if branches differ: %r vs %r" % (ty, tyb))
            if both_opt and ty[1] is None:
                ty = tyb
            return "(if %s then %s else %s)" % (c, ta, tb), ty
        if k == "iflet":
            return self.iflet(e, env, want)
        if k == "panic":
            # reached only when a collected precondition is false; the value is arbitrary
            if want == "bool":
                return "false", "bool"
            if want == NUMT:
                return "(zero num)", NUMT
            if want == "N":
                return "0%N", "N"
            if isinstance(want, tuple) and want[0] == "option":
                return "None", want
            raise Untranslatable("%s in a position whose type is not known" % e[1])
        if k == "block":
            return self.block(e, env, want)
        if k == "match":
            return self.match(e, env, want)
        if k == "index":
            base = e[1]
            if base[0] == "path" and base[1][-1] in TABLES:
                tname = base[1][-1]
                ti, tty = self.expr(e[2], env, "N")
                if tty != "N":
                    raise Untranslatable("table index of type %r" % (tty,))
                return "(nth (N.to_nat %s) %s (zero num))" % (ti, TABLES[tname]), NUMT
            tb_, tyb_ = self.expr(base, env)
            if isinstance(tyb_, tuple) and tyb_[0] == "list" and tyb_[1] == NUMT:
                ti, tty = self.expr(e[2], env, "N")
                if tty != "N":
                    raise Untranslatable("list index of type %r" % (tty,))
                return "(nth (N.to_nat %s) %s (zero num))" % (ti, tb_), NUMT
            raise Untranslatable("index")
        raise Untranslatable("expr kind %s" % k)

    def add_pre(self, cond_text):
        if self.binder_depth:
            raise Untranslatable("precondition under a pattern binder")
        self.asserts.append("(" + " ".join(self.ctx) + " " + cond_text + ")" if self.ctx else cond_text)

    @staticmethod
    def is_panic_block(b):
        return b[0] == "panic" or (b[0] == "block" and not b[1] and b[2] is not None and b[2][0] == "panic") or \
            (b[0] == "block" and b[2] is None and len(b[1]) == 1 and b[1][0][0] == "expr" and b[1][0][1][0] == "panic")

    def iflet(self, e, env, want):
        """if let Some(x) = o {A} else {B}   and   if let (Some(x), Some(y)) = (o1, o2) {A} else {B}.
        An else branch that only panics (unreachable!/panic!) becomes a precondition `o is Some`."""
        _, pat, scrut, th, el = e
        if pat[0] == "pctor" and pat[1] == "Some" and len(pat[2]) == 1:
            pats, scruts = [pat[2][0]], [scrut]
        elif pat[0] == "ptuple" and scrut[0] == "tuple" and len(pat[1]) == len(scrut[1]) and \
                all(q[0] == "pctor" and q[1] == "Some" and len(q[2]) == 1 for q in pat[1]):
            pats, scruts = [q[2][0] for q in pat[1]], list(scrut[1])
        else:
            raise Untranslatable("if let pattern")
        env2 = dict(env)
        heads = []
        for q, sc in zip(pats, scruts):
            ts, ty = self.expr(sc, env)
            if not (isinstance(ty, tuple) and ty[0] == "option" and ty[1] is not None):
                raise Untranslatable("if let on %r" % (ty,))
            if q[0] == "pvar":
                b = fresh(q[1])
                env2[q[1]] = (b, ty[1])
            elif q[0] == "pwild":
                b = "_"
            else:
                raise Untranslatable("nested if let pattern")
            heads.append((ts, b))
        panics = self.is_panic_block(el)
        if panics:
            for ts, _ in heads:
                self.add_pre("(match %s with Some _ => true | None => false end)" % ts)
        self.binder_depth += 1
        try:
            tth, ty = self.body_of(th, env2, want)
        finally:
            self.binder_depth -= 1
        tel, tye = self.body_of(el, env, ty)
        both_opt = isinstance(ty, tuple) and ty[0] == "option" and isinstance(tye, tuple) and tye[0] == "option"
        if ty != tye and not (both_opt and (ty[1] is None or tye[1] is None)):
            raise Untranslatable("if let branches differ: %r vs %r" % (ty, tye))
        if both_opt and ty[1] is None:
            ty = tye
        txt = tth
        for ts, b in reversed(heads):
            txt = "(match %s with Some %s => %s | None => %s end)" % (ts, b, txt, tel)
        return txt, ty

    def run_stmt_if(self, e, env, state, events):
        """`if c { stmts } else { stmts }` used as a STATEMENT that updates the variables in `state`
        (canonical text -> (current coq text, ty)) and may call the procedures in `events` (canonical text of the call).
        Returns the Gallina pair (event flags..., new state values...)."""
        if e[0] != "if":
            raise Untranslatable("state recipe: not an if statement")
        c, cty = self.expr(e[1], env, "bool")
        if cty != "bool":
            raise Untranslatable("if condition of type %r" % (cty,))

        def run(b):
            if b[0] == "if":
                return self.run_stmt_if(b, env, state, events)
            if b[0] != "block" or b[2] is not None:
                raise Untranslatable("state recipe: branch is not a statement block")
            saved = dict(self.subst)
            fired = {ev: False for ev in events}
            try:
                for st in b[1]:
                    if st[0] == "expr":
                        cc = canon(st[1])
                        if cc in fired:
                            fired[cc] = True
                            self.subst_used.add(cc)
                            continue
                        raise Untranslatable("state recipe: statement %s" % cc)
                    if st[0] == "assign":
                        lhs = canon(st[1])
                        if lhs not in state:
                            raise Untranslatable("state recipe: assignment to %s" % lhs)
                        ty = state[lhs]
                        cur = self.subst[lhs][0]
                        tr, tyr = self.expr(st[3], env, ty)
                        if tyr != ty:
                            raise Untranslatable("state recipe: %r assigned to %r" % (tyr, ty))
                        if st[2] == "=":
                            new = tr
                        elif ty == "N":
                            new = "(%s %s %s)" % ("N.sub" if st[2] == "-=" else "N.add", cur, tr)
                        elif ty == NUMT:
                            new = "(%s num %s %s)" % ("sub" if st[2] == "-=" else "add", cur, tr)
                        else:
                            raise Untranslatable("state recipe: %s on %r" % (st[2], ty))
                        self.subst[lhs] = (new, ty)
                        self.subst_used.add(lhs)
                        continue
                    raise Untranslatable("state recipe: statement kind %s" % st[0])
                vals = [("true" if fired[ev] else "false") for ev in events] + [self.subst[k][0] for k in state]
                return "(" + ", ".join(vals) + ")"
            finally:
                self.subst = saved
        ta = run(e[2])
        tb = run(e[3])
        return "(if %s then %s else %s)" % (c, ta, tb)

    def sq_expr(self, e, env):
        """Coq text of (e)^2 for an expression built from .sqrt(), * and / : the square roots are dropped.
        Used for items translated 'in squared form' (get_radius, dist_in_2r)."""
        if e[0] == "mcall" and e[1] == "sqrt" and not e[3]:
            txt, ty = self.expr(e[2], env, NUMT)
            if ty != NUMT:
                raise Untranslatable("sqrt on %r" % (ty,))
            return txt
        if e[0] == "bin" and e[1] in ("*", "/"):
            return "(%s num %s %s)" % ("mul" if e[1] == "*" else "div", self.sq_expr(e[2], env), self.sq_expr(e[3], env))
        raise Untranslatable("squared recipe: expression is not a product/quotient of square roots")

    def match(self, e, env, want):
        scrut, arms = e[1], e[2]
        if scrut[0] == "tuple":
            raise Untranslatable("tuple match")
        ts, ty = self.expr(scrut, env)
        if isinstance(ty, tuple) and ty[0] == "option":
            some_arm = none_arm = None
            for pat, body in arms:
                if pat[0] == "pctor" and pat[1] == "Some":
                    some_arm = (pat, body)
                elif (pat[0] == "pctor" and pat[1] == "None") or pat[0] == "pwild":
                    none_arm = (pat, body)
            if not some_arm or not none_arm:
                raise Untranslatable("option match arms")
            inner = some_arm[0][2][0]
            env2 = dict(env)
            if inner[0] == "pvar":
                binder = fresh(inner[1])
                env2[inner[1]] = (binder, ty[1])
            elif inner[0] == "pwild":
                binder = "_"
            elif inner[0] == "ptuple":
                # Some((_, x)) over option (tuple)
                if not (isinstance(ty[1], tuple) and ty[1][0] == "tuple"):
                    raise Untranslatable("tuple pattern on %r" % (ty[1],))
                names = []
                for sub, sty in zip(inner[1], ty[1][1]):
                    if sub[0] == "pvar":
                        b = fresh(sub[1])
                        env2[sub[1]] = (b, sty)
                        names.append(b)
                    else:
                        names.append("_")
                binder = "(" + ", ".join(names) + ")"
            else:
                raise Untranslatable("Some pattern")
            self.binder_depth += 1
            try:
                tsome, rty = self.body_of(some_arm[1], env2, want)
            finally:
                self.binder_depth -= 1
            tnone, _ = self.body_of(none_arm[1], env, rty)
            return "(match %s with Some %s => %s | None => %s end)" % (ts, binder, tsome, tnone), rty
        if isinstance(ty, tuple) and ty[0] == "enum":
            ename = ty[1]
            ctors = ENUMS[ename]
            out = []
            rty = None
            covered = set()
            for pat, body in arms:
                if pat[0] == "pwild":
                    t, bty = self.body_of(body, env, want if rty is None else rty)
                    out.append("| _ => %s" % t)
                    covered = {c for c, _ in ctors}
                elif pat[0] == "pctor":
                    spec = [c for c in ctors if c[0] == pat[1]]
                    if not spec or len(spec[0][1]) != len(pat[2]):
                        raise Untranslatable("pattern %s for enum %s" % (pat[1], ename))
                    env2 = dict(env)
                    names = []
                    for sub, sty in zip(pat[2], spec[0][1]):
                        if sub[0] == "pvar":
                            b = fresh(sub[1])
                            env2[sub[1]] = (b, sty)
                            names.append(b)
                        elif sub[0] == "pwild":
                            names.append("_")
                        else:
                            raise Untranslatable("nested enum pattern")
                    self.binder_depth += 1 if names else 0
                    try:
                        t, bty = self.body_of(body, env2, want if rty is None else rty)
                    finally:
                        self.binder_depth -= 1 if names else 0
                    out.append("| %s_%s _ %s => %s" % (ename, pat[1], " ".join(names), t))
                    covered.add(pat[1])
                else:
                    raise Untranslatable("enum match arm")
                if rty is None:
                    rty = bty
                elif bty != rty:
                    raise Untranslatable("match arms differ: %r vs %r" % (rty, bty))
            if covered != {c for c, _ in ctors}:
                raise Untranslatable("non-exhaustive match on %s" % ename)
            return "(match %s with %s end)" % (ts, " ".join(out)), rty
        raise Untranslatable("match on %r" % (ty,))

    def block(self, b, env, want=None, sq=False):
        assert b[0] == "block"
        if b[2] is None and b[1] and b[1][-1][0] == "expr" and b[1][-1][1][0] == "panic":
            b = ("block", b[1][:-1], b[1][-1][1])        # `{ ...; unreachable!(..); }` has the value of the macro
        env = dict(env)
        lets = []
        for st in b[1]:
            if st[0] == "let":
                pat, e = st[1], st[2]
                if pat[0] == "pvar" and pat[1] in self.opaque_lets:
                    # a binding the model abstracts from: its value may only be used inside substituted expressions
                    self.opaque_seen.add(pat[1])
                    env.pop(pat[1], None)
                    continue
                if e[0] == "closure" and pat[0] == "pvar":
                    # a local closure: calls are inlined at the call site (captured variables: the current bindings)
                    env[pat[1]] = (None, ("closure", e[1], e[2], dict(env)))
                    continue
                te, ty = self.expr(e, env)
                if pat[0] == "pvar":
                    name = fresh(pat[1])
                    lets.append("let %s := %s in" % (name, te))
                    self.ctx.append(lets[-1])
                    env[pat[1]] = (name, ty)
                elif pat[0] == "ptuple":
                    if not (isinstance(ty, tuple) and ty[0] == "tuple" and len(ty[1]) == len(pat[1])):
                        raise Untranslatable("tuple let on %r" % (ty,))
                    names = []
                    for sub, sty in zip(pat[1], ty[1]):
                        if sub[0] != "pvar":
                            raise Untranslatable("nested pattern")
                        nm = fresh(sub[1])
                        names.append(nm)
                        env[sub[1]] = (nm, sty)
                    lets.append("let '(%s) := %s in" % (", ".join(names), te))
                    self.ctx.append(lets[-1])
                else:
                    raise Untranslatable("let pattern")
            elif st[0] == "assert":
                c, cty = self.expr(st[1], env, "bool")
                if cty != "bool":
                    raise Untranslatable("assert on %r" % (cty,))
                self.add_pre(c)
            else:
                raise Untranslatable("statement expression")
        try:
            if b[2] is None:
                raise Untranslatable("block without value")
            if sq:
                tr, ty = self.sq_expr(b[2], env), NUMT
            else:
                tr, ty = self.expr(b[2], env, want)
        finally:
            if lets:
                del self.ctx[len(self.ctx) - len(lets):]
        return "(" + " ".join(lets) + " " + tr + ")" if lets else tr, ty


_fresh = [0]


def fresh(name):
    _fresh[0] += 1
    return "%s_%d" % (re.sub(r"\W", "", name), _fresh[0])


CONSTS = {}   # rust const name -> (coq text, ty)
TABLES = {}   # rust const table name -> coq list name
STRUCT_SKIP = {}   # struct name -> fields that exist in Rust but are not modelled (caches)


# ------------------------------------------------------------------------------------------------
# what to translate

def read(repo, rel):
    return open(os.path.join(repo, rel)).read()


def const_float(src, name):
    m = re.search(r"\bconst\s+%s\s*:\s*(f32|f64)\s*=\s*([^;]+);" % name, src)
    if not m:
        raise Untranslatable("const %s not found" % name)
    return m.group(2).strip()


def dec_to_fraction(txt):
    txt = re.sub(r"_?(f32|f64)$", "", txt.strip()).replace("_", "")
    return Fraction(txt)


def gen_consts(repo, man):
    out = []
    out.append("(* GENERATED by tools/rs2v.py from /repo on every run - do not edit. *)")
    out.append("From Coq Require Import ZArith NArith QArith List.\nImport ListNotations.\n")
    def emitq(cname, fr, src_file, why):
        out.append("Definition %s : Q := (%d # %d). (* %s: %s *)" % (cname, fr.numerator, fr.denominator, src_file, why))
        man["consts"][cname] = {"file": src_file, "value": str(fr)}
    lib = read(repo, "src/lib.rs")
    emitq("EPS", dec_to_fraction(const_float(lib, "EPS")), "src/lib.rs", "pub const EPS")
    kal = read(repo, "src/utils/kalman.rs")
    m = re.search(r"pub const CHI2INV95\s*:\s*\[f32;\s*(\d+)\]\s*=\s*\[([^\]]*)\]", kal)
    if not m:
        raise Untranslatable("CHI2INV95 not found")
    vals = [dec_to_fraction(x) for x in m.group(2).split(",") if x.strip()]
    if len(vals) != int(m.group(1)):
        raise Untranslatable("CHI2INV95 arity")
    out.append("Definition CHI2INV95 : list Q := [%s]. (* src/utils/kalman.rs *)" % "; ".join("(%d # %d)" % (v.numerator, v.denominator) for v in vals))
    man["consts"]["CHI2INV95"] = [str(v) for v in vals]
    emitq("CHI2_UPPER_BOUND", dec_to_fraction(const_float(kal, "CHI2_UPPER_BOUND")), "src/utils/kalman.rs", "pub const CHI2_UPPER_BOUND")
    srt = read(repo, "src/trackers/sort.rs")
    emitq("DEFAULT_SORT_IOU_THRESHOLD", dec_to_fraction(const_float(srt, "DEFAULT_SORT_IOU_THRESHOLD")), "src/trackers/sort.rs", "")
    sm = read(repo, "src/trackers/sort/metric.rs")
    emitq("DEFAULT_MINIMAL_SORT_CONFIDENCE", dec_to_fraction(const_float(sm, "DEFAULT_MINIMAL_SORT_CONFIDENCE")), "src/trackers/sort/metric.rs", "")
    m = re.search(r"\bconst DEFAULT_AUTO_WASTE_PERIODICITY\s*:\s*usize\s*=\s*(\d+)", srt)
    if not m:
        raise Untranslatable("DEFAULT_AUTO_WASTE_PERIODICITY")
    out.append("Definition DEFAULT_AUTO_WASTE_PERIODICITY : N := %s%%N." % m.group(1))
    man["consts"]["DEFAULT_AUTO_WASTE_PERIODICITY"] = m.group(1)
    m = re.search(r"\bconst MAHALANOBIS_NEW_TRACK_THRESHOLD\s*:\s*f32\s*=\s*([^;]+);", srt)
    if m:
        emitq("MAHALANOBIS_NEW_TRACK_THRESHOLD", dec_to_fraction(m.group(1)), "src/trackers/sort.rs", "")
    trk = read(repo, "src/track.rs")
    m = re.search(r"\bconst FEATURE_LANES_SIZE\s*:\s*usize\s*=\s*(\d+)\s*;", trk)
    if not m:
        raise Untranslatable("FEATURE_LANES_SIZE not found in src/track.rs")
    out.append("Definition FEATURE_LANES_SIZE : N := %s%%N. (* src/track.rs *)" % m.group(1))
    man["consts"]["FEATURE_LANES_SIZE"] = m.group(1)
    vv = read(repo, "src/trackers/sort/voting.rs")
    m = re.search(r"const F32_U64_MULT\s*:\s*f32\s*=\s*([^;]+);", vv) or re.search(r"F32_U64_MULT\s*:\s*f32\s*=\s*([^;]+);", read(repo, "src/trackers/sort/voting.rs"))
    if m:
        emitq("F32_U64_MULT", dec_to_fraction(m.group(1)), "src/trackers/sort/voting.rs", "")
    return "\n".join(out) + "\n"


class Item:
    """One translated definition.

    coq_name      name of the Gallina Definition
    file          Rust source file (relative to the repository)
    impl_re       regex of the enclosing `impl` header (None: whole file); the first impl that matches AND
                  contains `fn <fn>` is used
    fn            Rust function name
    key           how other translated items call this one (`Type::fn` or `fn`)
    self_struct   struct that `self`/`Self` denotes
    snippet       regex with one group = expression text (closure bodies, single decisions inside big functions)
    params        explicit [(name, ty)] for snippets
    ret           expected result type (needed where the text alone does not determine it, e.g. a bare None)
    out           generated file (module of SimilariGen) the definition goes to
    subst         [(rust expression text, parameter name, ty)]: every occurrence of the expression becomes a
                  fresh parameter of the Gallina function (cos/sin, square roots, PI, calls into code that
                  is modelled elsewhere). Each entry MUST occur in the item, otherwise the tie is broken.
    opaque_lets   names of `let` bindings the model abstracts from (their values may only be used inside
                  substituted expressions); each MUST occur
    squared       translate the square of the result: the result must be a product/quotient of .sqrt() calls
    """
    def __init__(self, coq_name, file, impl_re, fn, key=None, self_struct=None, snippet=None, params=None, ret=None,
                 out="Scalar", subst=None, opaque_lets=(), squared=False, self_enum=None, state=None, events=None):
        self.coq_name = coq_name
        self.file = file
        self.impl_re = impl_re
        self.fn = fn
        self.key = key or fn
        self.self_struct = self_struct
        self.snippet = snippet      # (regex with one group = expression text) for closure bodies
        self.params = params        # explicit [(name, ty)] for snippets
        self.ret = ret
        self.out = out
        self.subst = subst or []
        self.opaque_lets = tuple(opaque_lets)
        self.squared = squared
        self.self_enum = self_enum          # enum that `self` denotes (methods of an enum)
        # state recipe (snippet = one `if .. {stmts} else {stmts}` STATEMENT): state = [(rust place, parameter, ty)] are the
        # variables the statements assign; events = [rust call text] are procedure calls whose occurrence is reported.
        # Result: (event flags..., new values of the state variables...)
        self.state = state or []
        self.events = events or []


def struct_def(repo, file, name, skip=()):
    src = strip_comments(read(repo, file))
    m = re.search(r"pub struct %s\s*\{" % name, src)
    if not m:
        raise Untranslatable("struct %s not found" % name)
    b = src.index("{", m.start())
    e = find_matching(src, b)
    fields = []
    for line in src[b + 1:e].split(","):
        line = line.strip()
        if not line:
            continue
        line = re.sub(r"^pub(\([^)]*\))?\s+", "", line)
        fname, fty = line.split(":", 1)
        fname = fname.strip()
        if fname in skip:
            continue
        fields.append((fname, rust_type_to_ty(fty.strip())))
    return fields


def enum_def(repo, file, name):
    src = strip_comments(read(repo, file))
    m = re.search(r"pub enum %s\s*\{" % name, src)
    if not m:
        raise Untranslatable("enum %s not found" % name)
    b = src.index("{", m.start())
    e = find_matching(src, b)
    body = re.sub(r"#\[[^\]]*\]", "", src[b + 1:e])
    ctors = []
    for part in body.split(","):
        part = part.strip()
        if not part:
            continue
        mm = re.match(r"^(\w+)\s*(?:\(([^)]*)\))?$", part)
        if not mm:
            raise Untranslatable("enum %s: variant %r" % (name, part))
        args = [rust_type_to_ty(a) for a in (mm.group(2) or "").split(",") if a.strip()]
        for a in args:
            if isinstance(a, tuple) and a[0] == "opaque":
                raise Untranslatable("enum %s: variant argument %r" % (name, a))
        ctors.append((mm.group(1), args))
    return ctors


def find_impl_with_fn(src, header_re, fn):
    """(lo, hi) of the first impl block whose header matches and which contains `fn <fn>`."""
    found_header = False
    for m in re.finditer(header_re, src):
        found_header = True
        b = src.index("{", m.end() - 1)
        e = find_matching(src, b)
        if fn is None or re.compile(r"\bfn\s+%s\b" % re.escape(fn)).search(src, b, e):
            return b, e
    if not found_header:
        raise Untranslatable("impl header not found: %s" % header_re)
    raise Untranslatable("fn %s not found in any impl matching %s" % (fn, header_re))


def translate_item(repo, it, items_table, man):
    _fresh[0] = 0
    src = strip_comments(read(repo, it.file))
    lo, hi = 0, len(src)
    if it.impl_re:
        lo, hi = find_impl_with_fn(src, it.impl_re, it.fn)
    # substitutions become extra parameters
    subst = {}
    sub_binders = []
    for (txt, pname, pty) in list(it.state) + list(it.subst):
        b = fresh(pname)
        subst[canon_text(txt)] = (b, pty)
        sub_binders.append((b, pty, txt))
    em = Emitter(items_table, it.self_struct, subst, it.opaque_lets)
    if it.snippet:
        m = re.compile(it.snippet, re.S).search(src, lo, hi)
        if not m:
            raise Untranslatable("snippet for %s not found in %s" % (it.coq_name, it.file))
        text = m.group(1)
        p = Parser(tokenize(text))
        ast = p.expr()
        if p.peek()[0] != "eof":
            raise Untranslatable("snippet for %s: trailing tokens after the expression: %r" % (it.coq_name, p.peek()[1]))
        env = {}
        binders = []
        ptys = []
        for (pn, pty) in (it.params or []):
            b = fresh(pn)
            env[pn] = (b, pty)
            binders.append("(%s : %s)" % (b, em.ty_str(pty)))
            ptys.append(pty)
        if it.state or it.events:
            st = {canon_text(t): ty for (t, _, ty) in it.state}
            evs = [canon_text(t) for t in it.events]
            body = em.run_stmt_if(ast, env, st, evs)
            rty = ("tuple", ["bool"] * len(evs) + [ty for (_, _, ty) in it.state])
            missing_ev = [t for t in it.events if canon_text(t) not in em.subst_used]
            if missing_ev:
                raise Untranslatable("%s: expected call(s) no longer present: %s" % (it.coq_name, "; ".join(missing_ev)))
        elif it.squared:
            body, rty = em.sq_expr(ast, env), NUMT
        else:
            body, rty = em.expr(ast, env, it.ret)
        span = text
    else:
        params_src, ret_src, body_src, (s, e_) = find_fn(src, it.fn, lo, hi)
        params = parse_params(params_src)
        env = {}
        binders = []
        ptys = []
        for (pn, pty) in params:
            if pn == "self":
                ty = ("struct", it.self_struct) if it.self_struct else (("enum", it.self_enum) if it.self_enum else ("opaque", "self"))
            else:
                ty = rust_type_to_ty(pty)
            if ty == ("struct", "Self"):
                ty = ("struct", it.self_struct)
            if isinstance(ty, tuple) and ty[0] == "opaque":
                continue        # not modelled: any use outside a substituted expression is an error (unknown identifier)
            b = fresh(pn)
            env[pn] = (b, ty)
            binders.append("(%s : %s)" % (b, em.ty_str(ty)))
            ptys.append(ty)
        p = Parser(tokenize(body_src))
        ast = p.block()
        want = it.ret
        body, rty = em.block(ast, env, want, sq=it.squared)
        span = src[s:e_]
    for (b, pty, txt) in sub_binders:
        binders.append("(%s : %s)" % (b, em.ty_str(pty)))
        ptys.append(pty)
    unused = [txt for (txt, _, _) in list(it.state) + list(it.subst) if canon_text(txt) not in em.subst_used]
    if unused:
        raise Untranslatable("%s: expected expression(s) no longer present: %s" % (it.coq_name, "; ".join(unused)))
    missing = [n for n in it.opaque_lets if n not in em.opaque_seen]
    if missing:
        raise Untranslatable("%s: expected let binding(s) no longer present: %s" % (it.coq_name, ", ".join(missing)))
    if it.ret is not None and rty != it.ret:
        raise Untranslatable("%s: result type %r, expected %r" % (it.coq_name, rty, it.ret))
    defs = []
    defs.append("Definition %s (num : NumOps) %s : %s :=\n  %s." % (it.coq_name, " ".join(binders), em.ty_str(rty), body))
    if em.asserts:
        defs.append("Definition %s_pre (num : NumOps) %s : bool :=\n  %s." % (it.coq_name, " ".join(binders), _andb_chain(em.asserts)))
    man["items"][it.coq_name] = {"file": it.file, "fn": it.fn, "out": it.out, "sha256": hashlib.sha256(span.encode()).hexdigest(),
                                 "casts_erased": em.casts, "wrappers_erased": em.erased, "asserts": len(em.asserts),
                                 "parameters_for": [txt for (txt, _, _) in it.subst], "abstracted_lets": list(it.opaque_lets),
                                 "squared": it.squared}
    return "\n".join(defs), rty, ptys


def _andb_chain(xs):
    r = "(%s)" % xs[0]
    for x in xs[1:]:
        r = "(andb %s (%s))" % (r, x)
    return r


HEADER = "(* GENERATED by tools/rs2v.py from /repo on every run - do not edit. *)"
IMPORTS = "From Coq Require Import ZArith NArith QArith Bool List.\nFrom Similari Require Import Base.Num.\nFrom SimilariGen Require Import Consts%s.\nImport ListNotations.\n"

# generated files (modules of SimilariGen) in dependency order, with what each one imports
GEN_FILES = [("Scalar", []), ("ScalarBox", ["Scalar"]), ("ScalarCost", ["Scalar"]), ("ScalarGate", ["Scalar", "ScalarBox", "ScalarCost"]),
             ("ScalarClip", ["Scalar"]),
             ("ScalarVisual", ["Scalar", "ScalarBox", "ScalarCost", "ScalarGate"]), ("ScalarNms", ["Scalar", "ScalarBox"]),
             ("ScalarOwnArea", ["Scalar", "ScalarBox"]), ("ScalarTracker", ["Scalar"]), ("ScalarKalmanBox", ["Scalar", "ScalarBox"])]


def gen_scalar(repo, man):
    """Returns ({gen file -> text}, {gen file -> [error messages]}).  A file that has an error is still produced,
    without the definitions that could not be translated (so that everything proved about them stops compiling)."""
    texts = {}
    errors = {}
    for name, deps in GEN_FILES:
        texts[name] = [HEADER, IMPORTS % "".join(" " + d for d in deps)]
        errors[name] = []

    # constants visible to translated code
    CONSTS.clear()
    TABLES.clear()
    CONSTS["EPS"] = ("(of_Q num EPS)", NUMT)
    CONSTS["CHI2_UPPER_BOUND"] = ("(of_Q num CHI2_UPPER_BOUND)", NUMT)
    out = texts["Scalar"]
    out.append("Definition CHI2INV95_T (num : NumOps) : list (T num) := map (of_Q num) CHI2INV95.")
    TABLES["CHI2INV95"] = "(CHI2INV95_T num)"

    # structs
    STRUCTS.clear()
    ENUMS.clear()
    STRUCT_SKIP.clear()
    STRUCTS["BoundingBox"] = struct_def(repo, "src/utils/bbox.rs", "BoundingBox")
    STRUCTS["Universal2DBox"] = struct_def(repo, "src/utils/bbox.rs", "Universal2DBox", skip=("_vertex_cache",))
    STRUCT_SKIP["Universal2DBox"] = {"_vertex_cache"}
    # geo::Coord<f64> (external crate): a pair of coordinates
    STRUCTS["Coord"] = [("x", NUMT), ("y", NUMT)]
    em0 = Emitter({})
    for sname, fields in STRUCTS.items():
        out.append("Record %s (num : NumOps) := Build_%s { %s }." % (sname, sname, "; ".join("%s_%s : %s" % (sname, f, em0.ty_str(t)) for f, t in fields)))
    man["structs"] = {k: [f for f, _ in v] for k, v in STRUCTS.items()}
    try:
        ENUMS["PositionalMetricType"] = enum_def(repo, "src/trackers/sort.rs", "PositionalMetricType")
        ctors = " | ".join("PositionalMetricType_%s%s" % (c, "".join(" (_ : %s)" % em0.ty_str(a) for a in args)) for c, args in ENUMS["PositionalMetricType"])
        texts["ScalarGate"].append("Inductive PositionalMetricType (num : NumOps) := %s." % ctors)
        man["enums"] = {k: [c for c, _ in v] for k, v in ENUMS.items()}
    except Untranslatable as e:
        errors["ScalarGate"].append("enum PositionalMetricType: %s" % e)
    try:
        ENUMS["VisualSortMetricType"] = enum_def(repo, "src/trackers/visual_sort/metric.rs", "VisualSortMetricType")
        ctors = " | ".join("VisualSortMetricType_%s%s" % (c, "".join(" (_ : %s)" % em0.ty_str(a) for a in args)) for c, args in ENUMS["VisualSortMetricType"])
        texts["ScalarVisual"].append("Inductive VisualSortMetricType (num : NumOps) := %s." % ctors)
        man["enums"] = {k: [c for c, _ in v] for k, v in ENUMS.items()}
    except Untranslatable as e:
        errors["ScalarVisual"].append("enum VisualSortMetricType: %s" % e)

    items = [
        # C20
        Item("validate_gap_cmp", "src/trackers/spatio_temporal_constraints.rs", None, "validate",
             snippet=r"fn validate\b.*?\.find\(\|\(d, _\)\|\s*(.*?)\);", params=[("d", "N"), ("epoch_delta", "N")], ret="bool"),
        Item("validate_dist_cmp", "src/trackers/spatio_temporal_constraints.rs", None, "validate",
             snippet=r"fn validate\b.*?Some\(\(_, max_dist\)\)\s*=>\s*(.*?),", params=[("dist", NUMT), ("max_dist", NUMT)], ret="bool"),
        Item("validate_dist_pre", "src/trackers/spatio_temporal_constraints.rs", None, "validate",
             snippet=r"fn validate\b.*?assert!\(\s*(.*?),", params=[("dist", NUMT)], ret="bool"),
        Item("add_constraints_pre", "src/trackers/spatio_temporal_constraints.rs", None, "add_constraints",
             snippet=r"fn add_constraints\b.*?assert!\(\s*(.*?),", params=[("max_distance", NUMT)], ret="bool"),
    ]
    items += EXTRA_ITEMS
    table = {}
    known_files = {n for n, _ in GEN_FILES}
    for it in items:
        if it.out not in known_files:
            raise Untranslatable("item %s: unknown output file %s" % (it.coq_name, it.out))
        try:
            text, rty, ptys = translate_item(repo, it, table, man)
        except (Untranslatable, OSError, AssertionError, IndexError, KeyError, ValueError, TypeError) as e:
            errors[it.out].append("%s (%s, fn %s): %s: %s" % (it.coq_name, it.file, it.fn, type(e).__name__, e))
            texts[it.out].append("(* BROKEN TIE: %s could not be translated from %s: %s *)" % (it.coq_name, it.file, str(e).replace("*)", "* )")))
            continue
        texts[it.out].append(text)
        table[it.key] = (it.coq_name, rty, ptys)
    return {k: "\n".join(v) + "\n" for k, v in texts.items()}, {k: v for k, v in errors.items() if v}


EXTRA_ITEMS = []


def write_if_changed(path, text):
    old = open(path).read() if os.path.exists(path) else None
    if old != text:
        with open(path, "w") as fh:
            fh.write(text)
        return True
    return False


def main():
    ap = argparse.ArgumentParser()
    ap.add_argument("--repo", default="/repo")
    ap.add_argument("--out", default=os.path.join(os.path.dirname(os.path.dirname(os.path.abspath(__file__))), "coq", "gen"))
    a = ap.parse_args()
    os.makedirs(a.out, exist_ok=True)
    man = {"consts": {}, "items": {}, "errors": [], "errors_by_file": {}}
    rc = 0
    try:
        consts = gen_consts(a.repo, man)
        write_if_changed(os.path.join(a.out, "Consts.v"), consts)
    except (Untranslatable, OSError) as e:
        man["errors"].append("Consts: %s" % e)
        man["errors_by_file"]["Consts"] = [str(e)]
        print("rs2v: BROKEN TIE: Consts: %s" % e)
        rc = 1
    try:
        import rs2v_items
        EXTRA_ITEMS[:] = rs2v_items.items(Item, NUMT)
    except ImportError:
        pass
    try:
        texts, errors = gen_scalar(a.repo, man)
        for name, text in texts.items():
            write_if_changed(os.path.join(a.out, name + ".v"), text)
        for name, errs in errors.items():
            for e in errs:
                man["errors"].append("%s: %s" % (name, e))
                print("rs2v: BROKEN TIE: %s: %s" % (name, e))
            man["errors_by_file"][name] = errs
            rc = 1
    except (Untranslatable, OSError) as e:
        man["errors"].append("Scalar: %s" % e)
        man["errors_by_file"]["Scalar"] = [str(e)]
        print("rs2v: BROKEN TIE: Scalar: %s" % e)
        rc = 1
    with open(os.path.join(a.out, "manifest.json"), "w") as fh:
        json.dump(man, fh, indent=1, sort_keys=True)
    sys.exit(rc)


if __name__ == "__main__":
    sys.path.insert(0, os.path.dirname(os.path.abspath(__file__)))
    main()
