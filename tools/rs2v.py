#!/usr/bin/env python3
"""rs2v: translator from a small Rust subset to Gallina (DESIGN.md section 3.1).

Regenerates /verif/coq/gen/{Consts.v,Scalar.v} and gen/manifest.json from /repo's CURRENT sources on
every run. The items to translate are listed in ITEMS below; each is located in the source by file +
enclosing `impl` header + fn name (or by an anchored snippet pattern for closure bodies), parsed by a
recursive-descent parser for the expression subset, type-checked just enough to choose between N / Z /
numeric (NumOps) / bool operators, and printed as a Gallina Definition over an arbitrary `num : NumOps`.

Subset: let (ident or tuple pattern, shadowing allowed), if/else, arithmetic, comparisons, && || !, unary -,
deref/ref (erased), `as` casts (erased, recorded), method calls abs/max/min/floor/sqrt(only in *_sq recipes)/
unwrap_or/is_some/is_none/clone, field access, tuple literals, struct literals, Some/None/Ok/Err,
calls of other translated items, assert!(..) statements (collected into <name>_pre), and `match` on an
Option with Some(x)/None arms or a two-arm tuple-of-options match.
Anything outside the subset raises Untranslatable: the tie is then broken and the check reports it.
"""
import argparse
import hashlib
import json
import os
import re
import sys
from fractions import Fraction


class Untranslatable(Exception):
    pass


# ------------------------------------------------------------------------------------------------
# tokenizer

TOKEN_RE = re.compile(r"""
    (?P<ws>\s+|//[^\n]*|/\*.*?\*/)
  | (?P<float>\d[\d_]*\.\d[\d_]*(?:[eE][+-]?\d+)?(?:_?f32|_?f64)?|\d[\d_]*[eE][+-]?\d+(?:_?f32|_?f64)?|\d[\d_]*(?:_?f32|_?f64)|\d[\d_]*\.(?![\w.]))
  | (?P<int>\d[\d_]*(?:_?(?:usize|u64|i64|u32|i32|u8|isize))?)
  | (?P<ident>[A-Za-z_][A-Za-z_0-9]*!?)
  | (?P<op>::|->|=>|==|!=|<=|>=|&&|\|\||\.\.=|\.\.|[-+*/%<>=!&|.,;:(){}\[\]#?@])
""", re.X | re.S)


def tokenize(src):
    toks = []
    pos = 0
    while pos < len(src):
        m = TOKEN_RE.match(src, pos)
        if not m:
            raise Untranslatable("cannot tokenize at: %r" % src[pos:pos + 30])
        pos = m.end()
        k = m.lastgroup
        if k == "ws":
            continue
        toks.append((k, m.group(k)))
    return toks


# ------------------------------------------------------------------------------------------------
# AST: tuples ('kind', ...)

class Parser:
    def __init__(self, toks):
        self.t = toks
        self.i = 0

    def peek(self, k=0):
        return self.t[self.i + k] if self.i + k < len(self.t) else ("eof", "")

    def next(self):
        tok = self.peek()
        self.i += 1
        return tok

    def accept(self, val):
        if self.peek()[1] == val:
            self.i += 1
            return True
        return False

    def expect(self, val):
        tok = self.next()
        if tok[1] != val:
            raise Untranslatable("expected %r, got %r (context: %s)" % (val, tok[1], " ".join(x[1] for x in self.t[max(0, self.i - 8):self.i + 4])))
        return tok

    # block := '{' stmt* expr? '}'
    def block(self):
        self.expect("{")
        stmts = []
        result = None
        while not self.accept("}"):
            if self.peek()[1] == "let":
                stmts.append(self.let_stmt())
                continue
            if self.peek()[1] in ("assert!",):
                self.next()
                self.expect("(")
                cond = self.expr()
                # optional message args
                while self.accept(","):
                    if self.peek()[1] == ")":
                        break
                    self.skip_expr_tokens()
                self.expect(")")
                self.accept(";")
                stmts.append(("assert", cond))
                continue
            e = self.expr()
            if self.accept(";"):
                stmts.append(("expr", e))
            else:
                result = e
                self.expect("}")
                break
        return ("block", stmts, result)

    def skip_expr_tokens(self):
        depth = 0
        while True:
            k, v = self.peek()
            if k == "eof":
                raise Untranslatable("eof in macro args")
            if v in "([{":
                depth += 1
            elif v in ")]}":
                if depth == 0:
                    return
                depth -= 1
            elif v == "," and depth == 0:
                return
            self.next()

    def let_stmt(self):
        self.expect("let")
        self.accept("mut")
        pat = self.pattern()
        if self.accept(":"):
            self.type_()
        self.expect("=")
        e = self.expr()
        self.expect(";")
        return ("let", pat, e)

    def pattern(self):
        if self.accept("("):
            items = []
            while not self.accept(")"):
                items.append(self.pattern())
                self.accept(",")
            return ("ptuple", items)
        self.accept("&")
        self.accept("mut")
        k, v = self.next()
        if k != "ident":
            raise Untranslatable("pattern: %r" % v)
        if v in ("Some", "Ok", "Err") and self.accept("("):
            inner = self.pattern()
            self.expect(")")
            return ("pctor", v, inner)
        return ("pvar", v)

    def type_(self):
        # skip a type
        depth = 0
        while True:
            k, v = self.peek()
            if v in ("<", "(", "["):
                depth += 1
            elif v in (">", ")", "]"):
                if depth == 0:
                    return
                depth -= 1
            elif v in ("=", ",", ";", "{") and depth == 0:
                return
            self.next()

    # precedence climbing
    def expr(self):
        return self.or_expr()

    def or_expr(self):
        e = self.and_expr()
        while self.peek()[1] == "||":
            self.next()
            e = ("bin", "||", e, self.and_expr())
        return e

    def and_expr(self):
        e = self.cmp_expr()
        while self.peek()[1] == "&&":
            self.next()
            e = ("bin", "&&", e, self.cmp_expr())
        return e

    def cmp_expr(self):
        e = self.add_expr()
        if self.peek()[1] in ("==", "!=", "<", ">", "<=", ">="):
            op = self.next()[1]
            e = ("bin", op, e, self.add_expr())
        return e

    def add_expr(self):
        e = self.mul_expr()
        while self.peek()[1] in ("+", "-"):
            op = self.next()[1]
            e = ("bin", op, e, self.mul_expr())
        return e

    def mul_expr(self):
        e = self.cast_expr()
        while self.peek()[1] in ("*", "/"):
            op = self.next()[1]
            e = ("bin", op, e, self.cast_expr())
        return e

    def cast_expr(self):
        e = self.unary()
        while self.peek()[1] == "as":
            self.next()
            k, v = self.next()
            e = ("cast", v, e)
        return e

    def unary(self):
        k, v = self.peek()
        if v == "-":
            self.next()
            return ("neg", self.unary())
        if v == "!":
            self.next()
            return ("not", self.unary())
        if v in ("*", "&"):
            self.next()
            self.accept("mut")
            return self.unary()
        return self.postfix()

    def postfix(self):
        e = self.primary()
        while True:
            if self.peek()[1] == ".":
                self.next()
                k, v = self.next()
                if k == "int":
                    e = ("tfield", int(v), e)
                    continue
                if k == "float":
                    # tuple.0.1 tokenised as float
                    a, b = v.split(".")
                    e = ("tfield", int(b), ("tfield", int(a), e))
                    continue
                if k != "ident":
                    raise Untranslatable("postfix .%r" % v)
                if self.peek()[1] == "(":
                    self.next()
                    args = []
                    while not self.accept(")"):
                        args.append(self.expr())
                        self.accept(",")
                    e = ("mcall", v, e, args)
                else:
                    e = ("field", v, e)
            elif self.peek()[1] == "[":
                self.next()
                idx = self.expr()
                self.expect("]")
                e = ("index", e, idx)
            elif self.peek()[1] == "?":
                raise Untranslatable("? operator")
            else:
                return e

    def path(self, first):
        parts = [first]
        while self.peek()[1] == "::":
            self.next()
            k, v = self.next()
            if v == "<":
                # turbofish: skip
                depth = 1
                while depth:
                    k2, v2 = self.next()
                    if v2 == "<":
                        depth += 1
                    elif v2 == ">":
                        depth -= 1
                continue
            parts.append(v)
        return parts

    def primary(self):
        k, v = self.next()
        if k == "float":
            txt = re.sub(r"_?(f32|f64)$", "", v).replace("_", "")
            return ("num", Fraction(txt if not txt.endswith(".") else txt + "0"), "T")
        if k == "int":
            txt = re.sub(r"_?(usize|u64|i64|u32|i32|u8|isize)$", "", v).replace("_", "")
            return ("num", Fraction(int(txt)), "int")
        if v == "(":
            items = []
            if self.accept(")"):
                return ("tuple", [])
            items.append(self.expr())
            trailing = False
            while self.accept(","):
                trailing = True
                if self.peek()[1] == ")":
                    break
                items.append(self.expr())
            self.expect(")")
            if len(items) == 1 and not trailing:
                return items[0]
            return ("tuple", items)
        if v == "if":
            c = self.expr_no_struct()
            th = self.block()
            if self.accept("else"):
                if self.peek()[1] == "if":
                    el = self.primary()
                else:
                    el = self.block()
            else:
                raise Untranslatable("if without else")
            return ("if", c, th, el)
        if v == "match":
            scrut = self.expr_no_struct()
            self.expect("{")
            arms = []
            while not self.accept("}"):
                pat = self.match_pattern()
                self.expect("=>")
                if self.peek()[1] == "{":
                    body = self.block()
                else:
                    body = self.expr()
                self.accept(",")
                arms.append((pat, body))
            return ("match", scrut, arms)
        if v == "{":
            self.i -= 1
            return self.block()
        if k == "ident":
            if v in ("true", "false"):
                return ("bool", v == "true")
            parts = self.path(v)
            if self.peek()[1] == "(":
                self.next()
                args = []
                while not self.accept(")"):
                    args.append(self.expr())
                    self.accept(",")
                return ("call", parts, args)
            if self.peek()[1] == "{" and not getattr(self, "_no_struct", False) and parts[-1][0].isupper():
                # struct literal
                self.next()
                fields = []
                while not self.accept("}"):
                    if self.accept(".."):
                        self.expr()
                        continue
                    fk, fname = self.next()
                    if self.accept(":"):
                        fe = self.expr()
                    else:
                        fe = ("path", [fname])
                    self.accept(",")
                    fields.append((fname, fe))
                return ("struct", parts, fields)
            return ("path", parts)
        raise Untranslatable("primary: %r" % v)

    def expr_no_struct(self):
        old = getattr(self, "_no_struct", False)
        self._no_struct = True
        try:
            return self.expr()
        finally:
            self._no_struct = old

    def match_pattern(self):
        k, v = self.peek()
        if v == "(":
            self.next()
            items = []
            while not self.accept(")"):
                items.append(self.match_pattern())
                self.accept(",")
            return ("ptuple", items)
        if v == "_":
            self.next()
            return ("pwild",)
        self.accept("&")
        k, v = self.next()
        parts = self.path(v)
        if self.accept("("):
            inner = []
            while not self.accept(")"):
                inner.append(self.match_pattern())
                self.accept(",")
            return ("pctor", parts[-1], inner)
        if parts[-1][0].isupper():
            return ("pctor", parts[-1], [])
        return ("pvar", parts[-1])


# ------------------------------------------------------------------------------------------------
# source location helpers

def strip_comments(src):
    return re.sub(r"//[^\n]*", "", src)


def find_matching(src, start, open_ch="{", close_ch="}"):
    depth = 0
    i = start
    while i < len(src):
        c = src[i]
        if c == open_ch:
            depth += 1
        elif c == close_ch:
            depth -= 1
            if depth == 0:
                return i
        i += 1
    raise Untranslatable("unbalanced braces")


def find_impl(src, header_re):
    m = re.search(header_re, src)
    if not m:
        raise Untranslatable("impl header not found: %s" % header_re)
    b = src.index("{", m.end() - 1)
    e = find_matching(src, b)
    return b, e


def find_fn(src, name, lo=0, hi=None):
    hi = len(src) if hi is None else hi
    m = re.compile(r"\bfn\s+%s\s*(<[^>]*>)?\s*\(" % re.escape(name)).search(src, lo, hi)
    if not m:
        raise Untranslatable("fn %s not found" % name)
    po = src.index("(", m.start())
    pc = find_matching(src, po, "(", ")")
    b = src.index("{", pc)
    e = find_matching(src, b)
    return src[po + 1:pc], src[pc + 1:b], src[b:e + 1], (m.start(), e + 1)


def parse_params(params_src):
    """Returns list of (name, rust_type) - self handled as ('self','Self')."""
    res = []
    depth = 0
    cur = ""
    for c in params_src:
        if c in "<([":
            depth += 1
        elif c in ">)]":
            depth -= 1
        if c == "," and depth == 0:
            res.append(cur)
            cur = ""
        else:
            cur += c
    if cur.strip():
        res.append(cur)
    out = []
    for p in res:
        p = p.strip()
        if not p:
            continue
        if re.match(r"^&?\s*(mut\s+)?self$", p):
            out.append(("self", "Self"))
            continue
        name, ty = p.split(":", 1)
        out.append((name.replace("mut", "").strip(), ty.strip()))
    return out


# ------------------------------------------------------------------------------------------------
# typing and printing

NUMT = "T"   # the NumOps carrier


def rust_type_to_ty(t):
    t = t.strip().lstrip("&").strip()
    if t in ("f32", "f64"):
        return NUMT
    if t in ("usize", "u64", "u32", "u8"):
        return "N"
    if t in ("i64", "i32", "isize"):
        return "Z"
    if t == "bool":
        return "bool"
    m = re.match(r"Option<(.*)>$", t)
    if m:
        return ("option", rust_type_to_ty(m.group(1)))
    if t in STRUCTS or t == "Self":
        return ("struct", t)
    return ("opaque", t)


# struct name -> list of (field, type)
STRUCTS = {}


class Emitter:
    def __init__(self, items_by_path, self_struct=None):
        self.items = items_by_path       # rust path tail (e.g. 'too_far', 'BoundingBox::intersection') -> (coq name, ret ty)
        self.self_struct = self_struct
        self.asserts = []
        self.casts = []

    def ty_str(self, ty):
        if ty == NUMT:
            return "(T num)"
        if ty in ("N", "Z", "bool"):
            return ty
        if isinstance(ty, tuple):
            if ty[0] == "option":
                return "(option %s)" % self.ty_str(ty[1])
            if ty[0] == "struct":
                return "(%s num)" % self.struct_name(ty[1])
            if ty[0] == "tuple":
                return "(" + " * ".join(self.ty_str(x) for x in ty[1]) + ")%type"
        raise Untranslatable("type %r" % (ty,))

    def struct_name(self, s):
        if s == "Self":
            s = self.self_struct
        return s

    def num_lit(self, fr, ty):
        if ty == "N":
            if fr.denominator != 1 or fr < 0:
                raise Untranslatable("bad N literal")
            return "%d%%N" % fr.numerator
        if ty == "Z":
            return "(%d)%%Z" % fr.numerator
        if fr == 0:
            return "(zero num)"
        if fr == 1:
            return "(one num)"
        return "(of_Q num (%d # %d))" % (fr.numerator, fr.denominator)

    def expr(self, e, env, want=None):
        """returns (coq_text, ty)"""
        k = e[0]
        if k == "num":
            ty = want if want in ("N", "Z", NUMT) else (NUMT if e[2] == "T" else (want or "N"))
            if e[2] == "T":
                ty = NUMT
            return self.num_lit(e[1], ty), ty
        if k == "bool":
            return ("true" if e[1] else "false"), "bool"
        if k == "path":
            parts = e[1]
            if len(parts) == 1:
                name = parts[0]
                if name in env:
                    return env[name][0], env[name][1]
                if name in CONSTS:
                    return CONSTS[name][0], CONSTS[name][1]
                if name == "None":
                    return "None", ("option", want[1] if isinstance(want, tuple) and want[0] == "option" else None)
                raise Untranslatable("unknown identifier %s" % name)
            tail = parts[-1]
            if tail in CONSTS:
                return CONSTS[tail][0], CONSTS[tail][1]
            if parts[-2:] == ["f32", "MAX"] or parts[-2:] == ["f64", "MAX"]:
                raise Untranslatable("f32::MAX")
            raise Untranslatable("unknown path %s" % "::".join(parts))
        if k == "cast":
            txt, ty = self.expr(e[2], env, want)
            self.casts.append(e[1])
            tgt = rust_type_to_ty(e[1])
            if tgt != ty and not (tgt == NUMT and ty == NUMT):
                if ty == "N" and tgt == NUMT:
                    return "(of_Q num (inject_Z (Z.of_N %s)))" % txt, NUMT
                if ty == "Z" and tgt == NUMT:
                    return "(of_Q num (inject_Z %s))" % txt, NUMT
                raise Untranslatable("cast %s -> %s" % (ty, e[1]))
            return txt, ty
        if k == "neg":
            txt, ty = self.expr(e[1], env, want)
            if ty == NUMT:
                return "(opp num %s)" % txt, ty
            if ty == "Z":
                return "(Z.opp %s)" % txt, ty
            raise Untranslatable("neg on %s" % (ty,))
        if k == "not":
            txt, ty = self.expr(e[1], env, "bool")
            return "(negb %s)" % txt, "bool"
        if k == "bin":
            op, a, b = e[1], e[2], e[3]
            if op in ("&&", "||"):
                ta, _ = self.expr(a, env, "bool")
                tb, _ = self.expr(b, env, "bool")
                return "(%s %s %s)" % ("andb" if op == "&&" else "orb", ta, tb), "bool"
            # numeric: determine type from whichever side is not a bare int literal
            ta, tya = self.expr(a, env, want if op in "+-*/" else None) if a[0] != "num" or a[2] == "T" else (None, None)
            tb, tyb = self.expr(b, env, tya if tya else (want if op in "+-*/" else None)) if True else (None, None)
            if ta is None:
                ta, tya = self.expr(a, env, tyb)
            if tya != tyb:
                raise Untranslatable("type mismatch in %s: %r vs %r" % (op, tya, tyb))
            ty = tya
            if op in ("+", "-", "*", "/"):
                if ty == NUMT:
                    f = {"+": "add", "-": "sub", "*": "mul", "/": "div"}[op]
                    return "(%s num %s %s)" % (f, ta, tb), ty
                if ty == "N":
                    f = {"+": "N.add", "-": "N.sub", "*": "N.mul", "/": "N.div"}[op]
                    return "(%s %s %s)" % (f, ta, tb), ty
                if ty == "Z":
                    f = {"+": "Z.add", "-": "Z.sub", "*": "Z.mul", "/": "Z.quot"}[op]
                    return "(%s %s %s)" % (f, ta, tb), ty
                raise Untranslatable("arith on %r" % (ty,))
            # comparisons
            if ty == NUMT:
                m = {"<": "(ltb num %s %s)" % (ta, tb), "<=": "(leb num %s %s)" % (ta, tb),
                     ">": "(ltb num %s %s)" % (tb, ta), ">=": "(leb num %s %s)" % (tb, ta),
                     "==": "(andb (leb num %s %s) (leb num %s %s))" % (ta, tb, tb, ta),
                     "!=": "(negb (andb (leb num %s %s) (leb num %s %s)))" % (ta, tb, tb, ta)}
                return m[op], "bool"
            if ty in ("N", "Z"):
                p = ty
                m = {"<": "(%s.ltb %s %s)" % (p, ta, tb), "<=": "(%s.leb %s %s)" % (p, ta, tb),
                     ">": "(%s.ltb %s %s)" % (p, tb, ta), ">=": "(%s.leb %s %s)" % (p, tb, ta),
                     "==": "(%s.eqb %s %s)" % (p, ta, tb), "!=": "(negb (%s.eqb %s %s))" % (p, ta, tb)}
                return m[op], "bool"
            if ty == "bool":
                m = {"==": "(Bool.eqb %s %s)" % (ta, tb), "!=": "(negb (Bool.eqb %s %s))" % (ta, tb)}
                return m[op], "bool"
            raise Untranslatable("comparison on %r" % (ty,))
        if k == "field":
            name, obj = e[1], e[2]
            txt, ty = self.expr(obj, env)
            if isinstance(ty, tuple) and ty[0] == "struct":
                sname = self.struct_name(ty[1])
                for (fn_, fty) in STRUCTS[sname]:
                    if fn_ == name:
                        return "(%s_%s num %s)" % (sname, name, txt), fty
                raise Untranslatable("no field %s in %s" % (name, sname))
            raise Untranslatable("field %s of %r" % (name, ty))
        if k == "tfield":
            txt, ty = self.expr(e[2], env)
            if isinstance(ty, tuple) and ty[0] == "tuple":
                n = len(ty[1])
                idx = e[1]
                # nested pairs ((a,b),c)
                acc = txt
                for _ in range(n - 1 - idx):
                    acc = "(fst %s)" % acc
                if idx > 0:
                    acc = "(snd %s)" % acc
                return acc, ty[1][idx]
            raise Untranslatable("tuple field of %r" % (ty,))
        if k == "mcall":
            name, obj, args = e[1], e[2], e[3]
            if name in ("clone", "to_owned", "as_ref"):
                return self.expr(obj, env, want)
            if name in ("abs", "floor"):
                txt, ty = self.expr(obj, env, NUMT)
                if ty != NUMT:
                    raise Untranslatable("%s on %r" % (name, ty))
                return "(%s num %s)" % (name, txt), ty
            if name == "sqrt":
                raise Untranslatable("sqrt (use a squared recipe)")
            if name in ("max", "min"):
                ta, ty = self.expr(obj, env, NUMT)
                tb, tyb = self.expr(args[0], env, ty)
                if ty == NUMT:
                    return "(%s num %s %s)" % (name, ta, tb), ty
                if ty in ("N", "Z"):
                    return "(%s.%s %s %s)" % (ty, name, ta, tb), ty
                raise Untranslatable("max/min on %r" % (ty,))
            if name == "unwrap_or":
                ta, ty = self.expr(obj, env)
                if not (isinstance(ty, tuple) and ty[0] == "option"):
                    raise Untranslatable("unwrap_or on %r" % (ty,))
                tb, _ = self.expr(args[0], env, ty[1])
                return "(match %s with Some v_ => v_ | None => %s end)" % (ta, tb), ty[1]
            if name in ("is_some", "is_none"):
                ta, ty = self.expr(obj, env)
                r = "(match %s with Some _ => true | None => false end)" % ta
                return (r if name == "is_some" else "(negb %s)" % r), "bool"
            if name == "contains" and obj[0] == "tuple":
                raise Untranslatable("range contains")
            # method that is a translated item taking self
            key = name
            if key in self.items:
                cname, rty, ptys = self.items[key]
                ta, ty = self.expr(obj, env)
                targs = [ta] + [self.expr(a, env, pt)[0] for a, pt in zip(args, ptys[1:])]
                return "(%s num %s)" % (cname, " ".join(targs)), rty
            raise Untranslatable("method %s" % name)
        if k == "call":
            parts, args = e[1], e[2]
            tail = parts[-1]
            if tail == "Some" and len(args) == 1:
                wt = want[1] if isinstance(want, tuple) and want[0] == "option" else None
                ta, ty = self.expr(args[0], env, wt)
                return "(Some %s)" % ta, ("option", ty)
            if tail in ("Ok",) and len(args) == 1:
                ta, ty = self.expr(args[0], env, want[1] if isinstance(want, tuple) and want[0] == "option" else None)
                return "(Some %s)" % ta, ("option", ty)
            if tail == "Err":
                return "None", ("option", want[1] if isinstance(want, tuple) and want[0] == "option" else None)
            key2 = "::".join(parts[-2:])
            for key in (key2, tail):
                if key in self.items:
                    cname, rty, ptys = self.items[key]
                    targs = [self.expr(a, env, pt)[0] for a, pt in zip(args, ptys)]
                    return "(%s num %s)" % (cname, " ".join(targs)), rty
            raise Untranslatable("call %s" % "::".join(parts))
        if k == "tuple":
            parts = [self.expr(x, env) for x in e[1]]
            return "(" + ", ".join(p[0] for p in parts) + ")", ("tuple", [p[1] for p in parts])
        if k == "struct":
            sname = e[1][-1]
            sname = self.struct_name(sname)
            if sname not in STRUCTS:
                raise Untranslatable("struct %s" % sname)
            vals = {}
            for fname, fe in e[2]:
                vals[fname] = fe
            args = []
            for (fname, fty) in STRUCTS[sname]:
                if fname not in vals:
                    raise Untranslatable("struct literal %s lacks %s" % (sname, fname))
                args.append(self.expr(vals[fname], env, fty)[0])
            return "(Build_%s num %s)" % (sname, " ".join(args)), ("struct", sname)
        if k == "if":
            c, _ = self.expr(e[1], env, "bool")
            ta, ty = self.block(e[2], env, want)
            tb, tyb = self.block(e[3], env, ty) if e[3][0] == "block" else self.expr(e[3], env, ty)
            if ty != tyb and not (isinstance(ty, tuple) and ty[0] == "option" and isinstance(tyb, tuple) and tyb[0] == "option"):
                raise Untranslatable("if branches differ: %r vs %r" % (ty, tyb))
            if isinstance(ty, tuple) and ty[0] == "option" and ty[1] is None:
                ty = tyb
            return "(if %s then %s else %s)" % (c, ta, tb), ty
        if k == "block":
            return self.block(e, env, want)
        if k == "match":
            return self.match(e, env, want)
        if k == "index":
            base = e[1]
            if base[0] == "path" and base[1][-1] in TABLES:
                tname = base[1][-1]
                ti, _ = self.expr(e[2], env, "N")
                return "(nth (N.to_nat %s) %s (zero num))" % (ti, TABLES[tname]), NUMT
            raise Untranslatable("index")
        raise Untranslatable("expr kind %s" % k)

    def match(self, e, env, want):
        scrut, arms = e[1], e[2]
        if scrut[0] == "tuple":
            raise Untranslatable("tuple match")
        ts, ty = self.expr(scrut, env)
        if isinstance(ty, tuple) and ty[0] == "option":
            some_arm = none_arm = None
            for pat, body in arms:
                if pat[0] == "pctor" and pat[1] == "Some":
                    some_arm = (pat, body)
                elif (pat[0] == "pctor" and pat[1] == "None") or pat[0] == "pwild":
                    none_arm = (pat, body)
            if not some_arm or not none_arm:
                raise Untranslatable("option match arms")
            inner = some_arm[0][2][0]
            env2 = dict(env)
            if inner[0] == "pvar":
                binder = fresh(inner[1])
                env2[inner[1]] = (binder, ty[1])
            elif inner[0] == "pwild":
                binder = "_"
            elif inner[0] == "ptuple":
                # Some((_, x)) over option (tuple)
                if not (isinstance(ty[1], tuple) and ty[1][0] == "tuple"):
                    raise Untranslatable("tuple pattern on %r" % (ty[1],))
                names = []
                for sub, sty in zip(inner[1], ty[1][1]):
                    if sub[0] == "pvar":
                        b = fresh(sub[1])
                        env2[sub[1]] = (b, sty)
                        names.append(b)
                    else:
                        names.append("_")
                binder = "(" + ", ".join(names) + ")"
            else:
                raise Untranslatable("Some pattern")
            tsome, rty = (self.block(some_arm[1], env2, want) if some_arm[1][0] == "block" else self.expr(some_arm[1], env2, want))
            tnone, _ = (self.block(none_arm[1], env, rty) if none_arm[1][0] == "block" else self.expr(none_arm[1], env, rty))
            return "(match %s with Some %s => %s | None => %s end)" % (ts, binder, tsome, tnone), rty
        raise Untranslatable("match on %r" % (ty,))

    def block(self, b, env, want=None):
        assert b[0] == "block"
        env = dict(env)
        lets = []
        for st in b[1]:
            if st[0] == "let":
                pat, e = st[1], st[2]
                te, ty = self.expr(e, env)
                if pat[0] == "pvar":
                    name = fresh(pat[1])
                    lets.append("let %s := %s in" % (name, te))
                    env[pat[1]] = (name, ty)
                elif pat[0] == "ptuple":
                    if not (isinstance(ty, tuple) and ty[0] == "tuple" and len(ty[1]) == len(pat[1])):
                        raise Untranslatable("tuple let on %r" % (ty,))
                    names = []
                    for sub, sty in zip(pat[1], ty[1]):
                        if sub[0] != "pvar":
                            raise Untranslatable("nested pattern")
                        nm = fresh(sub[1])
                        names.append(nm)
                        env[sub[1]] = (nm, sty)
                    lets.append("let '(%s) := %s in" % (", ".join(names), te))
                else:
                    raise Untranslatable("let pattern")
            elif st[0] == "assert":
                c, _ = self.expr(st[1], env, "bool")
                self.asserts.append(" ".join(lets) + " " + c if lets else c)
            else:
                raise Untranslatable("statement expression")
        if b[2] is None:
            raise Untranslatable("block without value")
        tr, ty = self.expr(b[2], env, want)
        return "(" + " ".join(lets) + " " + tr + ")" if lets else tr, ty


_fresh = [0]


def fresh(name):
    _fresh[0] += 1
    return "%s_%d" % (re.sub(r"\W", "", name), _fresh[0])


CONSTS = {}   # rust const name -> (coq text, ty)
TABLES = {}   # rust const table name -> coq list name


# ------------------------------------------------------------------------------------------------
# what to translate

def read(repo, rel):
    return open(os.path.join(repo, rel)).read()


def const_float(src, name):
    m = re.search(r"\bconst\s+%s\s*:\s*(f32|f64)\s*=\s*([^;]+);" % name, src)
    if not m:
        raise Untranslatable("const %s not found" % name)
    return m.group(2).strip()


def dec_to_fraction(txt):
    txt = re.sub(r"_?(f32|f64)$", "", txt.strip()).replace("_", "")
    return Fraction(txt)


def gen_consts(repo, man):
    out = []
    out.append("(* GENERATED by tools/rs2v.py from /repo on every run - do not edit. *)")
    out.append("From Coq Require Import ZArith NArith QArith List.\nImport ListNotations.\n")
    def emitq(cname, fr, src_file, why):
        out.append("Definition %s : Q := (%d # %d). (* %s: %s *)" % (cname, fr.numerator, fr.denominator, src_file, why))
        man["consts"][cname] = {"file": src_file, "value": str(fr)}
    lib = read(repo, "src/lib.rs")
    emitq("EPS", dec_to_fraction(const_float(lib, "EPS")), "src/lib.rs", "pub const EPS")
    kal = read(repo, "src/utils/kalman.rs")
    m = re.search(r"pub const CHI2INV95\s*:\s*\[f32;\s*(\d+)\]\s*=\s*\[([^\]]*)\]", kal)
    if not m:
        raise Untranslatable("CHI2INV95 not found")
    vals = [dec_to_fraction(x) for x in m.group(2).split(",") if x.strip()]
    if len(vals) != int(m.group(1)):
        raise Untranslatable("CHI2INV95 arity")
    out.append("Definition CHI2INV95 : list Q := [%s]. (* src/utils/kalman.rs *)" % "; ".join("(%d # %d)" % (v.numerator, v.denominator) for v in vals))
    man["consts"]["CHI2INV95"] = [str(v) for v in vals]
    emitq("CHI2_UPPER_BOUND", dec_to_fraction(const_float(kal, "CHI2_UPPER_BOUND")), "src/utils/kalman.rs", "pub const CHI2_UPPER_BOUND")
    srt = read(repo, "src/trackers/sort.rs")
    emitq("DEFAULT_SORT_IOU_THRESHOLD", dec_to_fraction(const_float(srt, "DEFAULT_SORT_IOU_THRESHOLD")), "src/trackers/sort.rs", "")
    sm = read(repo, "src/trackers/sort/metric.rs")
    emitq("DEFAULT_MINIMAL_SORT_CONFIDENCE", dec_to_fraction(const_float(sm, "DEFAULT_MINIMAL_SORT_CONFIDENCE")), "src/trackers/sort/metric.rs", "")
    m = re.search(r"\bconst DEFAULT_AUTO_WASTE_PERIODICITY\s*:\s*usize\s*=\s*(\d+)", srt)
    if not m:
        raise Untranslatable("DEFAULT_AUTO_WASTE_PERIODICITY")
    out.append("Definition DEFAULT_AUTO_WASTE_PERIODICITY : N := %s%%N." % m.group(1))
    man["consts"]["DEFAULT_AUTO_WASTE_PERIODICITY"] = m.group(1)
    m = re.search(r"\bconst MAHALANOBIS_NEW_TRACK_THRESHOLD\s*:\s*f32\s*=\s*([^;]+);", srt)
    if m:
        emitq("MAHALANOBIS_NEW_TRACK_THRESHOLD", dec_to_fraction(m.group(1)), "src/trackers/sort.rs", "")
    vv = read(repo, "src/trackers/sort/voting.rs")
    m = re.search(r"const F32_U64_MULT\s*:\s*f32\s*=\s*([^;]+);", vv) or re.search(r"F32_U64_MULT\s*:\s*f32\s*=\s*([^;]+);", read(repo, "src/trackers/sort/voting.rs"))
    if m:
        emitq("F32_U64_MULT", dec_to_fraction(m.group(1)), "src/trackers/sort/voting.rs", "")
    return "\n".join(out) + "\n"


class Item:
    """One translated definition."""
    def __init__(self, coq_name, file, impl_re, fn, key=None, self_struct=None, snippet=None, params=None, ret=None):
        self.coq_name = coq_name
        self.file = file
        self.impl_re = impl_re
        self.fn = fn
        self.key = key or fn
        self.self_struct = self_struct
        self.snippet = snippet      # (regex with one group = expression text) for closure bodies
        self.params = params        # explicit [(name, ty)] for snippets
        self.ret = ret


def struct_def(repo, file, name, skip=()):
    src = strip_comments(read(repo, file))
    m = re.search(r"pub struct %s\s*\{" % name, src)
    if not m:
        raise Untranslatable("struct %s not found" % name)
    b = src.index("{", m.start())
    e = find_matching(src, b)
    fields = []
    for line in src[b + 1:e].split(","):
        line = line.strip()
        if not line:
            continue
        line = re.sub(r"^pub(\([^)]*\))?\s+", "", line)
        fname, fty = line.split(":", 1)
        fname = fname.strip()
        if fname in skip:
            continue
        fields.append((fname, rust_type_to_ty(fty.strip())))
    return fields


def translate_item(repo, it, items_table, man):
    src = strip_comments(read(repo, it.file))
    lo, hi = 0, len(src)
    if it.impl_re:
        lo, hi = find_impl(src, it.impl_re)
    em = Emitter(items_table, it.self_struct)
    if it.snippet:
        m = re.compile(it.snippet, re.S).search(src, lo, hi)
        if not m:
            raise Untranslatable("snippet for %s not found in %s" % (it.coq_name, it.file))
        text = m.group(1)
        ast = Parser(tokenize(text)).expr()
        env = {}
        binders = []
        for (pn, pty) in it.params:
            b = fresh(pn)
            env[pn] = (b, pty)
            binders.append("(%s : %s)" % (b, em.ty_str(pty)))
        body, rty = em.expr(ast, env, it.ret)
        span = text
    else:
        params_src, ret_src, body_src, (s, e_) = find_fn(src, it.fn, lo, hi)
        params = parse_params(params_src)
        env = {}
        binders = []
        ptys = []
        for (pn, pty) in params:
            ty = ("struct", it.self_struct) if pn == "self" else rust_type_to_ty(pty)
            b = fresh(pn)
            env[pn] = (b, ty)
            binders.append("(%s : %s)" % (b, em.ty_str(ty)))
            ptys.append(ty)
        ast = Parser(tokenize(body_src)).block()
        want = it.ret
        body, rty = em.block(ast, env, want)
        span = src[s:e_]
    defs = []
    defs.append("Definition %s (num : NumOps) %s : %s :=\n  %s." % (it.coq_name, " ".join(binders), em.ty_str(rty), body))
    if em.asserts:
        defs.append("Definition %s_pre (num : NumOps) %s : bool :=\n  %s." % (it.coq_name, " ".join(binders), " && ".join("(%s)" % a for a in em.asserts) if False else
                                                                  _andb_chain(em.asserts)))
    man["items"][it.coq_name] = {"file": it.file, "fn": it.fn, "sha256": hashlib.sha256(span.encode()).hexdigest(),
                                 "casts_erased": em.casts, "asserts": len(em.asserts)}
    ptys_out = [env[p][1] for p in env]
    return "\n".join(defs), rty, ptys_out


def _andb_chain(xs):
    r = "(%s)" % xs[0]
    for x in xs[1:]:
        r = "(andb %s (%s))" % (r, x)
    return r


def gen_scalar(repo, man):
    out = []
    out.append("(* GENERATED by tools/rs2v.py from /repo on every run - do not edit. *)")
    out.append("From Coq Require Import ZArith NArith QArith Bool List.\nFrom Similari Require Import Base.Num.\nFrom SimilariGen Require Import Consts.\nImport ListNotations.\n")
    
    # constants visible to translated code
    CONSTS.clear()
    TABLES.clear()
    CONSTS["EPS"] = ("(of_Q num EPS)", NUMT)
    CONSTS["CHI2_UPPER_BOUND"] = ("(of_Q num CHI2_UPPER_BOUND)", NUMT)
    out.append("Definition CHI2INV95_T (num : NumOps) : list (T num) := map (of_Q num) CHI2INV95.")
    TABLES["CHI2INV95"] = "(CHI2INV95_T num)"

    # structs
    STRUCTS.clear()
    STRUCTS["BoundingBox"] = struct_def(repo, "src/utils/bbox.rs", "BoundingBox")
    STRUCTS["Universal2DBox"] = struct_def(repo, "src/utils/bbox.rs", "Universal2DBox", skip=("_vertex_cache",))
    em0 = Emitter({})
    for sname, fields in STRUCTS.items():
        out.append("Record %s (num : NumOps) := Build_%s { %s }." % (sname, sname, "; ".join("%s_%s : %s" % (sname, f, em0.ty_str(t)) for f, t in fields)))
    man["structs"] = {k: [f for f, _ in v] for k, v in STRUCTS.items()}

    items = [
        # C20
        Item("validate_gap_cmp", "src/trackers/spatio_temporal_constraints.rs", None, "validate",
             snippet=r"fn validate\b.*?\.find\(\|\(d, _\)\|\s*(.*?)\);", params=[("d", "N"), ("epoch_delta", "N")], ret="bool"),
        Item("validate_dist_cmp", "src/trackers/spatio_temporal_constraints.rs", None, "validate",
             snippet=r"fn validate\b.*?Some\(\(_, max_dist\)\)\s*=>\s*(.*?),", params=[("dist", NUMT), ("max_dist", NUMT)], ret="bool"),
        Item("validate_dist_pre", "src/trackers/spatio_temporal_constraints.rs", None, "validate",
             snippet=r"fn validate\b.*?assert!\(\s*(.*?),", params=[("dist", NUMT)], ret="bool"),
        Item("add_constraints_pre", "src/trackers/spatio_temporal_constraints.rs", None, "add_constraints",
             snippet=r"fn add_constraints\b.*?assert!\(\s*(.*?),", params=[("max_distance", NUMT)], ret="bool"),
    ]
    items += EXTRA_ITEMS
    table = {}
    for it in items:
        text, rty, ptys = translate_item(repo, it, table, man)
        out.append(text)
        table[it.key] = (it.coq_name, rty, ptys)
    
    return "\n".join(out) + "\n"


EXTRA_ITEMS = []


def write_if_changed(path, text):
    old = open(path).read() if os.path.exists(path) else None
    if old != text:
        with open(path, "w") as fh:
            fh.write(text)
        return True
    return False


def main():
    ap = argparse.ArgumentParser()
    ap.add_argument("--repo", default="/repo")
    ap.add_argument("--out", default=os.path.join(os.path.dirname(os.path.dirname(os.path.abspath(__file__))), "coq", "gen"))
    a = ap.parse_args()
    os.makedirs(a.out, exist_ok=True)
    man = {"consts": {}, "items": {}, "errors": []}
    rc = 0
    try:
        consts = gen_consts(a.repo, man)
        write_if_changed(os.path.join(a.out, "Consts.v"), consts)
    except (Untranslatable, OSError) as e:
        man["errors"].append("Consts: %s" % e)
        print("rs2v: Consts: %s" % e)
        rc = 1
    try:
        import rs2v_items
        EXTRA_ITEMS[:] = rs2v_items.items(Item, NUMT)
    except ImportError:
        pass
    try:
        scalar = gen_scalar(a.repo, man)
        write_if_changed(os.path.join(a.out, "Scalar.v"), scalar)
    except (Untranslatable, OSError) as e:
        man["errors"].append("Scalar: %s" % e)
        print("rs2v: Scalar: %s" % e)
        rc = 1
    with open(os.path.join(a.out, "manifest.json"), "w") as fh:
        json.dump(man, fh, indent=1, sort_keys=True)
    sys.exit(rc)


if __name__ == "__main__":
    sys.path.insert(0, os.path.dirname(os.path.abspath(__file__)))
    main()
