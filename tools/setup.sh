#!/bin/sh
# MANIFEST.setup_cmd: build everything from files on disk, offline.
set -e
cd "$(dirname "$0")/.."
export CARGO_NET_OFFLINE=true
mkdir -p .cache evidence replay
python3 tools/rs2v.py --repo /repo --out coq/gen || true
python3 tools/pybind2v.py --repo /repo --out coq/gen 2>/dev/null || python3 tools/pybind2v.py || true
python3 - <<'PY'
import sys
sys.path.insert(0, "tools")
import vlib, glob, os
ok, out = vlib.coq_makefile()
print("coq_makefile", ok, out[-500:])
# every file of the development (Props cones, Legacy witnesses, helper files)
targets = []
for sub in ("theories", "gen"):
    for d, _, fs in os.walk(os.path.join(vlib.COQ, sub)):
        targets += [os.path.relpath(os.path.join(d, f), vlib.COQ)[:-2] + ".vo" for f in fs if f.endswith(".v")]
ok, out = vlib.coq_build(sorted(targets), timeout=6000, keep_going=True)
print("coq build", ok)
if not ok:
    print(out[-3000:])
ok, out = vlib.harness_build(None, timeout=3000)
print("harness build", ok)
if not ok:
    print(out[-3000:])
PY
