#!/bin/sh
# MANIFEST.setup_cmd: build everything from files on disk, offline.
set -e
cd "$(dirname "$0")/.."
export CARGO_NET_OFFLINE=true
mkdir -p .cache evidence replay
python3 tools/rs2v.py --repo /repo --out coq/gen || true
python3 - <<'PY'
import sys
sys.path.insert(0, "tools")
import vlib, glob, os
ok, out = vlib.coq_makefile()
print("coq_makefile", ok, out[-500:])
targets = [os.path.relpath(p, vlib.COQ)[:-2] + ".vo" for p in sorted(glob.glob(os.path.join(vlib.COQ, "theories", "Props", "*.v")))]
ok, out = vlib.coq_build(targets, timeout=6000, keep_going=True)
print("coq build", ok)
if not ok:
    print(out[-3000:])
ok, out = vlib.harness_build(None, timeout=3000)
print("harness build", ok)
if not ok:
    print(out[-3000:])
PY
