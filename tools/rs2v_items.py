"""Items translated by tools/rs2v.py beyond the C20 ones (see rs2v.Item for the meaning of the fields).

Naming: <what>_<fn>; `_sq` = squared form (square roots dropped), `_r` = the bounding radii (square roots) enter as
parameters rl, rr.  Generated files: ScalarBox (utils/bbox.rs), ScalarCost (Kalman cost functions), ScalarGate
(SortMetric::metric, EpochDb::baked), ScalarClip (utils/clipping.rs)."""


def items(Item, NUMT):
    BB = ("struct", "BoundingBox")
    UB = ("struct", "Universal2DBox")
    OPT = ("option", NUMT)
    bbox = "src/utils/bbox.rs"
    radii = [("l.get_radius()", "rl", NUMT), ("r.get_radius()", "rr", NUMT)]
    return [
        # ---- utils/bbox.rs ---------------------------------------------------------------------------
        Item("bbox_eq", bbox, r"impl\s+PartialEq(<\w+>)?\s+for\s+BoundingBox\b", "eq", key="BoundingBox::eq",
             self_struct="BoundingBox", ret="bool", out="ScalarBox"),
        Item("ubox_eq", bbox, r"impl\s+PartialEq(<\w+>)?\s+for\s+Universal2DBox\b", "eq", key="Universal2DBox::eq",
             self_struct="Universal2DBox", ret="bool", out="ScalarBox"),
        Item("bbox_to_ubox", bbox, r"impl\s+From<&BoundingBox>\s+for\s+Universal2DBox\b", "from", key="Universal2DBox::from",
             self_struct="Universal2DBox", ret=UB, out="ScalarBox"),
        Item("ubox_to_bbox", bbox, r"impl\s+TryFrom<&Universal2DBox>\s+for\s+BoundingBox\b", "try_from", key="BoundingBox::try_from",
             self_struct="BoundingBox", ret=("option", BB), out="ScalarBox"),
        Item("ubox_area", bbox, r"impl\s+Universal2DBox\b", "area", key="area", self_struct="Universal2DBox", ret=NUMT, out="ScalarBox"),
        Item("ubox_radius_sq", bbox, r"impl\s+Universal2DBox\b", "get_radius", key="get_radius_sq", self_struct="Universal2DBox",
             ret=NUMT, out="ScalarBox", squared=True),
        Item("normalize_angle", bbox, None, "normalize_angle", ret=NUMT, out="ScalarBox", subst=[("PI", "pi", NUMT)]),
        Item("ubox_vertices", bbox, r"impl\s+From<&Universal2DBox>\s+for\s+Polygon<f64>", "from", key="Polygon::from",
             ret=("list", ("struct", "Coord")), out="ScalarBox",
             subst=[("angle.cos()", "c", NUMT), ("angle.sin()", "s", NUMT)]),
        Item("bbox_intersection", bbox, r"impl\s+BoundingBox\b", "intersection", key="BoundingBox::intersection",
             self_struct="BoundingBox", ret=NUMT, out="ScalarBox"),
        Item("ubox_too_far_r", bbox, r"impl\s+Universal2DBox\b", "too_far", key="too_far_r", self_struct="Universal2DBox",
             ret="bool", out="ScalarBox", subst=radii),
        Item("ubox_dist_in_2r_sq_r", bbox, r"impl\s+Universal2DBox\b", "dist_in_2r", key="dist_in_2r_sq_r", self_struct="Universal2DBox",
             ret=NUMT, out="ScalarBox", subst=radii, squared=True),
        # ---- Kalman cost functions -------------------------------------------------------------------
        Item("box_calculate_cost", "src/utils/kalman/kalman_2d_box.rs", r"impl\s+Universal2DBoxKalmanFilter\b", "calculate_cost",
             key="Universal2DBoxKalmanFilter::calculate_cost", ret=NUMT, out="ScalarCost"),
        Item("point_calculate_cost", "src/utils/kalman/kalman_2d_point.rs", r"impl\s+Point2DKalmanFilter\b", "calculate_cost",
             key="Point2DKalmanFilter::calculate_cost", ret=NUMT, out="ScalarCost"),
        # ---- SortMetric::metric: confidence clamp, pre-filter, Mahalanobis cost, IoU gate --------------
        # parameters (in this order): min_confidence, method, candidate box, track box, far = too_far(candidate, track),
        # dist = the filter's Mahalanobis distance, iou = calculate_metric_object(candidate, track)
        Item("sort_metric", "src/trackers/sort/metric.rs", r"impl\s+ObservationMetric<SortAttributes,\s*Universal2DBox>\s+for\s+SortMetric\b",
             "metric", key="SortMetric::metric", ret=("option", ("tuple", [OPT, OPT])), out="ScalarGate",
             subst=[("self.min_confidence", "min_confidence", NUMT),
                    ("self.method", "method", ("enum", "PositionalMetricType")),
                    ("mq.candidate_observation.attr().as_ref().unwrap()", "candidate", UB),
                    ("mq.track_observation.attr().as_ref().unwrap()", "track", UB),
                    ("Universal2DBox::too_far(candidate_bbox, track_bbox)", "far", "bool"),
                    ("f.distance(state, candidate_bbox)", "dist", NUMT),
                    ("Universal2DBox::calculate_metric_object(&Some(candidate_bbox), &Some(track_bbox))", "iou", OPT)],
             opaque_lets=("state", "f")),
        # ---- EpochDb::baked: the expiry comparison ------------------------------------------------------
        Item("baked_wasted_cmp", "src/trackers/epoch_db.rs", None, "baked",
             snippet=r"fn baked\b[^{]*\{[^{]*\{[^{]*?\bif\s+([^{}]*?)\s*\{\s*Ok\(TrackStatus::Wasted\)",
             params=[("last_updated", "N")], ret="bool", out="ScalarGate",
             subst=[("self.max_idle_epochs()", "max_idle", "N"), ("current_epoch.get(&scene_id)", "cur", ("option", "N"))]),
        # ---- utils/clipping.rs -----------------------------------------------------------------------------
        Item("clip_is_inside", "src/utils/clipping.rs", None, "is_inside", ret="bool", out="ScalarClip"),
        Item("clip_compute_intersection", "src/utils/clipping.rs", None, "compute_intersection", ret=("struct", "Coord"), out="ScalarClip"),
    ]
