"""Items translated by tools/rs2v.py beyond the C20 ones (see rs2v.Item for the meaning of the fields).

Naming: <what>_<fn>; `_sq` = squared form (square roots dropped), `_r` = the bounding radii (square roots) enter as
parameters rl, rr.  Generated files: ScalarBox (utils/bbox.rs), ScalarCost (Kalman cost functions), ScalarGate
(SortMetric::metric, EpochDb::baked), ScalarClip (utils/clipping.rs)."""


def items(Item, NUMT):
    BB = ("struct", "BoundingBox")
    UB = ("struct", "Universal2DBox")
    OPT = ("option", NUMT)
    bbox = "src/utils/bbox.rs"
    radii = [("l.get_radius()", "rl", NUMT), ("r.get_radius()", "rr", NUMT)]
    return [
        # ---- utils/bbox.rs ---------------------------------------------------------------------------
        Item("bbox_eq", bbox, r"impl\s+PartialEq(<\w+>)?\s+for\s+BoundingBox\b", "eq", key="BoundingBox::eq",
             self_struct="BoundingBox", ret="bool", out="ScalarBox"),
        Item("ubox_eq", bbox, r"impl\s+PartialEq(<\w+>)?\s+for\s+Universal2DBox\b", "eq", key="Universal2DBox::eq",
             self_struct="Universal2DBox", ret="bool", out="ScalarBox"),
        Item("bbox_to_ubox", bbox, r"impl\s+From<&BoundingBox>\s+for\s+Universal2DBox\b", "from", key="Universal2DBox::from",
             self_struct="Universal2DBox", ret=UB, out="ScalarBox"),
        Item("ubox_to_bbox", bbox, r"impl\s+TryFrom<&Universal2DBox>\s+for\s+BoundingBox\b", "try_from", key="BoundingBox::try_from",
             self_struct="BoundingBox", ret=("option", BB), out="ScalarBox"),
        Item("ubox_area", bbox, r"impl\s+Universal2DBox\b", "area", key="area", self_struct="Universal2DBox", ret=NUMT, out="ScalarBox"),
        Item("ubox_radius_sq", bbox, r"impl\s+Universal2DBox\b", "get_radius", key="get_radius_sq", self_struct="Universal2DBox",
             ret=NUMT, out="ScalarBox", squared=True),
        Item("normalize_angle", bbox, None, "normalize_angle", ret=NUMT, out="ScalarBox", subst=[("PI", "pi", NUMT)]),
        Item("ubox_vertices", bbox, r"impl\s+From<&Universal2DBox>\s+for\s+Polygon<f64>", "from", key="Polygon::from",
             ret=("list", ("struct", "Coord")), out="ScalarBox",
             subst=[("angle.cos()", "c", NUMT), ("angle.sin()", "s", NUMT)]),
        Item("bbox_intersection", bbox, r"impl\s+BoundingBox\b", "intersection", key="BoundingBox::intersection",
             self_struct="BoundingBox", ret=NUMT, out="ScalarBox"),
        Item("ubox_too_far_r", bbox, r"impl\s+Universal2DBox\b", "too_far", key="too_far_r", self_struct="Universal2DBox",
             ret="bool", out="ScalarBox", subst=radii),
        Item("ubox_dist_in_2r_sq_r", bbox, r"impl\s+Universal2DBox\b", "dist_in_2r", key="dist_in_2r_sq_r", self_struct="Universal2DBox",
             ret=NUMT, out="ScalarBox", subst=radii, squared=True),
        # ---- Kalman cost functions -------------------------------------------------------------------
        Item("box_calculate_cost", "src/utils/kalman/kalman_2d_box.rs", r"impl\s+Universal2DBoxKalmanFilter\b", "calculate_cost",
             key="Universal2DBoxKalmanFilter::calculate_cost", ret=NUMT, out="ScalarCost"),
        Item("point_calculate_cost", "src/utils/kalman/kalman_2d_point.rs", r"impl\s+Point2DKalmanFilter\b", "calculate_cost",
             key="Point2DKalmanFilter::calculate_cost", ret=NUMT, out="ScalarCost"),
        # ---- SortMetric::metric: confidence clamp, pre-filter, Mahalanobis cost, IoU gate --------------
        # parameters (in this order): min_confidence, method, candidate box, track box, far = too_far(candidate, track),
        # dist = the filter's Mahalanobis distance, iou = calculate_metric_object(candidate, track)
        Item("sort_metric", "src/trackers/sort/metric.rs", r"impl\s+ObservationMetric<SortAttributes,\s*Universal2DBox>\s+for\s+SortMetric\b",
             "metric", key="SortMetric::metric", ret=("option", ("tuple", [OPT, OPT])), out="ScalarGate",
             subst=[("self.min_confidence", "min_confidence", NUMT),
                    ("self.method", "method", ("enum", "PositionalMetricType")),
                    ("mq.candidate_observation.attr().as_ref().unwrap()", "candidate", UB),
                    ("mq.track_observation.attr().as_ref().unwrap()", "track", UB),
                    ("Universal2DBox::too_far(candidate_bbox, track_bbox)", "far", "bool"),
                    ("f.distance(state, candidate_bbox)", "dist", NUMT),
                    ("Universal2DBox::calculate_metric_object(&Some(candidate_bbox), &Some(track_bbox))", "iou", OPT)],
             opaque_lets=("state", "f")),
        # ---- EpochDb::baked: the expiry comparison ------------------------------------------------------
        Item("baked_wasted_cmp", "src/trackers/epoch_db.rs", None, "baked",
             snippet=r"fn baked\b[^{]*\{[^{]*\{[^{]*?\bif\s+([^{}]*?)\s*\{\s*Ok\(TrackStatus::Wasted\)",
             params=[("last_updated", "N")], ret="bool", out="ScalarGate",
             subst=[("self.max_idle_epochs()", "max_idle", "N"), ("current_epoch.get(&scene_id)", "cur", ("option", "N"))]),
        # ---- utils/clipping.rs -----------------------------------------------------------------------------
        Item("clip_is_inside", "src/utils/clipping.rs", None, "is_inside", ret="bool", out="ScalarClip"),
        Item("clip_compute_intersection", "src/utils/clipping.rs", None, "compute_intersection", ret=("struct", "Coord"), out="ScalarClip"),
    ] + visual_items(Item, NUMT) + nms_items(Item, NUMT) + own_area_items(Item, NUMT) + tracker_items(Item, NUMT) + kalman_box_items(Item, NUMT)


def visual_items(Item, NUMT):
    """trackers/visual_sort/metric.rs -> gen/ScalarVisual.v"""
    UB = ("struct", "Universal2DBox")
    OPT = ("option", NUMT)
    VK = ("enum", "VisualSortMetricType")
    f = "src/trackers/visual_sort/metric.rs"
    return [
        Item("visual_is_ok", f, r"impl\s+VisualSortMetricType\b", "is_ok", key="is_ok", self_enum="VisualSortMetricType", ret="bool", out="ScalarVisual"),
        Item("visual_distance_to_weight", f, r"impl\s+VisualSortMetricType\b", "distance_to_weight", key="distance_to_weight",
             self_enum="VisualSortMetricType", ret=NUMT, out="ScalarVisual"),
        # parameters: bbox_opt feature_quality visual_minimal_quality visual_own_area_percentage visual_minimal_area_percentage visual_minimal_area
        Item("visual_feature_can_be_used", f, r"impl\s+VisualMetric\b", "feature_can_be_used", key="feature_can_be_used", ret="bool", out="ScalarVisual",
             subst=[("self.opts.visual_minimal_area", "visual_minimal_area", NUMT)]),
        # parameters: collected min_len kind d_euclidean d_cosine
        Item("visual_metric", f, r"impl\s+VisualMetric\b", "visual_metric", key="visual_metric", ret=OPT, out="ScalarVisual",
             subst=[("track_attributes.visual_features_collected_count", "collected", "N"),
                    ("self.opts.visual_minimal_track_length", "min_len", "N"),
                    ("self.opts.visual_kind", "kind", VK),
                    ("euclidean(candidate_observation_feature, track_observation_feature)", "d_euclidean", NUMT),
                    ("cosine(candidate_observation_feature, track_observation_feature)", "d_cosine", NUMT)]),
        # parameters: candidate_opt track_opt min_confidence method far dist iou
        Item("visual_positional_metric", f, r"impl\s+VisualMetric\b", "positional_metric", key="positional_metric", ret=OPT, out="ScalarVisual",
             subst=[("self.opts.positional_min_confidence", "min_confidence", NUMT),
                    ("self.opts.positional_kind", "method", ("enum", "PositionalMetricType")),
                    ("Universal2DBox::too_far(candidate_observation_bbox, track_observation_bbox)", "far", "bool"),
                    ("f.distance(state, candidate_observation_bbox)", "dist", NUMT),
                    ("Universal2DBox::calculate_metric_object(&candidate_observation_bbox_opt.as_ref(), &track_observation_bbox_opt.as_ref())", "iou", OPT)],
             opaque_lets=("state", "f")),
        # optimize_observations: when the gallery is full the worst observation is dropped
        Item("visual_truncate_cmp", f, r"impl\s+VisualMetric\b", "optimize_observations",
             snippet=r"fn optimize_observations\b.*?\bif\s+(observations\.len\(\)[^{}]*?)\s*\{\s*observations\.truncate",
             params=[], ret="bool", out="ScalarVisual",
             subst=[("observations.len()", "len", "N"), ("self.opts.visual_max_observations", "max_obs", "N")]),
        Item("visual_truncate_len", f, r"impl\s+VisualMetric\b", "optimize_observations",
             snippet=r"fn optimize_observations\b.*?observations\.truncate\((.*?)\);",
             params=[], ret="N", out="ScalarVisual", subst=[("observations.len()", "len", "N")]),
    ]


def nms_items(Item, NUMT):
    """utils/nms.rs -> gen/ScalarNms.v"""
    UB = ("struct", "Universal2DBox")
    OPT = ("option", NUMT)
    f = "src/utils/nms.rs"
    return [
        # the coverage metric of the lower-ranked box ob by the higher-ranked box cb: intersection(cb, ob) / area(ob)
        Item("nms_metric", f, None, "nms", snippet=r"pub fn nms\b.*?let metric\s*=\s*(.*?);", params=[], ret=NUMT, out="ScalarNms",
             subst=[("ob.bbox", "ob_bbox", UB), ("Universal2DBox::intersection(cb.bbox, ob.bbox)", "inter", NUMT)]),
        Item("nms_covers_cmp", f, None, "nms", snippet=r"pub fn nms\b.*?\bif\s+(metric[^{}]*?)\s*\{\s*excluded\.insert",
             params=[("metric", NUMT), ("nms_threshold", NUMT)], ret="bool", out="ScalarNms"),
        Item("nms_score_filter", f, None, "nms", snippet=r"pub fn nms\b.*?\.filter\(\|\(e, score\)\|\s*\{\s*(.*?)\s*\}\)",
             params=[("e", UB), ("score", OPT), ("score_threshold", NUMT)], ret="bool", out="ScalarNms"),
        Item("nms_score_threshold_default", f, None, "nms", snippet=r"pub fn nms\b.*?let score_threshold\s*=\s*(.*?);",
             params=[("score_threshold", OPT)], ret=NUMT, out="ScalarNms"),
        Item("nms_rank", f, r"impl<'a>\s+Candidate<'a>", "new", snippet=r"\brank:\s*(rank\.unwrap_or\(.*?\)),",
             params=[("bbox", UB), ("rank", OPT)], ret=NUMT, out="ScalarNms"),
    ]


def own_area_items(Item, NUMT):
    """utils/clipping/bbox_own_areas.rs -> gen/ScalarOwnArea.v"""
    UB = ("struct", "Universal2DBox")
    f = "src/utils/clipping/bbox_own_areas.rs"
    return [
        Item("own_share_raw", f, None, "exclusively_owned_areas_normalized_shares",
             snippet=r"fn exclusively_owned_areas_normalized_shares\b.*?\.map\(\|\(b, poly\)\|\s*(.*?)\)\s*\.map\(\|e\|",
             params=[("b", UB)], ret=NUMT, out="ScalarOwnArea", subst=[("poly.unsigned_area()", "poly_area", NUMT)]),
        Item("own_share_clamp", f, None, "exclusively_owned_areas_normalized_shares",
             snippet=r"fn exclusively_owned_areas_normalized_shares\b.*?\.map\(\|e\|\s*(if .*?\})\s*\)\s*\.collect",
             params=[("e", NUMT)], ret=NUMT, out="ScalarOwnArea"),
    ]


def tracker_items(Item, NUMT):
    """the auto-waste prologue of the four predict functions -> gen/ScalarTracker.v
    (counter, periodicity) -> (collect?, counter')"""
    pro = r"(if self\.auto_waste\.counter[^{}]*\{[^{}]*\}\s*else\s*\{[^{}]*\})"
    res = []
    for name, f, fn in (("auto_waste_prologue_sort", "src/trackers/sort/simple_api.rs", "predict_with_scene"),
                        ("auto_waste_prologue_batch_sort", "src/trackers/sort/batch_api.rs", "predict"),
                        ("auto_waste_prologue_visual", "src/trackers/visual_sort/simple_api.rs", "predict_with_scene"),
                        ("auto_waste_prologue_batch_visual", "src/trackers/visual_sort/batch_api.rs", "predict")):
        res.append(Item(name, f, None, fn, snippet=r"pub fn %s\b\s*\([^{]*\{\s*" % fn + pro, params=[], out="ScalarTracker",
                        ret=("tuple", ["bool", "N"]),
                        state=[("self.auto_waste.counter", "counter", "N")], events=["self.auto_waste()"],
                        subst=[("self.auto_waste.periodicity", "periodicity", "N")]))
    return res



def kalman_box_items(Item, NUMT):
    """box <-> Kalman state mean (utils/kalman.rs, utils/kalman/kalman_2d_box.rs, Universal2DBox::new) -> gen/ScalarKalmanBox.v"""
    UB = ("struct", "Universal2DBox")
    return [
        Item("ubox_new", "src/utils/bbox.rs", r"impl\s+Universal2DBox\b", "new", key="Universal2DBox::new", self_struct="Universal2DBox",
             ret=UB, out="ScalarKalmanBox"),
        # the state mean as a list (value.mean); result None = Err(OutOfRange)
        Item("kalman_state_to_ubox", "src/utils/kalman.rs", r"impl<const X: usize>\s+TryFrom<KalmanState<X>>\s+for\s+Universal2DBox\b", "try_from",
             key="Universal2DBox::try_from_state", self_struct="Universal2DBox", ret=("option", UB), out="ScalarKalmanBox",
             subst=[("value.mean", "mean", ("list", NUMT))]),
        # the mean of the state that `initiate` builds for a box
        Item("kalman_initiate_mean", "src/utils/kalman/kalman_2d_box.rs", r"impl\s+Universal2DBoxKalmanFilter\b", "initiate",
             snippet=r"fn initiate\b.*?let mean[^=]*=\s*SVector::from_iterator\((\[.*?\])\);",
             params=[("bbox", UB)], ret=("list", NUMT), out="ScalarKalmanBox"),
    ]
