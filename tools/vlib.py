"""Common machinery for the /verif checks (see DESIGN.md section 1).

Every check does: regenerate coq/gen from /repo -> build the property's proof cone ->
audit (forbidden words, Print Assumptions allow-list) -> build harness against /repo ->
correspondence (model evaluated by coqc vm_compute vs implementation) -> search on break ->
evidence.  Nothing here is specific to one property.
"""
import fcntl
import hashlib
import json
import os
import re
import struct
import subprocess
import sys
import time
from fractions import Fraction

ROOT = os.path.dirname(os.path.dirname(os.path.abspath(__file__)))
COQ = os.path.join(ROOT, "coq")
HARNESS = os.path.join(ROOT, "harness")
CACHE = os.path.join(ROOT, ".cache")
REPO = os.environ.get("VERIF_REPO", "/repo")
NPROC = 16

TARGET_DIR = os.path.join(CACHE, "target")
if os.path.realpath(REPO) != "/repo":
    # Alternative workspace: checks run against a scratch copy of the repository (used while validating
    # seeded changes) get their own copy of coq/ (gen differs) and of the harness crate (path dependency
    # differs) so that they never disturb runs against /repo itself.
    _alt = os.path.join(CACHE, "alt", hashlib.sha256(os.path.realpath(REPO).encode()).hexdigest()[:12])
    os.makedirs(_alt, exist_ok=True)
    subprocess.run(["rsync", "-a", "--delete", "--exclude", "Makefile*", "--exclude", ".Makefile.d", "--exclude", "_CoqProject",
                    COQ + "/", os.path.join(_alt, "coq") + "/"], check=True)
    subprocess.run(["rsync", "-a", "--delete", "--exclude", "target", HARNESS + "/", os.path.join(_alt, "harness") + "/"], check=True)
    _ct = os.path.join(_alt, "harness", "Cargo.toml")
    _txt = open(_ct).read().replace('path = "/repo"', 'path = "%s"' % os.path.realpath(REPO))
    open(_ct, "w").write(_txt)
    _cc = os.path.join(_alt, "harness", ".cargo", "config.toml")
    _cfg = open(_cc).read().replace(TARGET_DIR, os.path.join(_alt, "target"))
    open(_cc, "w").write(_cfg)
    COQ = os.path.join(_alt, "coq")
    HARNESS = os.path.join(_alt, "harness")
    TARGET_DIR = os.path.join(_alt, "target")
    ALT = _alt
else:
    ALT = None

ENV = dict(os.environ)
ENV.update({"CARGO_NET_OFFLINE": "true", "CARGO_TARGET_DIR": TARGET_DIR})

# Axioms of the Coq standard library that theorems over Reals / Flocq may depend on (DESIGN.md section 5).
AXIOM_ALLOW = {
    "ClassicalDedekindReals.sig_not_dec",
    "ClassicalDedekindReals.sig_forall_dec",
    "FunctionalExtensionality.functional_extensionality_dep",
    "functional_extensionality_dep",
    "Classical_Prop.classic",
    "classic",
    "sig_not_dec",
    "sig_forall_dec",
}

FORBIDDEN = re.compile(
    r"\b(Admitted|admit|Axiom|Axioms|Parameter|Parameters|Conjecture|Conjectures|Admit Obligations|"
    r"bypass_check|type-in-type|impredicative-set)\b|Unset\s+Guard|Unset\s+Positivity|Unset\s+Universe|"
    r"Local\s+Unset\s+Guard"
)


def sh(cmd, timeout=1200, cwd=None, env=None, input=None):
    """Run a shell command; returns (rc, stdout+stderr). rc=124 on timeout."""
    try:
        p = subprocess.run(cmd, shell=isinstance(cmd, str), cwd=cwd, env=env or ENV, input=input,
                           stdout=subprocess.PIPE, stderr=subprocess.STDOUT, timeout=timeout, text=True)
        return p.returncode, p.stdout
    except subprocess.TimeoutExpired as e:
        out = e.stdout or ""
        if isinstance(out, bytes):
            out = out.decode("utf-8", "replace")
        return 124, out + "\n[timeout after %ss]" % timeout


def sh2(cmd, timeout=1200, cwd=None, env=None):
    """Like sh but keeps stdout and stderr apart: returns (rc, stdout, stderr)."""
    try:
        p = subprocess.run(cmd, shell=isinstance(cmd, str), cwd=cwd, env=env or ENV,
                           stdout=subprocess.PIPE, stderr=subprocess.PIPE, timeout=timeout, text=True)
        return p.returncode, p.stdout, p.stderr
    except subprocess.TimeoutExpired as e:
        return 124, (e.stdout or b"").decode("utf-8", "replace") if isinstance(e.stdout, bytes) else (e.stdout or ""), "[timeout]"


class Lock:
    def __init__(self, name):
        os.makedirs(CACHE, exist_ok=True)
        self.path = os.path.join(ALT or CACHE, name + ".lock")

    def __enter__(self):
        self.f = open(self.path, "w")
        fcntl.flock(self.f, fcntl.LOCK_EX)
        return self

    def __exit__(self, *a):
        fcntl.flock(self.f, fcntl.LOCK_UN)
        self.f.close()


# --------------------------------------------------------------------------------------
# exact numbers

def f32_bits_to_fraction(bits):
    return Fraction(struct.unpack("<f", struct.pack("<I", bits & 0xFFFFFFFF))[0])


def f64_bits_to_fraction(bits):
    return Fraction(struct.unpack("<d", struct.pack("<Q", bits & 0xFFFFFFFFFFFFFFFF))[0])


def f32_bits_to_float(bits):
    return struct.unpack("<f", struct.pack("<I", bits & 0xFFFFFFFF))[0]


def f64_bits_to_float(bits):
    return struct.unpack("<d", struct.pack("<Q", bits & 0xFFFFFFFFFFFFFFFF))[0]


def q_lit(fr):
    """Coq Q literal for a Fraction."""
    fr = Fraction(fr)
    return "(%s # %d)" % (("(%d)" % fr.numerator) if fr.numerator < 0 else str(fr.numerator), fr.denominator)


def z_lit(n):
    return "(%d)%%Z" % n


def n_lit(n):
    assert n >= 0
    return "%d%%N" % n


def coq_list(items):
    return "[" + "; ".join(items) + "]"


def coq_bool(b):
    return "true" if b else "false"


def coq_option(x):
    return "None" if x is None else "(Some %s)" % x


# --------------------------------------------------------------------------------------
# Coq build / audit / evaluation

def regenerate():
    """Run the translator: /repo sources -> coq/gen/*.v.  Returns (ok, log)."""
    rc, out = sh([sys.executable, os.path.join(ROOT, "tools", "rs2v.py"), "--repo", REPO,
                  "--out", os.path.join(COQ, "gen")], timeout=120)
    return rc == 0, out


def coq_makefile():
    mk = os.path.join(COQ, "Makefile")
    files = []
    for sub in ("theories", "gen"):
        for d, _, fs in os.walk(os.path.join(COQ, sub)):
            for f in sorted(fs):
                if f.endswith(".v"):
                    files.append(os.path.relpath(os.path.join(d, f), COQ))
    files.sort()
    proj = "-Q theories Similari\n-Q gen SimilariGen\n-arg -w -arg -notation-overridden,-deprecated-hint-without-locality,-deprecated-instance-without-locality,-ambiguous-paths,-deprecated-hint-rewrite-without-locality\n" + "\n".join(files) + "\n"
    pp = os.path.join(COQ, "_CoqProject")
    old = open(pp).read() if os.path.exists(pp) else None
    if old != proj or not os.path.exists(mk):
        open(pp, "w").write(proj)
        rc, out = sh("coq_makefile -f _CoqProject -o Makefile", cwd=COQ, timeout=120)
        if rc != 0:
            return False, out
    return True, ""


def coq_build(targets, timeout=3000, keep_going=False):
    """Build the given .vo targets (paths relative to coq/, e.g. theories/Props/C20.vo)."""
    # The lock only protects the regeneration of _CoqProject / Makefile / dependency file; the compilation
    # itself runs unlocked so that one slow proof does not stall every other check (concurrent makes only
    # collide if they have to rebuild the same file at the same moment, which make reports as an error
    # and the next run repairs).
    with Lock("coq"):
        ok, out = coq_makefile()
        if not ok:
            return False, out
        sh(["make", ".Makefile.d"], cwd=COQ, timeout=300)
    rc, out = sh(["make", "-j%d" % NPROC] + (["-k"] if keep_going else []) + list(targets), cwd=COQ, timeout=timeout)
    return rc == 0, out


def scan_forbidden(paths):
    """Grep for forbidden declarations; comments are stripped first. Returns list of (file, line, text)."""
    hits = []
    for p in paths:
        try:
            src = open(p).read()
        except OSError:
            continue
        src_nc = strip_coq_comments(src)
        for i, line in enumerate(src_nc.split("\n"), 1):
            if FORBIDDEN.search(line):
                hits.append((os.path.relpath(p, ROOT), i, line.strip()))
            # a Variable/Hypothesis outside a section declares an axiom: checked by sections nesting
        hits.extend(_toplevel_variables(p, src_nc))
    return hits


def strip_coq_comments(src):
    out = []
    depth = 0
    i = 0
    n = len(src)
    in_str = False
    while i < n:
        c = src[i]
        if depth == 0 and c == '"':
            in_str = not in_str
            out.append(c)
            i += 1
            continue
        if not in_str and src.startswith("(*", i):
            depth += 1
            i += 2
            continue
        if not in_str and depth > 0 and src.startswith("*)", i):
            depth -= 1
            i += 2
            continue
        if depth == 0:
            out.append(c)
        elif c == "\n":
            out.append(c)
        i += 1
    return "".join(out)


def _toplevel_variables(path, src_nc):
    hits = []
    depth = 0
    for i, line in enumerate(src_nc.split("\n"), 1):
        s = line.strip()
        if re.match(r"^(Section|Module\s+Type)\s+\w+", s):
            depth += 1
        elif re.match(r"^End\s+\w+\s*\.", s):
            depth = max(0, depth - 1)
        elif re.match(r"^(Variable|Variables|Hypothesis|Hypotheses|Context)\b", s) and depth == 0:
            hits.append((os.path.relpath(path, ROOT), i, "top-level " + s))
    return hits


def cone_files(vfile):
    """All .v files (under coq/) that vfile transitively depends on, via coqdep."""
    rc, out = sh("coqdep -Q theories Similari -Q gen SimilariGen -sort %s" % vfile, cwd=COQ, timeout=120)
    files = []
    for tok in out.split():
        if tok.endswith(".v"):
            files.append(os.path.normpath(os.path.join(COQ, tok)))
    if os.path.join(COQ, vfile) not in files:
        files.append(os.path.join(COQ, vfile))
    return [f for f in files if f.startswith(COQ)]


def theorem_names(props_file):
    src = strip_coq_comments(open(props_file).read())
    return re.findall(r"^\s*(?:Theorem|Corollary)\s+([A-Za-z_][\w']*)", src, re.M)


def theorem_statements(props_file):
    src = strip_coq_comments(open(props_file).read())
    res = []
    for m in re.finditer(r"^\s*(?:Theorem|Corollary)\s+([A-Za-z_][\w']*)(.*?)\.\s*\n\s*Proof", src, re.M | re.S):
        res.append((m.group(1), " ".join(m.group(2).split())))
    return res


def print_assumptions(module, names, timeout=600):
    """Returns dict name -> list of axioms ([] = closed under the global context), or None on failure."""
    os.makedirs(os.path.join(ALT or CACHE, "audit"), exist_ok=True)
    f = os.path.join(ALT or CACHE, "audit", "Audit_%s_%d.v" % (module.replace(".", "_"), os.getpid()))
    with open(f, "w") as fh:
        fh.write("Require Import %s.\n" % module)
        for n in names:
            fh.write('Redirect "%s.%s" Print Assumptions %s.\n' % (f[:-2], n, n))
    rc, out = sh("coqc -noglob -Q theories Similari -Q gen SimilariGen %s" % f, cwd=COQ, timeout=timeout)
    if rc != 0:
        return None, out
    res = {}
    for n in names:
        p = "%s.%s.out" % (f[:-2], n)
        txt = open(p).read() if os.path.exists(p) else ""
        try:
            os.remove(p)
        except OSError:
            pass
        if "Closed under the global context" in txt:
            res[n] = []
        else:
            axs = [a for a in re.findall(r"^([A-Za-z_][\w'.]*)\s*:", txt, re.M) if a != "Axioms"]
            res[n] = axs if axs else ["<unparsed>"]
    return res, out


def coq_eval(preamble, exprs, shard_size=250, timeout=900, tag="cases"):
    """Evaluate Coq expressions (each a term whose normal form prints on one logical line) with vm_compute.

    preamble: Coq text (Require Imports, Open Scope, helper Definitions).
    exprs:    list of Coq terms.
    Returns list of result strings (whitespace-normalised, type annotation stripped), or raises RuntimeError.
    Implementation: shards into files, each `Eval vm_compute in (<marker>, term)`, runs up to NPROC coqc.
    """
    d = os.path.join(ALT or CACHE, "eval", "%s_%d" % (tag, os.getpid()))
    os.makedirs(d, exist_ok=True)
    shards = [exprs[i:i + shard_size] for i in range(0, len(exprs), shard_size)]
    procs = []
    results = [None] * len(exprs)
    files = []
    for si, sh_exprs in enumerate(shards):
        f = os.path.join(d, "Cases%d.v" % si)
        with open(f, "w") as fh:
            fh.write(preamble + "\n")
            for k, e in enumerate(sh_exprs):
                fh.write("Eval vm_compute in (%d%%Z, (%s)).\n" % (si * shard_size + k, e))
        files.append(f)
    # run in waves of NPROC
    outs = [None] * len(files)
    idx = 0
    running = []
    t0 = time.time()
    while idx < len(files) or running:
        while idx < len(files) and len(running) < NPROC:
            ofh = open(files[idx] + ".out", "w")
            p = subprocess.Popen(["coqc", "-noglob", "-Q", "theories", "Similari", "-Q", "gen", "SimilariGen", files[idx]],
                                 cwd=COQ, stdout=ofh, stderr=subprocess.STDOUT, text=True, env=ENV)
            ofh.close()
            running.append((idx, p))
            idx += 1
        still = []
        for (i, p) in running:
            if p.poll() is None:
                still.append((i, p))
            else:
                outs[i] = (p.returncode, open(files[i] + ".out").read())
        running = still
        if running:
            time.sleep(0.05)
        if time.time() - t0 > timeout:
            for _, p in running:
                p.kill()
            raise RuntimeError("coq_eval timeout")
    for i, (rc, out) in enumerate(outs):
        if rc != 0:
            raise RuntimeError("coqc failed on %s:\n%s" % (files[i], out[-3000:]))
        # parse "     = (k%Z, value)\n     : type"
        for m in re.finditer(r"^\s*= \((\d+)%Z,\s*(.*?)\)\s*\n\s*: ", out, re.M | re.S):
            k = int(m.group(1))
            results[k] = " ".join(m.group(2).split())
    # cleanup
    for f in files:
        for ext in (".v", ".vo", ".vok", ".vos", ".glob", ".v.out"):
            try:
                os.remove(f[:-2] + ext)
            except OSError:
                pass
        try:
            os.remove(os.path.join(os.path.dirname(f), "." + os.path.basename(f)[:-2] + ".aux"))
        except OSError:
            pass
    try:
        os.rmdir(d)
    except OSError:
        pass
    missing = [i for i, r in enumerate(results) if r is None]
    if missing:
        raise RuntimeError("coq_eval: no result for cases %s" % missing[:5])
    return results


# -- parsing of Coq-printed values -------------------------------------------------------

def parse_coq_value(s):
    """Parse the printed normal form of values built from bool, N/Z/nat numerals, Q (n # d), option, list,
    pairs and constructor applications into Python: bools, ints, Fractions, None/('Some',x), lists, tuples,
    ('Ctor', args...)."""
    toks = re.findall(r"\(|\)|\[|\]|;|,|#|-?\d+(?:%[A-Za-z]+)?|[A-Za-z_][\w'.]*|\"[^\"]*\"", s)
    pos = [0]

    def peek():
        return toks[pos[0]] if pos[0] < len(toks) else None

    def nxt():
        t = toks[pos[0]]
        pos[0] += 1
        return t

    def atom():
        t = nxt()
        if t == "(":
            v = expr()
            if peek() == "#":
                nxt()
                d = atom()
                v = Fraction(v, d)
            items = [v]
            while peek() == ",":
                nxt()
                items.append(expr())
            assert nxt() == ")", "expected ) in %r" % s
            if len(items) == 1:
                if peek() and re.match(r"^%[A-Za-z]+$", peek() or ""):
                    nxt()
                return items[0]
            return tuple(items)
        if t == "[":
            items = []
            if peek() == "]":
                nxt()
                return items
            items.append(expr())
            while peek() == ";":
                nxt()
                items.append(expr())
            assert nxt() == "]"
            return items
        if re.match(r"^-?\d+", t):
            return int(t.split("%")[0])
        if t == "true":
            return True
        if t == "false":
            return False
        if t == "None":
            return None
        if t.startswith('"'):
            return t[1:-1]
        return ("@", t)

    def expr():
        a = atom()
        if isinstance(a, tuple) and len(a) == 2 and a[0] == "@":
            name = a[1]
            args = []
            while peek() not in (None, ")", "]", ";", ",", "#"):
                args.append(atom())
            if name == "Some" and len(args) == 1:
                return ("Some", args[0])
            return tuple([name] + args)
        if peek() == "#":
            nxt()
            d = atom()
            return Fraction(a, d)
        return a

    v = expr()
    assert pos[0] == len(toks), "trailing tokens in %r at %d" % (s, pos[0])
    return v


# --------------------------------------------------------------------------------------
# harness

def harness_build(bins=None, timeout=1800):
    with Lock("cargo"):
        lock_src = os.path.join(REPO, "Cargo.lock")
        # keep our lock file in sync with /repo's (dependencies are resolved offline from it)
        cmd = ["cargo", "build", "--offline", "--release"]
        for b in (bins or []):
            cmd += ["--bin", b]
        rc, out = sh(cmd, cwd=HARNESS, timeout=timeout)
        return rc == 0, out


def harness_bin(name):
    return os.path.join(TARGET_DIR, "release", name)


def harness_run(name, args, timeout=1200, input=None):
    rc, out, err = sh2([harness_bin(name)] + [str(a) for a in args], timeout=timeout)
    return rc, out, err


# --------------------------------------------------------------------------------------
# reporting

class Check:
    def __init__(self, pid, tier, seed):
        self.pid = pid
        self.tier = tier
        self.seed = seed
        self.t0 = time.time()
        self.violations = []      # (key, what, replay_path)
        self.known_hits = []
        self.coverage = {}
        self.assumptions = []
        self.broken = []          # names of proofs / correspondences that no longer check
        self.out_root = ALT or ROOT     # evidence/replay of alternative-workspace runs never overwrite the real ones
        kf = os.path.join(ROOT, "known_findings.json")
        self.known = json.load(open(kf)) if os.path.exists(kf) else []
        os.makedirs(os.path.join(self.out_root, "replay", pid), exist_ok=True)
        os.makedirs(os.path.join(self.out_root, "evidence"), exist_ok=True)

    def log(self, *a):
        print("[%s %6.1fs]" % (self.pid, time.time() - self.t0), *a, flush=True)

    def is_known(self, key):
        for e in self.known:
            if e.get("property") == self.pid and e.get("kind") == "known" and e.get("key") == key:
                return e
        return None

    def violation(self, key, what, replay_obj, found_input=True):
        """Record a violation. key identifies the failing input class/call site (for known findings)."""
        e = self.is_known(key) if key else None
        if e is not None:
            if key not in self.known_hits:
                self.known_hits.append(key)
                print("KNOWN-FINDING: property=%s %s" % (self.pid, e.get("what", what)), flush=True)
            return
        n = len(self.violations)
        path = os.path.join(self.out_root, "replay", self.pid, "%s_%d.json" % (self.tier, n))
        replay_obj = dict(replay_obj)
        replay_obj.setdefault("property", self.pid)
        replay_obj.setdefault("what", what)
        replay_obj.setdefault("key", key)
        replay_obj.setdefault("failing_input_found", found_input)
        with open(path, "w") as fh:
            json.dump(replay_obj, fh, indent=1, default=str)
        self.violations.append((key, what, path))
        line = "VIOLATION property=%s replay=%s" % (self.pid, path)
        if not found_input:
            line += " no-failing-input-found"
        print(line, flush=True)

    def finish(self, level="proof"):
        cov = dict(self.coverage)
        ev = {
            "property_id": self.pid,
            "tier": self.tier,
            "seed": self.seed,
            "level": level,
            "coverage": cov,
            "assumptions": self.assumptions,
            "wall_s": round(time.time() - self.t0, 2),
            "violations": len(self.violations),
        }
        if self.known_hits:
            ev["known_findings_hit"] = self.known_hits
        with open(os.path.join(self.out_root, "evidence", "%s.json" % self.pid), "w") as fh:
            json.dump(ev, fh, indent=1, default=str)
        self.log("done: violations=%d known=%d wall=%.1fs" % (len(self.violations), len(self.known_hits), time.time() - self.t0))
        return 1 if self.violations else 0


TRUSTED_BASE = [
    "Coq 8.16.1 kernel incl. its VM (vm_compute); native_compute not used",
    "translator tools/rs2v.py (Rust subset -> Gallina; arithmetic read as exact, casts erased)",
    "correspondence harness (Rust crate /verif/harness, Python drivers in /verif/tools) and its canonicalisers",
    "hand-written Gallina models are tied to the code only by the correspondence runs",
]


def proof_stage(chk, props_module_file, extra_targets=()):
    """Steps 1-3 of the protocol for one property: regenerate, build cone, audit.
    Returns (ok, info). On failure the names of what broke are appended to chk.broken."""
    ok, out = regenerate()
    rel = os.path.relpath(props_module_file, COQ)
    if not ok:
        # a broken translator item only concerns the properties whose proof cone contains the generated
        # file the item belongs to (gen/manifest.json: errors_by_file)
        chk.log("translator reported broken ties:\n" + out[-1500:])
        try:
            man = json.load(open(os.path.join(COQ, "gen", "manifest.json")))
            by_file = man.get("errors_by_file") or {"*": man.get("errors", [])}
        except (OSError, ValueError):
            by_file = {"*": [out.strip()[-1500:]]}
        cone = set(os.path.relpath(f, COQ) for f in cone_files(rel))
        for fname, errs in by_file.items():
            if fname == "*" or ("gen/%s.v" % fname) in cone:
                for e in errs:
                    chk.broken.append("translator: %s: %s" % (fname, e))
    target = rel[:-2] + ".vo"
    t0 = time.time()
    okb, out = coq_build([target] + list(extra_targets))
    chk.log("coq build %s: %s (%.1fs)" % (target, "ok" if okb else "FAILED", time.time() - t0))
    names = theorem_names(props_module_file)
    stmts = theorem_statements(props_module_file)
    discharged = 0
    axioms = {}
    if not okb:
        # find which file/theorem failed
        m = re.findall(r'File "([^"]+)", line (\d+)', out)
        err = out.strip()[-2500:]
        chk.broken.append("proof: build of %s failed at %s\n%s" % (target, m[-1] if m else "?", err))
    else:
        module = "Similari." + ".".join(rel[len("theories/"):-2].split("/"))
        res, aout = print_assumptions(module, names)
        if res is None:
            chk.broken.append("audit: Print Assumptions failed\n" + aout[-1500:])
        else:
            for n in names:
                bad = [a for a in res[n] if a.split(".")[-1] not in {x.split(".")[-1] for x in AXIOM_ALLOW}]
                axioms[n] = res[n]
                if bad:
                    chk.broken.append("audit: theorem %s depends on non-allow-listed axioms %s" % (n, bad))
                else:
                    discharged += 1
    files = cone_files(rel)
    hits = scan_forbidden(files)
    if hits:
        chk.broken.append("audit: forbidden declarations: %s" % hits[:5])
        discharged = 0
    chk.coverage.update({
        "obligations": len(names),
        "discharged": discharged,
        "checker_cmd": "cd /verif/coq && coq_makefile -f _CoqProject -o Makefile && make -j16 %s  (then coqc audit file: Print Assumptions for every theorem of %s; forbidden-word scan over %d cone files)" % (target, rel, len(files)),
        "trusted_base": list(TRUSTED_BASE),
        "theorems": [{"name": n, "statement": s[:600], "axioms": axioms.get(n)} for n, s in stmts],
        "cone_files": [os.path.relpath(f, COQ) for f in files],
    })
    return okb and not chk.broken, out


def coqchk_stage(chk, module):
    t0 = time.time()
    rc, out = sh("coqchk -o -silent -Q theories Similari -Q gen SimilariGen %s" % module, cwd=COQ, timeout=3000)
    chk.coverage["coqchk"] = {"rc": rc, "wall_s": round(time.time() - t0, 1), "tail": out.strip()[-1200:]}
    if rc != 0:
        chk.broken.append("coqchk failed for %s" % module)
    return rc == 0
