#!/bin/sh
# robustness sweep on the UNCHANGED tree: every check under several seeds; prints only failures
cd "$(dirname "$0")/.."
mkdir -p .cache/sweep
for seed in "$@"; do
  for i in 01 02 03 04 05 06 07 08 09 10 11 12 13 14 15 16 17 18 19 20; do
    p=C$i
    VERIF_SEED=$seed ./check $p > .cache/sweep/${p}_$seed.log 2>&1
    rc=$?
    if [ $rc -ne 0 ]; then
      echo "FAIL $p seed=$seed rc=$rc $(grep -E '^VIOLATION' .cache/sweep/${p}_$seed.log | head -2)"
      mkdir -p .cache/sweep/replays; for f in $(grep -oE 'replay=[^ ]+' .cache/sweep/${p}_$seed.log | cut -d= -f2); do cp $f .cache/sweep/replays/${p}_${seed}_$(basename $f) 2>/dev/null; done
    fi
  done
  echo "seed $seed done"
done
