#!/bin/sh
# usage: tools/seedrun.sh name1 name2 ...   (runs tools/seedtest.py for each, logs to .cache/seedlogs)
cd "$(dirname "$0")/.."
mkdir -p .cache/seedlogs
for n in "$@"; do
  python3 tools/seedtest.py seeded/$n > .cache/seedlogs/$n.log 2>&1
  grep -E "demo:|existing tests|exit" .cache/seedlogs/$n.log | head -5 | sed "s/^/[$n] /"
done
