#!/bin/sh
# full regression: every seeded change against its property's check, N in parallel (default 3)
cd "$(dirname "$0")/.."
N=${1:-3}
mkdir -p .cache/seedlogs/all
ls seeded | xargs -P $N -I{} sh -c 'python3 tools/seedtest.py seeded/{} > .cache/seedlogs/all/{}.log 2>&1; grep -E "exit" .cache/seedlogs/all/{}.log | head -3 | cut -c1-120 | sed "s/^/[{}] /"'
