#!/usr/bin/env python3
"""Writes section 11.5 of DESIGN.md (which checks catch which seeded changes) from seeded/*/result.json,
and copies the confirmation facts into each seeded/<name>/meta.json (key `confirmed`)."""
import glob
import json
import os
import re

ROOT = os.path.dirname(os.path.dirname(os.path.abspath(__file__)))
BEGIN = "<!-- SEEDTABLE BEGIN -->"
END = "<!-- SEEDTABLE END -->"


def main():
    rows = []
    for d in sorted(glob.glob(os.path.join(ROOT, "seeded", "*"))):
        name = os.path.basename(d)
        rp = os.path.join(d, "result.json")
        mp = os.path.join(d, "meta.json")
        if not os.path.exists(rp):
            rows.append((name, "-", "-", "not run yet", "", ""))
            continue
        r = json.load(open(rp))
        m = json.load(open(mp)) if os.path.exists(mp) else {}
        summ = (m.get("summary") or m.get("origin") or "")
        summ = re.sub(r"\s+", " ", summ)[:170]
        demo = r.get("demo") or {}
        if m.get("demo_python_verified"):
            demo = m["demo_python_verified"]
        demo_s = "n/a (reverse of a fix: commit)" if name.startswith("legacy_") else (
            "fails with / passes without" if demo.get("fails_with_change") and demo.get("passes_without_change") else "NOT confirmed")
        cells = []
        keys = []
        for pid, c in sorted(r.get("checks", {}).items()):
            v = [l for l in c.get("lines", []) if l.startswith("VIOLATION")]
            if c.get("exit") == 1 and v:
                kind = "concrete input" if any("no-failing-input-found" not in l for l in v) else "no-failing-input-found"
                cells.append("./check %s: VIOLATION (%s)" % (pid, kind))
            else:
                cells.append("./check %s: MISSED" % pid)
            rp2 = os.path.join(d, "replay_%s.json" % pid)
            if os.path.exists(rp2):
                try:
                    keys.append(str(json.load(open(rp2)).get("key")))
                except Exception:
                    pass
        tests = " ".join(r.get("existing_tests") or [])
        tests_s = "81 pass" if "81 passed" in tests else ("timing flake: " + tests[:60] if "FAILED" in tests else tests[:40])
        rows.append((name, summ, demo_s, "; ".join(cells), ", ".join(keys), tests_s))
        m["confirmed"] = {"at_repo_commit": r.get("at_repo_commit"), "patch_applies": r.get("patch_applies"),
                          "crate_tests_with_change": r.get("existing_tests"), "demonstration": demo,
                          "checks": r.get("checks"), "ran": "tools/seedtest.py seeded/%s (scratch worktree of /repo HEAD + VERIF_REPO alternative workspace)" % name}
        json.dump(m, open(mp, "w"), indent=1)
    n_ind = sum(1 for r in rows if not r[0].startswith("legacy_"))
    n_leg = sum(1 for r in rows if r[0].startswith("legacy_"))
    intro = ("%d changes were written by independent sub-agents that saw only the property text and a scratch worktree "
             "(waves 1-6: `seeded/C??_{1..9}`; the last wave one per property; wave 7: `seeded/C??_10` for C01 C03 C04 C09 C12 C13 C14 C16 C17 C19 C20, all eleven caught at the first run with a concrete input (C04_10 also raises C03, C09_10 also C11, C01_10 also C13); later waves were told which sites earlier ones had used), plus %d reverse patches of the "
             "`fix:` commits (`seeded/legacy_*`). Each was confirmed by the coordinator with `tools/seedtest.py` (patch applies at HEAD, the "
             "crate's own 81 tests still pass - two timing-based store tests flake under machine load -, the demonstration fails with and "
             "passes without the change; Python demonstrations of C18 were run by hand against the rebuilt module) and then run against the "
             "property's check in an alternative workspace. Every MISSED entry was followed by a strengthening of the check (see 11.3 / "
             "11.3b) and a re-run; the table shows the LAST result of each. `no-failing-input-found` = only the proof / translated tie / "
             "correspondence broke." % (n_ind, n_leg))
    out = [BEGIN, "", intro, "", "| seeded change | what it does | demonstration | result of the property's check | violation key | crate tests with the change |", "|---|---|---|---|---|---|"]
    for r in rows:
        out.append("| `%s` | %s | %s | %s | %s | %s |" % tuple(x.replace("|", "/") for x in r))
    out += ["", END]
    p = os.path.join(ROOT, "DESIGN.md")
    s = open(p).read()
    block = "\n".join(out)
    if BEGIN in s:
        s = s[:s.index(BEGIN)] + block + s[s.index(END) + len(END):]
    else:
        s += "\n\n### 11.5 Seeded changes: which check catches which change\n\n" + block + "\n"
    open(p, "w").write(s)
    print("rows:", len(rows), "missed:", sum("MISSED" in r[3] for r in rows))


if __name__ == "__main__":
    main()
