#!/usr/bin/env python3
"""Run the registered checks against a seeded change in an isolated worktree.

usage: tools/seedtest.py seeded/<name> [--props C09,C11] [--tier quick] [--keep] [--skip-demo]
Creates /tmp/wt_<name> (git worktree of /repo HEAD), applies patch.diff, optionally runs the demonstration
(expected to fail) and the crate's own tests (expected to pass), runs `VERIF_REPO=<wt> ./check <ID>` for each
property, writes seeded/<name>/result.json, removes the worktree and the alternative workspace.
"""
import re, argparse
import hashlib
import json
import os
import shutil
import subprocess
import sys
import time

ROOT = os.path.dirname(os.path.dirname(os.path.abspath(__file__)))


def sh(cmd, cwd=None, env=None, timeout=3600):
    p = subprocess.run(cmd, shell=True, cwd=cwd, env=env, stdout=subprocess.PIPE, stderr=subprocess.STDOUT, text=True, timeout=timeout)
    return p.returncode, p.stdout


def main():
    ap = argparse.ArgumentParser()
    ap.add_argument("dir")
    ap.add_argument("--props", default=None)
    ap.add_argument("--tier", default="quick")
    ap.add_argument("--keep", action="store_true")
    ap.add_argument("--skip-demo", action="store_true")
    a = ap.parse_args()
    d = os.path.abspath(a.dir)
    name = os.path.basename(d.rstrip("/"))
    meta = json.load(open(os.path.join(d, "meta.json"))) if os.path.exists(os.path.join(d, "meta.json")) else {}
    props = a.props.split(",") if a.props else meta.get("properties") or [meta.get("property")]
    props = [re.match(r"C\d\d", str(x)).group(0) if re.match(r"C\d\d", str(x)) else x for x in props]
    wt = "/tmp/wt_%s" % name
    sh("git -C /repo worktree remove --force %s" % wt)
    rc, out = sh("git -C /repo worktree add %s HEAD" % wt)
    assert rc == 0, out
    res = {"name": name, "properties": props, "at_repo_commit": sh("git -C /repo rev-parse --short HEAD")[1].strip(), "checks": {}}
    try:
        rc, out = sh("git apply %s" % os.path.join(d, "patch.diff"), cwd=wt)
        res["patch_applies"] = rc == 0
        if rc != 0:
            res["apply_error"] = out[-1000:]
            print("patch does not apply:", out)
            return
        env = dict(os.environ, CARGO_NET_OFFLINE="true", CARGO_TARGET_DIR="/tmp/wt_target_%s" % name)
        if not a.skip_demo:
            t0 = time.time()
            rc, out = sh("cargo test --offline 2>&1 | grep -E 'test result|FAILED|panicked' | head -20", cwd=wt, env=env)
            res["existing_tests"] = out.strip().split("\n")[:6]
            print("existing tests:", out.strip()[:300])
            if os.path.exists(os.path.join(d, "demo.rs")):
                # convention: the demonstration is an integration test file using the public API only
                tname = "seed_demo_%s" % name.lower()
                os.makedirs(os.path.join(wt, "tests"), exist_ok=True)
                shutil.copy(os.path.join(d, "demo.rs"), os.path.join(wt, "tests", tname + ".rs"))
                if "similari_verif" in open(os.path.join(d, "demo.rs")).read():
                    # the demonstration forces a schedule through the cfg(similari_verif) hooks
                    env = dict(env, RUSTFLAGS="--cfg similari_verif -C target-cpu=x86-64-v3", CARGO_TARGET_DIR="/tmp/wt_target_%s_verif" % name)
                rc1, out1 = sh("cargo test --offline --test %s 2>&1 | tail -15" % tname, cwd=wt, env=env)
                fails_with = "test result: FAILED" in out1 or "panicked" in out1
                sh("git apply -R %s" % os.path.join(d, "patch.diff"), cwd=wt)
                rc2, out2 = sh("cargo test --offline --test %s 2>&1 | tail -8" % tname, cwd=wt, env=env)
                passes_without = "test result: ok" in out2 and "FAILED" not in out2
                sh("git apply %s" % os.path.join(d, "patch.diff"), cwd=wt)
                os.remove(os.path.join(wt, "tests", tname + ".rs"))
                res["demo"] = {"fails_with_change": fails_with, "passes_without_change": passes_without,
                               "with_tail": out1[-600:], "without_tail": out2[-300:]}
                print("demo: fails_with_change=%s passes_without_change=%s" % (fails_with, passes_without))
        for pid in props:
            t0 = time.time()
            env2 = dict(os.environ, VERIF_REPO=wt)
            rc, out = sh("./check %s --tier %s" % (pid, a.tier), cwd=ROOT, env=env2, timeout=7200)
            viol = [l for l in out.split("\n") if l.startswith("VIOLATION") or l.startswith("KNOWN-FINDING")]
            res["checks"][pid] = {"exit": rc, "lines": viol, "wall_s": round(time.time() - t0, 1)}
            print(pid, "exit", rc, viol)
            # copy the replay for the record
            for l in viol:
                if "replay=" in l:
                    rp = l.split("replay=")[1].split()[0]
                    if os.path.exists(rp):
                        shutil.copy(rp, os.path.join(d, "replay_%s.json" % pid))
        res["detected"] = any(c["exit"] == 1 and any(l.startswith("VIOLATION") for l in c["lines"]) for c in res["checks"].values())
        res["detected_with_input"] = any(any(l.startswith("VIOLATION") and "no-failing-input-found" not in l for l in c["lines"]) for c in res["checks"].values())
    finally:
        if a.skip_demo and os.path.exists(os.path.join(d, "result.json")):
            # keep the confirmation recorded by the last full run
            try:
                prev = json.load(open(os.path.join(d, "result.json")))
                for k in ("existing_tests", "demo"):
                    if k in prev and k not in res:
                        res[k] = prev[k]
            except Exception:
                pass
        json.dump(res, open(os.path.join(d, "result.json"), "w"), indent=1)
        if not a.keep:
            sh("git -C /repo worktree remove --force %s" % wt)
            shutil.rmtree("/tmp/wt_target_%s" % name, ignore_errors=True)
            shutil.rmtree("/tmp/wt_target_%s_verif" % name, ignore_errors=True)
            alt = os.path.join(ROOT, ".cache", "alt", hashlib.sha256(os.path.realpath(wt).encode()).hexdigest()[:12])
            shutil.rmtree(alt, ignore_errors=True)
    print(json.dumps(res, indent=1)[:1500])


if __name__ == "__main__":
    main()
